// Command vcheck is the driver of the verification harness: it builds the
// worker test binary from /repo's current working tree, runs the sharded
// rapid campaign of one property under a watchdog, triages what comes back
// against the known-findings ledger, and writes the evidence file.
//
//	vcheck <Cxx> <quick|thorough>
//	vcheck replay <file>
//	vcheck build
package main

import (
	"bytes"
	"encoding/binary"
	"encoding/json"
	"fmt"
	"os"
	"os/exec"
	"path/filepath"
	"regexp"
	"runtime"
	"sort"
	"strconv"
	"strings"
	"sync"
	"time"

	"verif/harness/internal/core"
)

var (
	verifDir   = "/verif"
	harnessDir = "/verif/harness"
	start      = time.Now()
)

func infra(format string, args ...interface{}) {
	fmt.Printf("INCONCLUSIVE (infrastructure): "+format+"\n", args...)
	os.Exit(2)
}

func goEnv() []string {
	env := os.Environ()
	set := map[string]string{
		"GOFLAGS": "-mod=mod", "GOPROXY": "off", "GOSUMDB": "off", "GOTOOLCHAIN": "local",
		"GOMEMLIMIT": "6GiB", "VERIF_FONTS": filepath.Join(harnessDir, "testdata", "fonts"),
		"GORACE": "halt_on_error=1",
	}
	var out []string
	for _, e := range env {
		k := strings.SplitN(e, "=", 2)[0]
		if _, ok := set[k]; ok {
			continue
		}
		out = append(out, e)
	}
	for k, v := range set {
		out = append(out, k+"="+v)
	}
	return out
}

type info struct {
	ID              string   `json:"id"`
	Rule            string   `json:"rule"`
	QuickN          int      `json:"quick_n"`
	ThoroughN       int      `json:"thorough_n"`
	Race            bool     `json:"race"`
	HasExhaustive   bool     `json:"has_exhaustive"`
	CrashIsViol     bool     `json:"crash_is_violation"`
	Assumptions     []string `json:"assumptions"`
	ImportantLabels []string `json:"important_labels"`
	FuzzTargets     []string `json:"fuzz_targets"`
	CaseTimeoutS    float64  `json:"case_timeout_s"`
}

func build(work string, race bool) string { return buildVariant(work, race, false) }

// buildVariant: fuzz = instrumented for the native coverage-guided engine
func buildVariant(work string, race, fuzz bool) string {
	out := filepath.Join(work, "props.test")
	args := []string{"test", "-c", "-tags", "verif", "-o", out}
	if fuzz {
		out = filepath.Join(work, "props.fuzz.test")
		args = []string{"test", "-c", "-tags", "verif", "-gcflags=all=-d=libfuzzer", "-o", out}
	} else if race {
		out = filepath.Join(work, "props.race.test")
		args = []string{"test", "-c", "-race", "-tags", "verif", "-o", out}
	}
	if repo := os.Getenv("VERIF_REPO"); repo != "" && repo != "/repo" {
		// sensitivity runs: build against a scratch copy of the repository
		mod, err := os.ReadFile(filepath.Join(harnessDir, "go.mod"))
		if err != nil {
			infra("%v", err)
		}
		alt := strings.Replace(string(mod), "=> /repo", "=> "+repo, 1)
		altMod := filepath.Join(work, "go.alt.mod")
		os.WriteFile(altMod, []byte(alt), 0o644)
		sum, _ := os.ReadFile(filepath.Join(harnessDir, "go.sum"))
		os.WriteFile(filepath.Join(work, "go.alt.sum"), sum, 0o644)
		args = append(args, "-modfile="+altMod)
	}
	args = append(args, "./props")
	cmd := exec.Command("go", args...)
	cmd.Dir = harnessDir
	cmd.Env = goEnv()
	var buf bytes.Buffer
	cmd.Stdout, cmd.Stderr = &buf, &buf
	if err := cmd.Run(); err != nil {
		infra("build of the worker failed: %v\n%s", err, tail(buf.String(), 4000))
	}
	return out
}

func tail(s string, n int) string {
	if len(s) > n {
		return "…" + s[len(s)-n:]
	}
	return s
}

func getInfo(bin, id string) info {
	cmd := exec.Command(bin, "-test.run", "^TestInfo$", "-vprop", id)
	cmd.Env = goEnv()
	out, err := cmd.CombinedOutput()
	if err != nil {
		infra("TestInfo failed: %v\n%s", err, tail(string(out), 2000))
	}
	for _, l := range strings.Split(string(out), "\n") {
		if strings.HasPrefix(l, "INFO ") {
			var in info
			if err := json.Unmarshal([]byte(l[5:]), &in); err != nil {
				infra("TestInfo output: %v", err)
			}
			return in
		}
	}
	infra("TestInfo printed nothing for %s:\n%s", id, tail(string(out), 2000))
	return info{}
}

func splitmix(x uint64) uint64 {
	x += 0x9e3779b97f4a7c15
	z := x
	z = (z ^ (z >> 30)) * 0xbf58476d1ce4e5b9
	z = (z ^ (z >> 27)) * 0x94d049bb133111eb
	return z ^ (z >> 31)
}

func derive(seed uint64, prop, shard, restart int) uint64 {
	x := splitmix(seed)
	x = splitmix(x ^ uint64(prop)*0x100000001b3)
	x = splitmix(x ^ uint64(shard)<<20 ^ uint64(restart))
	if x == 0 {
		x = 1
	}
	return x >> 1 // rapid takes uint64; keep it positive in any int64 rendering
}

var reFrameLine = regexp.MustCompile(`(?m)^\s*github\.com/benoitkugler/webrender/([^\s(]+(?:\([^)]*\))?[^\s(]*)\(`)

// reRaceAccess: the innermost module frame of each access of a race report
var reRaceAccess = regexp.MustCompile(`(?m)^(?:Read|Write|Previous read|Previous write) at [^\n]*\n((?:  [^\n]*\n      [^\n]*\n)*?)  github\.com/benoitkugler/webrender/([^\s(]+(?:\([^)]*\))?[^\s(]*)\(`)

// deathSig classifies the stderr of a worker that died.
func deathSig(stderr string, code int) string {
	kind := fmt.Sprintf("death:exit%d", code)
	switch {
	case strings.Contains(stderr, "stack overflow") || strings.Contains(stderr, "goroutine stack exceeds"):
		kind = "fatal:stack-overflow"
	case strings.Contains(stderr, "concurrent map"):
		kind = "fatal:concurrent-map"
	case strings.Contains(stderr, "WARNING: DATA RACE"):
		kind = "race"
	case strings.Contains(stderr, "out of memory"):
		kind = "fatal:out-of-memory"
	case strings.Contains(stderr, "fatal error:"):
		i := strings.Index(stderr, "fatal error:")
		l := stderr[i:]
		if j := strings.IndexByte(l, '\n'); j > 0 {
			l = l[:j]
		}
		kind = "fatal:" + l
	}
	nFrames := 60
	if kind == "fatal:stack-overflow" {
		nFrames = 600
	}
	ms := reFrameLine.FindAllStringSubmatch(stderr, nFrames)
	set := map[string]int{}
	for _, m := range ms {
		f := regexp.MustCompile(`\.func[0-9]+(\.[0-9]+)*$`).ReplaceAllString(m[1], ".func")
		set[f]++
	}
	if kind == "fatal:stack-overflow" {
		// name the recursion, not the leaf the stack happened to end in: keep the functions of the cycle
		// (those seen about as often as the most frequent one)
		max := 0
		for _, n := range set {
			if n > max {
				max = n
			}
		}
		for f, n := range set {
			if n < max-1 || n < 3 {
				delete(set, f)
			}
		}
	}
	var fs []string
	for f := range set {
		fs = append(fs, f)
	}
	sort.Strings(fs)
	site := "unknown"
	if len(fs) > 0 {
		site = fs[0]
	}
	if kind == "race" {
		acc := map[string]bool{}
		for _, m := range reRaceAccess.FindAllStringSubmatch(stderr, 2) {
			acc[m[2]] = true
		}
		if len(acc) > 0 {
			var as []string
			for a := range acc {
				as = append(as, a)
			}
			sort.Strings(as)
			site = strings.Join(as, "+")
		} else if len(fs) > 1 {
			site = fs[0] + "+" + fs[1]
		}
	}
	return strings.Join(strings.Fields(kind+":"+site), "_")
}

type shardResult struct {
	stats     []*core.Stats
	restarts  int
	infraMsg  string
	timedOut  bool
	deathRecs []core.ViolationRec
}

func readInflight(path string) []byte {
	b, err := os.ReadFile(path)
	if err != nil || len(b) < 8 {
		return nil
	}
	n := binary.LittleEndian.Uint64(b)
	if n == 0 || int(n) > len(b)-8 {
		return nil
	}
	return b[8 : 8+n]
}

func readStats(path string) *core.Stats {
	b, err := os.ReadFile(path)
	if err != nil {
		return nil
	}
	s := core.NewStats("")
	if json.Unmarshal(b, s) != nil {
		return nil
	}
	return s
}

func runShard(bin string, in info, tier string, seed uint64, shard, shards, budget int, work, ledger string, deadline time.Time, exhaustive bool) shardResult {
	var res shardResult
	remaining := budget
	for restart := 0; ; restart++ {
		if !exhaustive && remaining <= 0 {
			break
		}
		if restart > 40 {
			res.infraMsg = "too many restarts"
			break
		}
		ds := derive(seed, propIndex(in.ID), shard, restart)
		tag := fmt.Sprintf("s%02d-r%02d", shard, restart)
		if exhaustive {
			tag = "exh-" + tag
		}
		statsPath := filepath.Join(work, tag+".stats.json")
		inflPath := filepath.Join(work, tag+".inflight")
		errPath := filepath.Join(work, tag+".stderr")
		args := []string{"-test.run", "^TestWorker$", "-test.timeout", "0", "-vprop", in.ID, "-vtier", tier,
			"-vout", statsPath, "-vinflight", inflPath, "-vledger", ledger,
			"-vshard", strconv.Itoa(shard), "-vshards", strconv.Itoa(shards), "-vseed", strconv.FormatUint(ds, 10),
			"-rapid.seed", strconv.FormatUint(ds, 10), "-rapid.checks", strconv.Itoa(remaining), "-rapid.nofailfile",
			"-rapid.shrinktime", "20s"}
		if exhaustive {
			args = append(args, "-vexhaustive")
		}
		if os.Getenv("VERIF_SURVEY") != "" {
			args = append(args, "-vsurvey")
		}
		cmd := exec.Command(bin, args...)
		cmd.Env = goEnv()
		cmd.Dir = work
		ef, _ := os.Create(errPath)
		cmd.Stdout = ef
		cmd.Stderr = ef
		if err := cmd.Start(); err != nil {
			res.infraMsg = err.Error()
			break
		}
		done := make(chan error, 1)
		go func() { done <- cmd.Wait() }()
		var err error
		select {
		case err = <-done:
		case <-time.After(time.Until(deadline)):
			cmd.Process.Kill()
			<-done
			res.timedOut = true
		}
		ef.Close()
		st := readStats(statsPath)
		if st != nil {
			res.stats = append(res.stats, st)
			remaining -= st.Evaluations
		}
		if res.timedOut {
			break
		}
		code := 0
		if err != nil {
			if ee, ok := err.(*exec.ExitError); ok {
				code = ee.ExitCode()
			} else {
				res.infraMsg = err.Error()
				break
			}
		}
		if exhaustive {
			if st == nil || !st.Done {
				res.infraMsg = "exhaustive enumeration did not complete (exit " + strconv.Itoa(code) + ")"
			}
			break
		}
		if code == 0 {
			if st != nil && len(st.Violations) > 0 && os.Getenv("VERIF_SURVEY") != "" {
				break
			}
			break
		}
		if code == 1 && st != nil && st.Done {
			if len(st.Violations) == 0 {
				eb, _ := os.ReadFile(errPath)
				res.infraMsg = "worker failed without a recorded violation:\n" + tail(string(eb), 3000)
			}
			break // violation found; this shard stops
		}
		if code == 4 {
			res.restarts++
			continue
		}
		if code == 5 {
			eb, _ := os.ReadFile(errPath)
			res.infraMsg = "worker reported an infrastructure problem:\n" + tail(string(eb), 2000)
			break
		}
		// process death: the in-flight case is the failing input
		eb, _ := os.ReadFile(errPath)
		cj := readInflight(inflPath)
		if cj == nil {
			res.infraMsg = fmt.Sprintf("worker died (exit %d) with no case in flight:\n%s", code, tail(string(eb), 3000))
			break
		}
		sig := deathSig(string(eb), code)
		res.deathRecs = append(res.deathRecs, core.ViolationRec{Property: in.ID, Sig: sig, Msg: deathExcerpt(string(eb)), Case: cj, Seed: ds, Tier: tier})
		remaining--
		res.restarts++
	}
	return res
}

// deathExcerpt keeps the informative part of a dying worker's stderr.
func deathExcerpt(stderr string) string {
	i := strings.Index(stderr, "fatal error:")
	if j := strings.Index(stderr, "WARNING: DATA RACE"); j >= 0 && (i < 0 || j < i) {
		i = j
	}
	if j := strings.Index(stderr, "runtime: goroutine stack exceeds"); j >= 0 && (i < 0 || j < i) {
		i = j
	}
	if i < 0 {
		return tail(stderr, 1500)
	}
	ex := stderr[i:]
	var keep []string
	for _, l := range strings.Split(ex, "\n") {
		if strings.HasPrefix(l, "\t") {
			continue
		}
		keep = append(keep, l)
		if len(keep) > 30 {
			break
		}
	}
	return strings.Join(keep, "\n")
}

func propIndex(id string) int {
	n, _ := strconv.Atoi(strings.TrimPrefix(id, "C"))
	return n
}

type replayOut struct {
	sig  string
	msg  string
	code int
	raw  string
}

func replay(bin, file string, timeout time.Duration) replayOut {
	cmd := exec.Command(bin, "-test.run", "^TestReplay$", "-test.timeout", "0", "-vreplay", file)
	cmd.Env = goEnv()
	var buf bytes.Buffer
	cmd.Stdout, cmd.Stderr = &buf, &buf
	if err := cmd.Start(); err != nil {
		return replayOut{sig: "INFRA", msg: err.Error()}
	}
	done := make(chan error, 1)
	go func() { done <- cmd.Wait() }()
	var err error
	select {
	case err = <-done:
	case <-time.After(timeout):
		cmd.Process.Kill()
		<-done
		return replayOut{sig: "hang:driver-timeout", raw: buf.String()}
	}
	out := buf.String()
	ro := replayOut{raw: out}
	if err != nil {
		if ee, ok := err.(*exec.ExitError); ok {
			ro.code = ee.ExitCode()
		}
	}
	for _, l := range strings.Split(out, "\n") {
		if strings.HasPrefix(l, "REPLAY sig=") {
			f := strings.Fields(l[len("REPLAY sig="):])
			if len(f) > 0 {
				ro.sig = f[0]
			}
		}
		if strings.HasPrefix(l, "REPLAY-MSG ") {
			ro.msg = l[len("REPLAY-MSG "):]
		}
	}
	if ro.sig == "" {
		if ro.code != 0 {
			ro.sig = deathSig(out, ro.code)
		} else {
			ro.sig = "INFRA"
			ro.msg = "no REPLAY line"
		}
	}
	return ro
}

func main() {
	if len(os.Args) < 2 {
		fmt.Println("usage: vcheck <Cxx> <quick|thorough> | replay <file> | build")
		os.Exit(2)
	}
	if d := os.Getenv("VERIF_DIR"); d != "" {
		verifDir = d
		harnessDir = filepath.Join(d, "harness")
	}
	work := filepath.Join(verifDir, "work", fmt.Sprintf("%s-%d", os.Args[1], os.Getpid()))
	if err := os.MkdirAll(work, 0o755); err != nil {
		infra("%v", err)
	}
	// temporary files of the workers (C15 documents handed to child processes, the shared memory
	// files of the native fuzzer) live and die with the work directory, not in /tmp
	if tmp := filepath.Join(work, "tmp"); os.MkdirAll(tmp, 0o755) == nil {
		os.Setenv("TMPDIR", tmp)
	}
	code := 2
	func() {
		defer os.RemoveAll(work)
		defer func() {
			if r := recover(); r != nil {
				fmt.Printf("INCONCLUSIVE (driver panic): %v\n", r)
				code = 2
			}
		}()
		switch os.Args[1] {
		case "build":
			build(work, false)
			code = 0
		case "replay":
			if len(os.Args) < 3 {
				infra("replay needs a file")
			}
			bin := build(work, false)
			ro := replay(bin, os.Args[2], 120*time.Second)
			fmt.Printf("replay: signature=%s\n%s\n", ro.sig, ro.msg)
			if ro.sig == "OK" {
				code = 0
			} else if ro.sig == "INFRA" {
				fmt.Println(tail(ro.raw, 3000))
				code = 2
			} else {
				var rec core.ViolationRec
				b, _ := os.ReadFile(os.Args[2])
				json.Unmarshal(b, &rec)
				fmt.Printf("VIOLATION property=%s replay=%s\n", rec.Property, os.Args[2])
				code = 1
			}
		default:
			tier := "quick"
			if len(os.Args) > 2 {
				tier = os.Args[2]
			}
			if t := os.Getenv("VERIF_TIER"); t != "" && len(os.Args) <= 2 {
				tier = t
			}
			code = runCheck(os.Args[1], tier, work)
		}
	}()
	os.Exit(code)
}

func envInt(name string, def int) int {
	if v := os.Getenv(name); v != "" {
		if n, err := strconv.Atoi(v); err == nil {
			return n
		}
	}
	return def
}

// nativeFuzzSeconds: properties with a native fuzz phase in the thorough tier, and its length
var nativeFuzzSeconds = map[string]int{"C03": 120, "C05": 120, "C06": 240, "C07": 240, "C08": 120, "C17": 120, "C18": 180, "C19": 120, "C20": 240}

var reFuzzLine = regexp.MustCompile(`fuzz: elapsed: (\d+)s, execs: (\d+) \(\d+/sec\), new interesting: (\d+) \(total: (\d+)\)`)

func runNativeFuzz(work, id, ledgerPath string, seconds int) (map[string]interface{}, []core.ViolationRec) {
	bin := buildVariant(work, false, true)
	dir := filepath.Join(work, "fuzz")
	os.MkdirAll(dir, 0o755)
	prefix := filepath.Join(dir, "viol")
	cmd := exec.Command(bin, "-test.run", "^$", "-test.fuzz", "^FuzzProp$", "-test.fuzztime", fmt.Sprintf("%ds", seconds),
		"-test.fuzzcachedir", filepath.Join(dir, "cache"), "-test.timeout", fmt.Sprintf("%ds", seconds+600),
		"-vprop", id, "-vledger", ledgerPath, "-vout", prefix)
	cmd.Dir = dir
	cmd.Env = goEnv()
	var buf bytes.Buffer
	cmd.Stdout, cmd.Stderr = &buf, &buf
	err := cmd.Run()
	out := buf.String()
	ev := map[string]interface{}{"engine": "go test -fuzz (coverage-guided, through rapid.MakeFuzz)", "seconds_requested": seconds,
		"reproducible_by_seed": false}
	if ms := reFuzzLine.FindAllStringSubmatch(out, -1); len(ms) > 0 {
		m := ms[len(ms)-1]
		a, _ := strconv.Atoi(m[1])
		b, _ := strconv.Atoi(m[2])
		c, _ := strconv.Atoi(m[4])
		ev["seconds"], ev["execs"], ev["interesting_inputs"] = a, b, c
	}
	var viol []core.ViolationRec
	files, _ := filepath.Glob(prefix + ".*.json")
	for _, f := range files {
		b, e := os.ReadFile(f)
		if e != nil {
			continue
		}
		var rec core.ViolationRec
		if json.Unmarshal(b, &rec) == nil {
			viol = append(viol, rec)
		}
	}
	if err != nil && len(viol) == 0 {
		// the fuzzing process failed without a recorded violation (worker death, engine error)
		ev["engine_error"] = tail(out, 1500)
	}
	ev["violations"] = len(viol)
	return ev, viol
}

func runCheck(id, tier, work string) int {
	seed := uint64(1)
	if v := os.Getenv("VERIF_SEED"); v != "" {
		if n, err := strconv.ParseInt(v, 10, 64); err == nil {
			seed = uint64(n)
		}
	}
	ledgerPath := filepath.Join(verifDir, "known-findings.txt")
	if alt := os.Getenv("VERIF_LEDGER"); alt != "" {
		ledgerPath = alt // development aid: triage with another ledger
	}
	lb, err := os.ReadFile(ledgerPath)
	if err != nil {
		infra("ledger: %v", err)
	}
	ledger, err := core.ParseLedger(string(lb))
	if err != nil {
		infra("%v", err)
	}
	bin := build(work, false)
	in := getInfo(bin, id)
	if in.Race {
		bin = build(work, true)
	}
	shards := envInt("VERIF_SHARDS", runtime.NumCPU())
	if shards > 16 {
		shards = 16
	}
	total := in.QuickN
	maxWall := 15 * time.Minute
	if tier == "thorough" {
		total = in.ThoroughN
		maxWall = 150 * time.Minute
	}
	total = envInt("VERIF_N", total)
	if shards > total {
		shards = 1
	}
	deadline := time.Now().Add(maxWall)

	violations := []core.ViolationRec{}
	knownSeen := map[string]bool{}
	var notes []string

	// 1. replay committed witnesses (seconds): known findings and fixed defects
	regress, _ := filepath.Glob(filepath.Join(verifDir, "regress", id+"-*.json"))
	sort.Strings(regress)
	fixedChecked := 0
	for _, w := range regress {
		base := filepath.Base(w)
		ro := replay(bin, w, 150*time.Second)
		if ro.sig == "INFRA" {
			infra("replay of %s: %s\n%s", w, ro.msg, tail(ro.raw, 2000))
		}
		if strings.Contains(base, "-fixed-") {
			fixedChecked++
			if ro.sig != "OK" {
				b, _ := os.ReadFile(w)
				var rec core.ViolationRec
				json.Unmarshal(b, &rec)
				rec.Sig, rec.Msg = ro.sig, "a repaired defect is back: "+ro.msg
				rec.Property = id
				violations = append(violations, rec)
			}
			continue
		}
		if ro.sig == "OK" {
			notes = append(notes, "witness "+base+" no longer fails (ledger entry may be stale)")
			continue
		}
		if f := ledger.Match(id, ro.sig); f != nil {
			knownSeen[f.ID] = true
		} else if f := ledger.MatchCrash(ro.sig); f != nil && !in.CrashIsViol {
			knownSeen[f.ID] = true
		} else {
			b, _ := os.ReadFile(w)
			var rec core.ViolationRec
			json.Unmarshal(b, &rec)
			rec.Sig, rec.Msg, rec.Property = ro.sig, "witness "+base+" fails with a signature that is not listed: "+ro.msg, id
			violations = append(violations, rec)
		}
	}

	// 2. the campaign
	per := (total + shards - 1) / shards
	results := make([]shardResult, shards)
	var wg sync.WaitGroup
	for i := 0; i < shards; i++ {
		wg.Add(1)
		go func(i int) {
			defer wg.Done()
			results[i] = runShard(bin, in, tier, seed, i, shards, per, work, ledgerPath, deadline, false)
		}(i)
	}
	var exh []shardResult
	if tier == "thorough" && in.HasExhaustive {
		exh = make([]shardResult, shards)
		wg.Wait() // run the enumeration after the campaign to keep 16 cores for each
		for i := 0; i < shards; i++ {
			wg.Add(1)
			go func(i int) {
				defer wg.Done()
				exh[i] = runShard(bin, in, tier, seed, i, shards, 0, work, ledgerPath, deadline, true)
			}(i)
		}
	}
	wg.Wait()

	// 2b. native coverage-guided campaign (thorough tier, pure-function properties): the fuzzer's bytes
	// drive the same generator through rapid.MakeFuzz, the oracle and the ledger triage are the same
	var fuzzEv map[string]interface{}
	var fuzzViol []core.ViolationRec
	if fs := nativeFuzzSeconds[id]; tier == "thorough" && fs > 0 && os.Getenv("VERIF_NOFUZZ") == "" {
		if v := envInt("VERIF_FUZZ_SECONDS", 0); v > 0 {
			fs = v
		}
		fuzzEv, fuzzViol = runNativeFuzz(work, id, ledgerPath, fs)
	}

	// 3. merge
	ev := 0
	nt := map[uint64]struct{}{}
	labels := map[string]int{}
	excluded := map[string]int{}
	knownHits := map[string]int{}
	crashNotes := map[string]int{}
	sigCounts := map[string]int{}
	var crashCases []core.ViolationRec
	var first, minh []core.Sample
	restarts := 0
	timedOut := false
	var infraMsgs []string
	exhNotes := []string{}
	exhEval := 0
	all := append([]shardResult{}, results...)
	all = append(all, exh...)
	for ri, r := range all {
		restarts += r.restarts
		if r.timedOut {
			timedOut = true
		}
		if r.infraMsg != "" {
			infraMsgs = append(infraMsgs, r.infraMsg)
		}
		for _, d := range r.deathRecs {
			ev++
			if f := ledger.Match(id, d.Sig); f != nil {
				knownHits[f.ID]++
				continue
			}
			isRace := in.Race && (strings.HasPrefix(d.Sig, "race:") || strings.HasPrefix(d.Sig, "fatal:concurrent-map"))
			if !in.CrashIsViol && !isRace {
				if f := ledger.MatchCrash(d.Sig); f != nil {
					excluded["crash-known:"+f.ID]++
				} else {
					excluded["crash-unlisted"]++
					crashNotes[d.Sig]++
					crashCases = append(crashCases, d)
				}
				continue
			}
			violations = append(violations, d)
		}
		for _, s := range r.stats {
			ev += s.Evaluations
			if ri >= len(results) {
				exhEval += s.Evaluations
				if s.Exhaustive != "" {
					exhNotes = append(exhNotes, s.Exhaustive)
				}
			}
			for _, h := range s.NTHashes {
				nt[h] = struct{}{}
			}
			for k, v := range s.Labels {
				labels[k] += v
			}
			for k, v := range s.Excluded {
				excluded[k] += v
			}
			for k, v := range s.KnownHits {
				knownHits[k] += v
			}
			for k, v := range s.CrashNotes {
				crashNotes[k] += v
			}
			for k, v := range s.SigCounts {
				sigCounts[k] += v
			}
			if len(first) < 3 {
				first = append(first, s.First...)
			}
			minh = append(minh, s.MinHash...)
			violations = append(violations, s.Violations...)
			crashCases = append(crashCases, s.CrashCases...)
		}
	}
	if len(first) > 3 {
		first = first[:3]
	}
	for i := range minh {
		minh[i].Hash = core.Hash64(minh[i].Case)
	}
	sort.Slice(minh, func(i, j int) bool { return minh[i].Hash < minh[j].Hash })
	if len(minh) > 3 {
		minh = minh[:3]
	}
	for k := range knownHits {
		knownSeen[k] = true
	}

	violations = append(violations, fuzzViol...)
	if fuzzEv != nil {
		if e, ok := fuzzEv["engine_error"]; ok {
			notes = append(notes, "native fuzz phase ended with an engine error (no violation recorded): "+fmt.Sprint(e))
		}
	}

	// 4. violations -> replay files (deduplicated by signature)
	bySig := map[string]core.ViolationRec{}
	for _, v := range violations {
		if old, ok := bySig[v.Sig]; !ok || len(v.Case) < len(old.Case) {
			bySig[v.Sig] = v
		}
	}
	var sigs []string
	for s := range bySig {
		sigs = append(sigs, s)
	}
	sort.Strings(sigs)
	os.MkdirAll(filepath.Join(verifDir, "replay"), 0o755)
	var vioLines []string
	for _, s := range sigs {
		v := bySig[s]
		b, _ := json.MarshalIndent(v, "", " ")
		p := filepath.Join(verifDir, "replay", fmt.Sprintf("%s-%016x.json", id, core.Hash64([]byte(v.Sig+string(v.Case)))))
		os.WriteFile(p, b, 0o644)
		vioLines = append(vioLines, fmt.Sprintf("VIOLATION property=%s replay=%s", id, p))
		fmt.Printf("violation signature: %s (x%d)\n  %s\n", v.Sig, sigCounts[v.Sig], strings.ReplaceAll(tail(firstLines(v.Msg, 6), 800), "\n", "\n  "))
	}

	// 5. evidence
	var samples []interface{}
	for _, s := range append(first, minh...) {
		samples = append(samples, map[string]interface{}{"case": s.Case, "labels": s.Labs})
	}
	if len(samples) == 0 {
		samples = append(samples, "no non-trivial case was produced in this run")
	}
	var warn []string
	for _, l := range in.ImportantLabels {
		if ev > 0 && float64(labels[l]) < 0.01*float64(ev-exhEval) {
			warn = append(warn, fmt.Sprintf("label %q reached only %d of %d cases (<1%%)", l, labels[l], ev-exhEval))
		}
	}
	listed := []string{}
	for _, f := range ledger.Findings {
		if f.Property == id {
			listed = append(listed, f.ID)
		}
	}
	evidence := map[string]interface{}{
		"property_id": id,
		"tier":        tier,
		"seed":        int64(seed),
		"level":       "exploration",
		"wall_s":      time.Since(start).Seconds(),
		"violations":  len(sigs),
		"assumptions": in.Assumptions,
		"coverage": map[string]interface{}{
			"evaluations":                        ev,
			"distinct_nontrivial":                len(nt),
			"rule":                               in.Rule,
			"samples":                            samples,
			"labels":                             labels,
			"excluded":                           excluded,
			"known_finding_hits":                 knownHits,
			"known_findings_listed":              listed,
			"unlisted_crashes_attributed_to_C01": crashNotes,
			"shards":                             shards,
			"restarts":                           restarts,
			"requested_cases":                    total,
			"fixed_witnesses_replayed":           fixedChecked,
			"fuzz":                               fuzzEv,
			"exhaustive":                         len(exhNotes) > 0 && len(infraMsgs) == 0 && !timedOut,
			"exhaustive_note":                    strings.Join(uniq(exhNotes), "; "),
			"exhaustive_evaluations":             exhEval,
			"generator_warnings":                 warn,
			"notes":                              notes,
			"tolerance":                          "geometric comparisons use |d| <= 1e-3 px + 1e-5*|expected| unless the rule says otherwise",
		},
	}
	if in.Assumptions == nil {
		evidence["assumptions"] = []string{}
	}
	eb, _ := json.MarshalIndent(evidence, "", " ")
	os.MkdirAll(filepath.Join(verifDir, "evidence"), 0o755)
	if err := os.WriteFile(filepath.Join(verifDir, "evidence", id+".json"), eb, 0o644); err != nil {
		infra("evidence: %v", err)
	}

	// 6. report
	fmt.Printf("%s %s seed=%d: %d cases (%d requested), %d distinct non-trivial, %d restarts, %.1fs\n",
		id, tier, seed, ev, total, len(nt), restarts, time.Since(start).Seconds())
	for _, n := range notes {
		fmt.Println("NOTE:", n)
	}
	for _, w := range warn {
		fmt.Println("GENERATOR-WARNING:", w)
	}
	var cn []string
	for s, n := range crashNotes {
		cn = append(cn, fmt.Sprintf("NOTE: crash outside the ledger while evaluating %s (attributed to C01, case excluded) x%d: %s", id, n, s))
	}
	sort.Strings(cn)
	for _, l := range cn {
		fmt.Println(l)
	}
	seenCrash := map[string]bool{}
	for _, cc := range crashCases {
		if seenCrash[cc.Sig] {
			continue
		}
		seenCrash[cc.Sig] = true
		b, _ := json.MarshalIndent(cc, "", " ")
		p := filepath.Join(verifDir, "replay", fmt.Sprintf("%s-crash-%016x.json", id, core.Hash64([]byte(cc.Sig))))
		os.WriteFile(p, b, 0o644)
		fmt.Printf("NOTE: input of the unlisted crash %s saved as %s\n", cc.Sig, p)
	}
	for _, f := range ledger.Findings {
		if f.Property != id {
			continue
		}
		if knownSeen[f.ID] {
			fmt.Printf("KNOWN-FINDING: property=%s %s %s (hits this run: %d)\n", id, f.ID, f.What, knownHits[f.ID])
		} else {
			fmt.Printf("NOTE: listed finding %s was not re-observed in this run\n", f.ID)
		}
	}
	for _, l := range vioLines {
		fmt.Println(l)
	}
	if len(vioLines) > 0 {
		return 1
	}
	if len(infraMsgs) > 0 {
		fmt.Printf("INCONCLUSIVE (infrastructure): %s\n", strings.Join(uniq(infraMsgs), "\n"))
		return 2
	}
	if timedOut {
		fmt.Println("INCONCLUSIVE: wall-clock cap reached before the case budget was spent")
		return 2
	}
	if ev < total*9/10 {
		fmt.Printf("INCONCLUSIVE: only %d of %d cases were executed\n", ev, total)
		return 2
	}
	if tier == "thorough" && len(warn) > 0 {
		fmt.Println("INCONCLUSIVE: generator distribution warning in the thorough tier")
		return 2
	}
	return 0
}

func uniq(in []string) []string {
	seen := map[string]bool{}
	var out []string
	for _, s := range in {
		if !seen[s] {
			seen[s] = true
			out = append(out, s)
		}
	}
	return out
}

func firstLines(s string, n int) string {
	l := strings.Split(s, "\n")
	if len(l) > n {
		l = l[:n]
	}
	return strings.Join(l, "\n")
}
