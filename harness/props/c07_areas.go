package props

import (
	"strings"

	"pgregory.net/rapid"
)

// grid-template-areas: each string is a row of cells; a cell is a name or a run of '.' (a null cell),
// cells are separated by white space or by the change between dots and a name (CSS Grid 7.3). The value
// is valid when every row has the same non-zero number of cells and every name covers one filled rectangle.

var c07AreaAtoms = []string{".", ".", "..", "a", "a", "b", "c", " ", " ", "  ", "a ", " b", ". "}

func c07AreasGen(t *rapid.T) string {
	rows := rapid.IntRange(1, 3).Draw(t, "nrows")
	var out []string
	for r := 0; r < rows; r++ {
		var b strings.Builder
		for i, n := 0, rapid.IntRange(1, 6).Draw(t, "natoms"); i < n; i++ {
			b.WriteString(rapid.SampledFrom(c07AreaAtoms).Draw(t, "atom"))
		}
		out = append(out, `"`+b.String()+`"`)
	}
	return strings.Join(out, rapid.SampledFrom([]string{" ", " ", "\n", ""}).Draw(t, "rowsep"))
}

// c07AreasValid is the reference reading of the rows (the text between the quotes of each string).
func c07AreasValid(rows []string) bool {
	var grid [][]string
	for _, r := range rows {
		var cells []string
		i := 0
		for i < len(r) {
			switch c := r[i]; {
			case c == ' ':
				i++
			case c == '.':
				for i < len(r) && r[i] == '.' {
					i++
				}
				cells = append(cells, "")
			default:
				j := i
				for j < len(r) && r[j] != ' ' && r[j] != '.' {
					j++
				}
				cells = append(cells, r[i:j])
				i = j
			}
		}
		if len(cells) == 0 {
			return false
		}
		grid = append(grid, cells)
	}
	if len(grid) == 0 {
		return false
	}
	for _, row := range grid {
		if len(row) != len(grid[0]) {
			return false
		}
	}
	// every name: its cells are exactly the cells of their bounding box
	type box struct{ x0, y0, x1, y1, n int }
	boxes := map[string]*box{}
	for y, row := range grid {
		for x, name := range row {
			if name == "" {
				continue
			}
			b := boxes[name]
			if b == nil {
				boxes[name] = &box{x, y, x, y, 1}
				continue
			}
			b.n++
			if x < b.x0 {
				b.x0 = x
			}
			if x > b.x1 {
				b.x1 = x
			}
			if y > b.y1 {
				b.y1 = y
			}
		}
	}
	for _, b := range boxes {
		if (b.x1-b.x0+1)*(b.y1-b.y0+1) != b.n {
			return false
		}
	}
	return true
}
