package props

import (
	"fmt"
	"regexp"
	"sort"
	"strconv"
	"strings"
	"time"

	bo "github.com/benoitkugler/webrender/html/boxes"
	"pgregory.net/rapid"

	"verif/harness/internal/wr"
)

// C02 — Pagination and line breaking conserve content.
//
// Every generated word is a token <flow letters><index>: the words of one flow (the main flow, each
// table cell, float, absolutely positioned box, inline-block, footnote) are numbered 0..n-1 in document
// order, so loss, duplication and reordering are visible in the laid-out text itself.

type C02Flow struct {
	ID     string `json:"id"`
	N      int    `json:"n"`
	Repeat bool   `json:"repeat,omitempty"` // CSS repeats it (table header / footer group)
	Fixed  bool   `json:"fixed,omitempty"`  // content of a fixed-position box: once on every page
	// Ctx: for each word, the outermost fragmentation context it sits in (plain, multicol, grid, flex,
	// table, float, abspos, inline-block, footnote)
	Ctx []string `json:"ctx"`
}

type C02Case struct {
	HTML   string    `json:"html"`
	Flows  []C02Flow `json:"flows"`
	Engine string    `json:"engine"`
}

type c02Gen struct {
	t     *rapid.T
	flows []*C02Flow
	depth int
	feat  map[string]bool
	ctx   []string
	// inRepeat: inside a table header / footer group, whose content CSS repeats
	inRepeat bool
	nFixed   int
}

func (g *c02Gen) push(c string) func() {
	g.ctx = append(g.ctx, c)
	return func() { g.ctx = g.ctx[:len(g.ctx)-1] }
}

func (g *c02Gen) newFlow(repeat bool) *C02Flow {
	i := len(g.flows)
	id := string(rune('A' + i%26))
	if i >= 26 {
		id = string(rune('A'+(i/26-1)%26)) + id
	}
	f := &C02Flow{ID: id, Repeat: repeat || g.inRepeat}
	g.flows = append(g.flows, f)
	return f
}

func (g *c02Gen) word(f *C02Flow) string {
	w := f.ID + strconv.Itoa(f.N)
	f.N++
	c := "plain"
	if len(g.ctx) > 0 {
		c = g.ctx[0]
	}
	f.Ctx = append(f.Ctx, c)
	return w
}

var c02InlineOpen = []string{`<b>`, `<i style="padding:0 2px">`, `<span style="margin:0 3px;border:1px solid">`, `<span style="border-left:2px solid;padding-right:4px">`, `<em style="font-size:12px">`, `<span style="position:relative;top:2px">`, `<span style="vertical-align:super">`}

// inline content of flow f: words, inline boxes, <br>, inline-blocks (own flows)
func (g *c02Gen) inline(f *C02Flow, maxWords int) string {
	t := g.t
	n := rapid.IntRange(1, maxWords).Draw(t, "nwords")
	var b strings.Builder
	open := ""
	for i := 0; i < n; i++ {
		switch rapid.IntRange(0, 14).Draw(t, "inl") {
		case 0:
			if open == "" {
				tag := rapid.SampledFrom(c02InlineOpen).Draw(t, "itag")
				open = "</" + tag[1:strings.IndexAny(tag, " >")] + ">"
				b.WriteString(tag)
			}
		case 1:
			if open != "" {
				b.WriteString(open)
				open = ""
			}
		case 2:
			b.WriteString("<br>")
			g.feat["br"] = true
		case 3:
			if g.depth < 2 {
				g.depth++
				ib := g.newFlow(false)
				pop := g.push("inline-block")
				fmt.Fprintf(&b, `<span style="display:inline-block;width:%dpx">%s</span> `, rapid.SampledFrom([]int{20, 30, 50}).Draw(t, "ibw"), g.inline(ib, 4))
				pop()
				g.depth--
				g.feat["inline-block"] = true
			}
		}
		b.WriteString(g.word(f))
		b.WriteString(rapid.SampledFrom([]string{" ", " ", " ", " ", "  ", "\n", " \n "}).Draw(t, "sep"))
	}
	b.WriteString(open)
	return b.String()
}

var c02Breaks = []string{"", "", "", "", "", "", "break-before:page", "break-after:page", "break-inside:avoid", "break-before:avoid", "break-after:avoid", "break-before:left", "break-before:right", "break-after:right", "break-before:always", "page-break-inside:avoid"}

func (g *c02Gen) boxStyle() string {
	t := g.t
	var d []string
	if rapid.IntRange(0, 2).Draw(t, "hasm") == 0 {
		d = append(d, "margin:"+rapid.SampledFrom([]string{"0", "3px 0", "10px 0", "5px", "0 0 12px", "-3px 0 0"}).Draw(t, "margin"))
	}
	if rapid.IntRange(0, 3).Draw(t, "hasp") == 0 {
		d = append(d, "padding:"+rapid.SampledFrom([]string{"2px", "5px 0", "0 3px", "7px"}).Draw(t, "padding"))
	}
	if rapid.IntRange(0, 3).Draw(t, "hasb") == 0 {
		d = append(d, "border:"+rapid.SampledFrom([]string{"1px solid", "2px solid", "3px solid"}).Draw(t, "border"))
	}
	if br := rapid.SampledFrom(c02Breaks).Draw(t, "break"); br != "" {
		d = append(d, br)
		g.feat["break:"+strings.Split(br, ":")[1]] = true
	}
	if rapid.IntRange(0, 2).Draw(t, "ow") == 0 {
		d = append(d, fmt.Sprintf("orphans:%d;widows:%d", rapid.IntRange(1, 4).Draw(t, "orphans"), rapid.IntRange(1, 4).Draw(t, "widows")))
		g.feat["orphans-widows"] = true
	}
	if rapid.IntRange(0, 9).Draw(t, "bdb") == 0 {
		d = append(d, "box-decoration-break:clone")
	}
	if rapid.IntRange(0, 7).Draw(t, "paint") == 0 {
		// effects applied when painting: they move or blend what is drawn, never remove it
		// (invertible transforms only: mirrored, rotated, scaled, skewed)
		d = append(d, rapid.SampledFrom([]string{"transform:rotate(10deg)", "transform:scaleX(-1)", "transform:scale(-1, 1)", "transform:matrix(1, 0, 0, -1, 0, 0)", "transform:scale(0.5)", "transform:translate(3px, 2px)",
			"transform:skewX(60deg) skewY(60deg)", "transform:rotate(180deg) scaleY(-2)", "opacity:0.5", "opacity:0.5;transform:scaleY(-1)"}).Draw(t, "effect"))
		g.feat["paint-effect"] = true
	}
	return strings.Join(d, ";")
}

func (g *c02Gen) para(f *C02Flow) string {
	t := g.t
	st := g.boxStyle()
	if ws := rapid.SampledFrom([]string{"", "", "", "", "nowrap", "pre-wrap", "pre-line"}).Draw(t, "ws"); ws != "" {
		st += ";white-space:" + ws
		g.feat["white-space:"+ws] = true
	}
	if ta := rapid.SampledFrom([]string{"", "", "", "right", "center", "justify"}).Draw(t, "ta"); ta != "" {
		st += ";text-align:" + ta
	}
	if rapid.IntRange(0, 9).Draw(t, "rel") == 0 {
		st += ";position:relative;top:3px;left:2px"
	}
	if rapid.IntRange(0, 9).Draw(t, "ti") == 0 {
		st += ";text-indent:15px"
	}
	class := ""
	if rapid.IntRange(0, 7).Draw(t, "pagecounter") == 0 {
		// generated content that depends on the number of pages: its page is laid out again once the count is
		// known, with a text of another width
		class = ` class="pc"`
		g.feat["page-counter-in-flow"] = true
	}
	return `<p` + class + ` style="` + st + `">` + g.inline(f, rapid.SampledFrom([]int{3, 8, 20, 40}).Draw(t, "plen")) + "</p>"
}

func (g *c02Gen) block(f *C02Flow, budget *int) string {
	t := g.t
	*budget--
	kind := rapid.IntRange(0, 19).Draw(t, "bkind")
	if g.depth >= 3 && kind >= 8 {
		kind = 0
	}
	switch {
	case kind < 8:
		return g.para(f)
	case kind < 11: // nested container
		g.depth++
		defer func() { g.depth-- }()
		var b strings.Builder
		st := g.boxStyle()
		if rapid.IntRange(0, 7).Draw(t, "cols") == 0 {
			st += ";columns:2;column-gap:4px"
			g.feat["columns"] = true
			defer g.push("multicol")()
		}
		b.WriteString(`<div style="` + st + `">`)
		for i, n := 0, rapid.IntRange(1, 4).Draw(t, "nkids"); i < n && *budget > 0; i++ {
			b.WriteString(g.block(f, budget))
		}
		b.WriteString("</div>")
		return b.String()
	case kind < 13: // list
		var b strings.Builder
		tag := rapid.SampledFrom([]string{"ul", "ol"}).Draw(t, "ltag")
		b.WriteString("<" + tag + ` style="` + g.boxStyle() + `;padding-left:12px;list-style-position:` + rapid.SampledFrom([]string{"outside", "inside"}).Draw(t, "lsp") + `">`)
		for i, n := 0, rapid.IntRange(1, 4).Draw(t, "nitems"); i < n; i++ {
			b.WriteString("<li>" + g.inline(f, 8) + "</li>")
		}
		b.WriteString("</" + tag + ">")
		g.feat["list"] = true
		return b.String()
	case kind < 15: // table
		g.depth++
		defer func() { g.depth-- }()
		g.feat["table"] = true
		defer g.push("table")()
		var b strings.Builder
		b.WriteString(`<table style="` + g.boxStyle() + `;border-spacing:` + rapid.SampledFrom([]string{"0", "2px"}).Draw(t, "bsp") + `">`)
		hasHead := false
		if rapid.IntRange(0, 2).Draw(t, "thead") == 0 {
			hasHead = true
			h := g.newFlow(true)
			g.inRepeat = true
			b.WriteString("<thead><tr><th>" + g.inline(h, 2) + "</th></tr></thead>")
			g.inRepeat = false
			g.feat["table-header"] = true
		}
		foot := ""
		if rapid.IntRange(0, 3).Draw(t, "tfoot") == 0 {
			h := g.newFlow(true)
			g.inRepeat = true
			foot = "<tfoot><tr><td>" + g.inline(h, 2) + "</td></tr></tfoot>"
			g.inRepeat = false
			g.feat["table-footer"] = true
		}
		// a second header or footer group is an ordinary row group (CSS 2.1 17.2): laid out once, where it stands
		extraGroup := ""
		if rapid.IntRange(0, 5).Draw(t, "extragroup") == 0 {
			tag := rapid.SampledFrom([]string{"thead", "tfoot"}).Draw(t, "extratag")
			if (tag == "thead" && hasHead) || (tag == "tfoot" && foot != "") { // (of this table)
				ef := g.newFlow(false)
				pop := g.push("table")
				extraGroup = "<" + tag + "><tr><td>" + g.inline(ef, 2) + "</td></tr></" + tag + ">"
				pop()
				g.feat["extra-row-group"] = true
			}
		}
		b.WriteString("<tbody>")
		nc := rapid.IntRange(1, 3).Draw(t, "ncols")
		for r, nr := 0, rapid.IntRange(1, 5).Draw(t, "nrows"); r < nr; r++ {
			b.WriteString("<tr>")
			for c := 0; c < nc; c++ {
				cf := g.newFlow(false)
				span := ""
				if c+1 < nc && rapid.IntRange(0, 4).Draw(t, "colspan") == 0 {
					span += ` colspan="2"`
					c++
					g.feat["table-span"] = true
				}
				if r+1 < nr && rapid.IntRange(0, 7).Draw(t, "rowspan") == 0 {
					span += ` rowspan="2"`
					g.feat["table-span"] = true
				}
				b.WriteString(`<td` + span + ` style="` + rapid.SampledFrom([]string{"", "", "padding:2px", "border:1px solid", "vertical-align:middle"}).Draw(t, "tdst") + `">` + g.inline(cf, rapid.SampledFrom([]int{1, 3, 10, 25}).Draw(t, "celllen")) + "</td>")
			}
			b.WriteString("</tr>")
		}
		b.WriteString("</tbody>" + foot + extraGroup + "</table>") // (after the first footer group, which is the footer)
		return b.String()
	case kind < 17: // float
		g.depth++
		defer func() { g.depth-- }()
		g.feat["float"] = true
		defer g.push("float")()
		ff := g.newFlow(false)
		return fmt.Sprintf(`<div style="float:%s;width:%dpx;%s">%s</div>`, rapid.SampledFrom([]string{"left", "right"}).Draw(t, "fl"), rapid.SampledFrom([]int{20, 30, 50, 80}).Draw(t, "flw"), g.boxStyle(), g.inline(ff, rapid.SampledFrom([]int{2, 6, 20}).Draw(t, "fllen")))
	case kind < 18 && len(g.ctx) == 0 && !g.inRepeat && g.nFixed < 2 && rapid.IntRange(0, 2).Draw(t, "fixed") == 0:
		// a fixed-position box, sometimes holding another one: each is drawn once on every page
		g.nFixed++
		g.feat["fixed"] = true
		defer g.push("fixed")()
		ff := g.newFlow(false)
		ff.Fixed = true
		words := g.word(ff)
		if rapid.Bool().Draw(t, "fixed2") {
			words += " " + g.word(ff)
		}
		inner := ""
		if rapid.IntRange(0, 2).Draw(t, "nested-fixed") == 0 {
			nf := g.newFlow(false)
			nf.Fixed = true
			inner = fmt.Sprintf(`<div style="position:fixed;%s;width:30px">%s</div>`, rapid.SampledFrom([]string{"bottom:0;right:0", "top:0;right:0", "bottom:0;left:0"}).Draw(t, "fixedpos2"), g.word(nf))
			g.feat["nested-fixed"] = true
		}
		return fmt.Sprintf(`<div style="position:fixed;%s;width:40px">%s%s</div>`, rapid.SampledFrom([]string{"top:0;left:0", "bottom:0;left:0", "top:10px;right:0"}).Draw(t, "fixedpos"), words, inner)
	case kind < 18: // absolutely positioned
		g.depth++
		defer func() { g.depth-- }()
		g.feat["abspos"] = true
		defer g.push("abspos")()
		af := g.newFlow(false)
		return fmt.Sprintf(`<div style="position:absolute;%s;width:%dpx">%s</div>`, rapid.SampledFrom([]string{"top:5px;left:5px", "bottom:0;right:0", "left:10px", ""}).Draw(t, "abspos"), rapid.SampledFrom([]int{30, 60}).Draw(t, "absw"), g.inline(af, 6))
	case kind < 19: // footnote
		g.feat["footnote"] = true
		ff := g.newFlow(false)
		w1 := g.word(f)
		pop := g.push("footnote")
		note := g.inline(ff, 3)
		pop()
		return `<p>` + w1 + ` <span style="float:footnote">` + note + `</span> ` + g.word(f) + `</p>`
	default: // flex / grid container holding blocks of the flow
		g.depth++
		defer func() { g.depth-- }()
		disp := rapid.SampledFrom([]string{"flex;flex-direction:column", "grid"}).Draw(t, "fg")
		g.feat[strings.Split(disp, ";")[0]] = true
		defer g.push(strings.Split(disp, ";")[0])()
		var b strings.Builder
		b.WriteString(`<div style="display:` + disp + `">`)
		for i, n := 0, rapid.IntRange(1, 3).Draw(t, "nfg"); i < n; i++ {
			b.WriteString(g.para(f))
		}
		b.WriteString("</div>")
		return b.String()
	}
}

func c02Gen_(t *rapid.T, tier Tier) interface{} {
	g := &c02Gen{t: t, feat: map[string]bool{}}
	main := g.newFlow(false)
	pw := rapid.SampledFrom([]int{40, 60, 80, 100, 150, 200}).Draw(t, "pw")
	ph := rapid.SampledFrom([]int{50, 70, 100, 200}).Draw(t, "ph")
	mg := rapid.SampledFrom([]int{0, 0, 5}).Draw(t, "pm")
	budget := rapid.IntRange(1, 10).Draw(t, "budget")
	if tier == Thorough {
		budget = rapid.IntRange(1, 16).Draw(t, "budget2")
	}
	var body strings.Builder
	for budget > 0 {
		body.WriteString(g.block(main, &budget))
	}
	extra := ""
	if rapid.IntRange(0, 5).Draw(t, "pagerules") == 0 {
		extra = rapid.SampledFrom([]string{"@page:first{margin-top:15px}", "@page:left{margin-left:8px}", "@page{@bottom-center{content:counter(page)}}", "@page{@footnote{border-top:1px solid}}"}).Draw(t, "pr")
	}
	c := &C02Case{Engine: "pango"}
	if rapid.IntRange(0, 5).Draw(t, "engine") == 0 {
		c.Engine = "gotext"
	}
	if rapid.IntRange(0, 7).Draw(t, "firstletter") == 0 {
		// the first letter of every paragraph in a box of its own (the words are read again across that box;
		// floated first letters are not generated: they are moved behind the other boxes of their line)
		extra += " p::first-letter{" + rapid.SampledFrom([]string{"color:red", "font-size:14px", "font-weight:bold;margin-right:2px", "text-transform:uppercase", "vertical-align:super"}).Draw(t, "fl") + "}"
	}
	if g.feat["page-counter-in-flow"] {
		extra += ` .pc::after{content:" " counter(pages, lower-roman) "-" counter(page, lower-roman)}`
	}
	c.HTML = fmt.Sprintf(`<!DOCTYPE html><html><head><style>@page{size:%dpx %dpx;margin:%dpx}%s html,body{margin:0;padding:0} body{font:10px/1 Ahem} p{margin:0} td,th{padding:0;font-weight:normal} ul,ol{margin:0}</style></head><body>%s</body></html>`, pw, ph, mg, extra, body.String())
	for _, f := range g.flows {
		c.Flows = append(c.Flows, *f)
	}
	return c
}

// c02FixedInsideBlock: some outermost fixed-position box of the document is not a child of body
func c02FixedInsideBlock(html string) bool {
	body := html
	if i := strings.Index(html, "<body>"); i >= 0 {
		body = html[i:]
	}
	depth := 0 // open div / table / list elements around the current position
	for i := 0; i < len(body); i++ {
		switch {
		case strings.HasPrefix(body[i:], `<div style="position:fixed`):
			if depth > 0 {
				return true
			}
			// skip the fixed box itself (and what it holds)
			d := 0
			for ; i < len(body); i++ {
				if strings.HasPrefix(body[i:], "<div") {
					d++
				} else if strings.HasPrefix(body[i:], "</div>") {
					d--
					if d == 0 {
						break
					}
				}
			}
		case strings.HasPrefix(body[i:], "<div"), strings.HasPrefix(body[i:], "<table"), strings.HasPrefix(body[i:], "<ul"), strings.HasPrefix(body[i:], "<ol"):
			depth++
		case strings.HasPrefix(body[i:], "</div>"), strings.HasPrefix(body[i:], "</table>"), strings.HasPrefix(body[i:], "</ul>"), strings.HasPrefix(body[i:], "</ol>"):
			depth--
		}
	}
	return false
}

var c02Token = regexp.MustCompile(`([A-Z]{1,2})([0-9]+)`)

func c02Check(ci interface{}) Verdict {
	c := ci.(*C02Case)
	r, err := wr.Render(c.HTML, wr.Opts{Engine: c.Engine, Zoom: 1})
	if err != nil {
		return Verdict{Excluded: "rejected"}
	}
	labels := map[string]bool{"engine:" + c.Engine: true}
	if len(r.Pages) > 1 {
		labels["pages>1"] = true
	}
	seq := map[string][]int{}     // flow -> indices in traversal order
	firstPage := map[string]int{} // token -> first page seen
	pagesOf := map[string][]int{} // flow -> pages on which it appears
	var laid [][]string           // per page: texts of drawable text boxes
	splitPara := false
	firstLetter := ""
	for pi, p := range r.Pages {
		var texts []string
		wr.WalkBoxes(p, func(b bo.Box) bool {
			tb, ok := b.(*bo.TextBox)
			if !ok {
				return true
			}
			txt := tb.TextS()
			if strings.TrimSpace(txt) != "" && tb.Style.GetVisibility() == "visible" {
				texts = append(texts, txt)
			}
			if tb.PseudoType == "marker" {
				return true
			}
			if tb.PseudoType == "first-letter" {
				// the rest of the word is in the next text box
				firstLetter += txt
				return true
			}
			txt, firstLetter = firstLetter+txt, ""
			for _, m := range c02Token.FindAllStringSubmatch(txt, -1) {
				ix, _ := strconv.Atoi(m[2])
				seq[m[1]] = append(seq[m[1]], ix)
				if ps := pagesOf[m[1]]; len(ps) == 0 || ps[len(ps)-1] != pi {
					pagesOf[m[1]] = append(pagesOf[m[1]], pi)
				}
				if _, ok := firstPage[m[0]]; !ok {
					firstPage[m[0]] = pi
				}
			}
			return true
		})
		laid = append(laid, texts)
	}
	for _, f := range c.Flows {
		if len(pagesOf[f.ID]) > 1 && !f.Repeat && !f.Fixed {
			splitPara = true
		}
	}
	doc := func() string { return fmt.Sprintf("%s\n(%d pages)", c.HTML, len(r.Pages)) }
	// the signature of a violation names the fragmentation context it was met in
	maxRuns := len(r.Pages)
	if strings.Contains(c.HTML, "columns:2") {
		maxRuns *= 2 // a header is repeated in every column
	}
	ctxOf := func(f C02Flow, i int) string {
		if i >= 0 && i < len(f.Ctx) {
			return ":" + f.Ctx[i]
		}
		return ":plain"
	}
	for _, f := range c.Flows {
		got := seq[f.ID]
		kind := "flow"
		if f.ID != "A" {
			kind = "sub-flow"
		}
		if f.Fixed {
			// one complete run 0..n-1 on every page
			fx := ""
			if strings.Contains(c.HTML, "float:footnote") {
				fx = ":with-footnote"
			} else if strings.Contains(c.HTML, "break-before:avoid") || strings.Contains(c.HTML, "break-after:avoid") || c02FixedInsideBlock(c.HTML) {
				// the block holding the fixed box may be laid out, abandoned and laid out again
				fx = ":laid-out-again"
			}
			if len(got) != f.N*len(r.Pages) {
				return Viol("fixed:count"+fx, "the %d words of the fixed-position flow %s appear %d times in total over %d pages (once per page expected): %v\n%s", f.N, f.ID, len(got), len(r.Pages), got, doc())
			}
			for i, ix := range got {
				if ix != i%f.N {
					return Viol("fixed:order"+fx, "fixed-position flow %s is laid out as %v\n%s", f.ID, got, doc())
				}
			}
			if len(pagesOf[f.ID]) != len(r.Pages) {
				return Viol("fixed:pages"+fx, "fixed-position flow %s appears on pages %v of %d\n%s", f.ID, pagesOf[f.ID], len(r.Pages), doc())
			}
			if len(r.Pages) > 1 {
				labels["fixed-repeated"] = true
			}
			continue
		}
		if f.Repeat {
			// one or more complete runs 0..n-1, at most one per page
			if len(got) == 0 || len(got)%f.N != 0 || len(got)/f.N > maxRuns {
				return Viol("repeated-group:count"+ctxOf(f, 0), "the %d words of the table header/footer flow %s appear %d times in total over %d pages: %v\n%s", f.N, f.ID, len(got), len(r.Pages), got, doc())
			}
			for i, ix := range got {
				if ix != i%f.N {
					return Viol("repeated-group:order"+ctxOf(f, 0), "table header/footer flow %s is laid out as %v\n%s", f.ID, got, doc())
				}
			}
			if len(got)/f.N > 1 {
				labels["group-repeated"] = true
			}
			continue
		}
		seen := map[int]int{}
		for _, ix := range got {
			seen[ix]++
		}
		for i := 0; i < f.N; i++ {
			if seen[i] == 0 {
				return Viol("lost:"+kind+ctxOf(f, i), "word %s%d (of %d in its flow) is not in the laid-out text; laid-out indices of flow %s: %v\n%s", f.ID, i, f.N, f.ID, got, doc())
			}
		}
		for i := 0; i < f.N; i++ {
			if seen[i] > 1 {
				return Viol("duplicated:"+kind+ctxOf(f, i), "word %s%d is laid out %d times; laid-out indices of flow %s: %v\n%s", f.ID, i, seen[i], f.ID, got, doc())
			}
		}
		for i, ix := range got {
			if ix != i {
				return Viol("reordered:"+kind+ctxOf(f, ix), "flow %s is laid out in the order %v\n%s", f.ID, got, doc())
			}
		}
	}
	// draw level: each laid-out run reaches the backend exactly once, on its page
	drawn := r.Rec.TextsPerPage()
	if len(drawn) != len(laid) {
		return Viol("draw:pages", "%d pages laid out, %d pages drawn\n%s", len(laid), len(drawn), doc())
	}
	for pi := range laid {
		if c.Engine != "pango" {
			// text content of a drawing is only filled by the pango engine: compare counts
			if len(drawn[pi]) != len(laid[pi]) {
				return Viol("draw:count", "page %d: %d text runs laid out, %d DrawText calls\n%s", pi, len(laid[pi]), len(drawn[pi]), doc())
			}
			continue
		}
		a, b := append([]string(nil), laid[pi]...), append([]string(nil), drawn[pi]...)
		for i := range a {
			a[i] = strings.TrimSpace(strings.ReplaceAll(a[i], "­", ""))
		}
		for i := range b {
			b[i] = strings.TrimSpace(strings.ReplaceAll(b[i], "­", ""))
		}
		sort.Strings(a)
		sort.Strings(b)
		if strings.Join(a, "\x1f") != strings.Join(b, "\x1f") {
			return Viol("draw:texts", "page %d: laid-out text runs %q, drawn text runs %q\n%s", pi, a, b, doc())
		}
	}
	var ls []string
	for l := range labels {
		ls = append(ls, l)
	}
	if splitPara {
		ls = append(ls, "flow-over-pages")
	}
	if strings.Contains(c.HTML, "position:fixed") {
		ls = append(ls, "fixed")
	}
	if strings.Contains(c.HTML, "::first-letter") {
		ls = append(ls, "first-letter")
	}
	for _, k := range []string{"table", "float", "abspos", "inline-block", "footnote", "columns", "list", "flex", "grid"} {
		if strings.Contains(c.HTML, map[string]string{"table": "<table", "float": "float:left", "abspos": "position:absolute", "inline-block": "inline-block", "footnote": "float:footnote", "columns": "columns:2", "list": "<li>", "flex": "display:flex", "grid": "display:grid"}[k]) || (k == "float" && strings.Contains(c.HTML, "float:right")) {
			ls = append(ls, k)
		}
	}
	if strings.Contains(c.HTML, "orphans:") {
		ls = append(ls, "orphans-widows")
	}
	if strings.Contains(c.HTML, "break-before:") || strings.Contains(c.HTML, "break-after:") {
		ls = append(ls, "forced-or-avoided-break")
	}
	if strings.Contains(c.HTML, "break-inside:avoid") {
		ls = append(ls, "break-inside-avoid")
	}
	sort.Strings(ls)
	return Verdict{NonTrivial: len(r.Pages) >= 2 && splitPara, Labels: ls}
}

func init() {
	Register(&Prop{
		ID:               "C02",
		Gen:              c02Gen_,
		New:              func() interface{} { return &C02Case{} },
		Check:            c02Check,
		CrashIsViolation: false,
		CaseTimeout:      20 * time.Second,
		QuickN:           8000,
		ThoroughN:        250000,
		Rule: "Flow documents whose text is known by construction: every word is <flow><index>, numbered in document order inside its flow (main flow; own flows for table cells, table header/footer groups, floats, absolutely positioned boxes, inline-blocks, footnotes). Blocks (1-10, thorough 16; nesting <= 3): paragraphs of 1-40 words with inline boxes carrying margins/borders/padding, <br>, inline-blocks, white-space normal/nowrap/pre-wrap/pre-line, text-align, text-indent, relative positioning; nested containers (one in eight multi-column), ul/ol lists, tables (1-5 rows x 1-3 columns, optional thead/tfoot), left/right floats, absolutely positioned boxes, footnotes, column flex and grid containers; " +
			"every box with drawn margin/padding/border, break-before/after/inside values (page, left, right, always, avoid), orphans/widows 1-4, box-decoration-break; no explicit heights. Page 40-200 x 20-200 px, margin 0-10, Ahem 10px/1 (a line is 10 px), optional :first/:left/margin-box/@footnote page rules; pango engine, go-text one case in six. " +
			"Oracle (layout level): walking the pages in order and each page's box tree in document order, the indices met for each flow must be exactly 0..n-1 (nothing lost, duplicated or reordered); header/footer flows must be 1..#pages complete runs. Oracle (draw level): per page, the multiset of DrawText texts equals the multiset of the texts of the page's visible, non-blank text boxes (go-text: equal counts, as that engine leaves the text of a drawing empty). " +
			"Fixed-position flows (1-2 words, explicitly positioned, one in three holding another fixed box): every word exactly once on every page. " +
			"Tables may hold a second thead / tfoot (an ordinary row group, once); one document in eight gives paragraphs an inline ::first-letter box. " +
			"Non-trivial: >= 2 pages and at least one flow laid out over more than one page.",
		ImportantLabels: []string{"fixed", "pages>1", "flow-over-pages", "table", "float", "abspos", "inline-block", "footnote", "columns", "list", "orphans-widows", "forced-or-avoided-break", "break-inside-avoid", "group-repeated", "engine:gotext", "flex", "grid"},
		Assumptions:     []string{"crashes and hangs belong to C01 and are excluded", "running elements (another CSS-defined repetition) are not generated"},
	})
}
