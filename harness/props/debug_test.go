package props

import (
	"fmt"
	bo "github.com/benoitkugler/webrender/html/boxes"
	"os"
	"strings"
	"testing"

	"verif/harness/internal/wr"
)

// TestDebugDoc renders the document in $VERIF_DOC and prints the warnings and the backend trace
// (development aid, skipped otherwise).
func TestDebugDoc(t *testing.T) {
	doc := os.Getenv("VERIF_DOC")
	if doc == "" {
		t.Skip("no VERIF_DOC")
	}
	var r *wr.Rendered
	var err error
	log := wr.CaptureLog(func() {
		r, err = wr.Render(doc, wr.Opts{Engine: os.Getenv("VERIF_ENGINE"), Hints: os.Getenv("VERIF_HINTS") != ""})
	})
	fmt.Println("LOG:", log)
	if err != nil {
		fmt.Println("ERR:", err)
		return
	}
	fmt.Println("pages:", len(r.Pages), "problems:", r.Rec.Problems)
	if os.Getenv("VERIF_TRACE") != "" {
		fmt.Println(r.Rec.Trace())
	}
	for _, e := range r.Rec.Events {
		if e.Op == "Transform" || e.Op == "DrawText" {
			fmt.Println(e.Op, e.F, e.S)
		}
	}
}

// TestDebugRepeat renders $VERIF_DOC several times (fresh font configuration each) and reports trace differences.
func TestDebugRepeat(t *testing.T) {
	doc := os.Getenv("VERIF_DOC")
	if doc == "" {
		t.Skip("no VERIF_DOC")
	}
	var first string
	for i := 0; i < 8; i++ {
		r, err := wr.RenderWith(doc, wr.Opts{}, wr.FreshFC("pango"))
		if err != nil {
			t.Fatal(err)
		}
		tr := r.Rec.Trace()
		if i == 0 {
			first = tr
			fmt.Println("calls:", len(r.Rec.Events), "pages:", len(r.Pages))
		} else if tr != first {
			fmt.Println("DIFF at render", i, firstDiff(first, tr))
		}
	}
}

// TestDebugBoxes prints the box tree built for $VERIF_DOC and the C09 verdict.
func TestDebugBoxes(t *testing.T) {
	doc := os.Getenv("VERIF_DOC")
	if doc == "" {
		t.Skip("no VERIF_DOC")
	}
	h, err := wr.ParseHTML(doc, wr.Opts{})
	if err != nil {
		t.Fatal(err)
	}
	root := wr.BuildBoxes(h, nil, false, wr.SharedFC("pango"))
	var sb strings.Builder
	c09Dump(root, 0, &sb)
	fmt.Println(sb.String())
	v := c09Check(&C09Case{HTML: doc})
	fmt.Println(v.Sig, firstLines(v.Msg, 1))
}

// TestDebugLayout prints position and size of every element box of $VERIF_DOC having an id.
func TestDebugLayout(t *testing.T) {
	doc := os.Getenv("VERIF_DOC")
	if doc == "" {
		t.Skip("no VERIF_DOC")
	}
	r, err := wr.Render(doc, wr.Opts{Engine: "pango", Zoom: 1, TestUA: true})
	if err != nil {
		t.Fatal(err)
	}
	for pi, p := range r.Pages {
		wr.WalkBoxes(p, func(b bo.Box) bool {
			bf := b.Box()
			if bo.TableRowT.IsInstance(b) || bo.TableCellT.IsInstance(b) || bo.TableT.IsInstance(b) {
				fmt.Printf("page %d %s: pos (%v,%v) width %v height %v grid x=%d cs=%d rs=%d\n", pi, b.Type(), bf.PositionX, bf.PositionY, bf.Width, bf.Height, bf.GridX, bf.Colspan, bf.Rowspan)
				if tb, ok := b.(*bo.TableBox); ok {
					fmt.Println("  columns", tb.ColumnWidths, tb.ColumnPositions)
				}
			}
			if bf.Element != nil {
				for _, a := range bf.Element.Attr {
					if a.Key == "id" {
						fmt.Printf("page %d #%s %s: pos (%v,%v) margins t%v r%v b%v l%v width %v height %v\n", pi, a.Val, b.Type(), bf.PositionX, bf.PositionY, bf.MarginTop, bf.MarginRight, bf.MarginBottom, bf.MarginLeft, bf.Width, bf.Height)
					}
				}
			}
			return true
		})
	}
}

// TestDebugTexts prints the text boxes of every page of $VERIF_DOC.
func TestDebugTexts(t *testing.T) {
	doc := os.Getenv("VERIF_DOC")
	if doc == "" {
		t.Skip("no VERIF_DOC")
	}
	eng := os.Getenv("VERIF_ENGINE")
	if eng == "" {
		eng = "pango"
	}
	r, err := wr.Render(doc, wr.Opts{Engine: eng, Zoom: 1})
	if err != nil {
		t.Fatal(err)
	}
	for pi, p := range r.Pages {
		wr.WalkBoxes(p, func(b bo.Box) bool {
			if tb, ok := b.(*bo.TextBox); ok {
				fmt.Printf("page %d text %q at (%v,%v) w %v\n", pi, tb.TextS(), tb.PositionX, tb.PositionY, tb.Width)
			}
			return true
		})
	}
}

func TestDebugC13(t *testing.T) {
	doc := os.Getenv("VERIF_DOC")
	if doc == "" {
		t.Skip("no VERIF_DOC")
	}
	v := c13Check(&C13Case{HTML: doc})
	fmt.Println("sig:", v.Sig, "labels:", v.Labels, "excluded:", v.Excluded)
	fmt.Println(firstLines(v.Msg, 1))
}

// TestDebugSVG draws $VERIF_DOC (an SVG document) on a recording canvas and prints the events.
func TestDebugSVG(t *testing.T) {
	doc := os.Getenv("VERIF_DOC")
	if doc == "" {
		t.Skip("no VERIF_DOC")
	}
	img, err := wr.ParseSVG(doc, "")
	if err != nil {
		fmt.Println("ERR", err)
		return
	}
	rec := wr.NewRecorder()
	page := rec.AddPage(0, 0, 200, 200)
	img.Draw(page, 200, 200, wr.NewTextCtx("pango"))
	for _, e := range rec.Events {
		fmt.Println(e.String(), e.F, e.CTM)
	}
}

// TestDebugRedraw writes the rendered $VERIF_DOC twice and prints the first difference of the traces.
func TestDebugRedraw(t *testing.T) {
	doc := os.Getenv("VERIF_DOC")
	if doc == "" {
		t.Skip("no VERIF_DOC")
	}
	r, err := wr.RenderWith(doc, wr.Opts{Engine: "pango", Zoom: 1}, wr.FreshFC("pango"))
	if err != nil {
		t.Fatal(err)
	}
	first := r.Rec.Trace()
	rec := wr.NewRecorder()
	r.Doc.Write(rec, 1, nil)
	if tr := rec.Trace(); tr != first {
		fmt.Println("REDRAW DIFFERS:", firstDiff(first, tr))
	} else {
		fmt.Println("REDRAW SAME", strings.Count(first, "\n"))
	}
}
