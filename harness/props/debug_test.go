package props

import (
	"fmt"
	"os"
	"testing"

	"verif/harness/internal/wr"
)

// TestDebugDoc renders the document in $VERIF_DOC and prints the warnings and the backend trace
// (development aid, skipped otherwise).
func TestDebugDoc(t *testing.T) {
	doc := os.Getenv("VERIF_DOC")
	if doc == "" {
		t.Skip("no VERIF_DOC")
	}
	var r *wr.Rendered
	var err error
	log := wr.CaptureLog(func() {
		r, err = wr.Render(doc, wr.Opts{Engine: os.Getenv("VERIF_ENGINE"), Hints: os.Getenv("VERIF_HINTS") != ""})
	})
	fmt.Println("LOG:", log)
	if err != nil {
		fmt.Println("ERR:", err)
		return
	}
	fmt.Println("pages:", len(r.Pages), "problems:", r.Rec.Problems)
	if os.Getenv("VERIF_TRACE") != "" {
		fmt.Println(r.Rec.Trace())
	}
	for _, e := range r.Rec.Events {
		if e.Op == "Transform" || e.Op == "DrawText" {
			fmt.Println(e.Op, e.F, e.S)
		}
	}
}
