package props

import (
	"fmt"
	"math"
	"reflect"
	"regexp"
	"sort"
	"strconv"
	"strings"

	pr "github.com/benoitkugler/webrender/css/properties"
	"github.com/benoitkugler/webrender/html/tree"
	"github.com/benoitkugler/webrender/utils"
	"pgregory.net/rapid"

	"verif/harness/internal/wr"
)

// C04 — Every property has a computed value obtained by CSS defaulting.

// c04Spec: for each property of the table, whether CSS defines it as inherited, the text of its
// initial value and a few context-free explicit values. Transcribed from CSS 2.1 (propidx),
// CSS Text 3, CSS Fonts 3, Flexbox 1, Multi-column 1, Fragmentation 3, Backgrounds 3, Transforms 1.
type c04Spec struct {
	Inherited bool
	Initial   string
	Values    []string
}

var c04Table = map[string]c04Spec{
	"color":               {true, "black", []string{"rgb(1, 2, 3)", "red", "transparent"}},
	"direction":           {true, "ltr", []string{"rtl", "ltr"}},
	"font-style":          {true, "normal", []string{"italic", "oblique"}},
	"font-weight":         {true, "400", []string{"700", "100", "bold"}},
	"font-size":           {true, "16px", []string{"10px", "24px", "7px"}},
	"letter-spacing":      {true, "normal", []string{"3px", "-1px"}},
	"word-spacing":        {true, "0", []string{"3px", "-1px"}},
	"line-height":         {true, "normal", []string{"2", "30px"}},
	"text-indent":         {true, "0", []string{"12px", "-5px"}},
	"text-transform":      {true, "none", []string{"uppercase", "capitalize"}},
	"visibility":          {true, "visible", []string{"hidden", "collapse"}},
	"white-space":         {true, "normal", []string{"pre", "nowrap", "pre-line"}},
	"orphans":             {true, "2", []string{"1", "4"}},
	"widows":              {true, "2", []string{"1", "5"}},
	"border-collapse":     {true, "separate", []string{"collapse"}},
	"border-spacing":      {true, "0", []string{"3px", "2px 5px"}},
	"caption-side":        {true, "top", []string{"bottom"}},
	"empty-cells":         {true, "show", []string{"hide"}},
	"list-style-position": {true, "outside", []string{"inside"}},
	"hyphens":             {true, "manual", []string{"auto", "none"}},
	"overflow-wrap":       {true, "normal", []string{"break-word", "anywhere"}},
	"word-break":          {true, "normal", []string{"break-all"}},
	"tab-size":            {true, "8", []string{"4", "20px"}},
	"font-stretch":        {true, "normal", []string{"condensed", "expanded"}},
	"font-kerning":        {true, "auto", []string{"none", "normal"}},
	"image-rendering":     {true, "auto", []string{"pixelated", "crisp-edges"}},
	// values that neither blockify their children nor are changed by the root / flex adjustments
	"display":               {false, "inline", []string{"block", "list-item", "flow-root"}},
	"position":              {false, "static", []string{"relative", "absolute"}},
	"float":                 {false, "none", []string{"left", "right"}},
	"clear":                 {false, "none", []string{"left", "both"}},
	"margin-top":            {false, "0", []string{"5px", "-3px", "auto"}},
	"margin-left":           {false, "0", []string{"5px", "auto", "10%"}},
	"padding-top":           {false, "0", []string{"5px", "10%"}},
	"padding-right":         {false, "0", []string{"7px"}},
	"width":                 {false, "auto", []string{"100px", "50%"}},
	"height":                {false, "auto", []string{"40px", "50%"}},
	"min-width":             {false, "auto", []string{"10px", "5%"}},
	"max-width":             {false, "none", []string{"10px", "5%"}},
	"min-height":            {false, "auto", []string{"10px"}},
	"max-height":            {false, "none", []string{"10px"}},
	"top":                   {false, "auto", []string{"3px", "-2px", "5%"}},
	"left":                  {false, "auto", []string{"3px"}},
	"z-index":               {false, "auto", []string{"3", "-1", "0"}},
	"overflow":              {false, "visible", []string{"hidden", "auto"}},
	"opacity":               {false, "1", []string{"0.5", "0"}},
	"background-color":      {false, "transparent", []string{"rgb(4, 5, 6)", "red"}},
	"border-top-style":      {false, "none", []string{"solid", "dotted"}},
	"border-left-style":     {false, "none", []string{"dashed"}},
	"vertical-align":        {false, "baseline", []string{"top", "middle", "4px"}},
	"box-sizing":            {false, "content-box", []string{"border-box"}},
	"table-layout":          {false, "auto", []string{"fixed"}},
	"unicode-bidi":          {false, "normal", []string{"embed", "bidi-override"}},
	"text-decoration-style": {false, "solid", []string{"dashed", "wavy"}},
	"break-before":          {false, "auto", []string{"page", "avoid"}},
	"break-after":           {false, "auto", []string{"page", "avoid"}},
	"break-inside":          {false, "auto", []string{"avoid"}},
	"column-count":          {false, "auto", []string{"2", "3"}},
	"column-width":          {false, "auto", []string{"50px"}},
	"column-gap":            {false, "normal", []string{"5px"}},
	"flex-direction":        {false, "row", []string{"column", "row-reverse"}},
	"flex-wrap":             {false, "nowrap", []string{"wrap"}},
	"flex-grow":             {false, "0", []string{"1", "2.5"}},
	"flex-shrink":           {false, "1", []string{"0", "3"}},
	"flex-basis":            {false, "auto", []string{"10px", "content"}},
	"order":                 {false, "0", []string{"2", "-1"}},
	"justify-content":       {false, "normal", []string{"center", "flex-end"}},
	"align-items":           {false, "normal", []string{"center", "stretch"}},
	"object-fit":            {false, "fill", []string{"contain", "cover"}},
	"transform":             {false, "none", []string{"rotate(10deg)", "translate(2px, 3px)"}},
	"outline-style":         {false, "none", []string{"solid"}},
	"text-overflow":         {false, "clip", []string{"ellipsis"}},
}

var c04Names = func() []string {
	var out []string
	for k := range c04Table {
		out = append(out, k)
	}
	sort.Strings(out)
	return out
}()

type C04Node struct {
	Mode     string    `json:"mode"` // none inherit initial explicit
	Value    string    `json:"value,omitempty"`
	Children []C04Node `json:"ch,omitempty"`
}

type C04Case struct {
	Kind string  `json:"kind"` // defaulting units allprops
	Prop string  `json:"prop,omitempty"`
	Tree C04Node `json:"tree,omitempty"` // the root element (html)
	// units
	RootFS   string  `json:"root_fs,omitempty"`
	ParentFS string  `json:"parent_fs,omitempty"`
	OwnFS    string  `json:"own_fs,omitempty"`
	Num      float64 `json:"num,omitempty"`
	Unit     string  `json:"unit,omitempty"`
	Target   string  `json:"target,omitempty"` // property carrying the probe length
	OnRoot   bool    `json:"on_root,omitempty"`
	Seed     int     `json:"order_seed,omitempty"`
	Doc      string  `json:"doc,omitempty"`
	// shared: Doc holds one declaration applied by a single rule to elements of font sizes Sizes
	Sizes []string `json:"sizes,omitempty"`
	// page: declarations of one @page rule
	Marks    string `json:"marks,omitempty"`     // "" = not declared
	Bleed    string `json:"bleed,omitempty"`     // "" = not declared, "auto", or a length
	BleedVia string `json:"bleed_via,omitempty"` // bleed (all sides) or bleed-left
	PageFS   string `json:"page_fs,omitempty"`   // font-size of the page context ("" = not declared)
}

// c04SharedDecls: declarations whose value is a composite holding a font-relative length (U is the unit)
var c04SharedDecls = []string{
	"background-image:linear-gradient(red 1U, blue 3U)", "background-image:radial-gradient(circle 2U at 1U 2U, red 1U, blue 3U)", "background-image:radial-gradient(2U 3U, red, blue 2U)",
	"background-image:none, repeating-linear-gradient(to right, red, blue 2U)", "background-position:1U 2U", "background-position:right 1U bottom 2U, 3U 0", "background-size:1U 2U", "background-size:auto, 2U",
	"border-spacing:1U 2U", "border-top-left-radius:1U 2U", "clip:rect(1U, 2U, 3U, 4U)", "transform:translate(1U, 2U)", "transform:rotate(10deg) translateX(2U)", "transform-origin:1U 2U", "object-position:1U 2U",
	"margin-left:2U", "width:3U", "text-indent:2U", "letter-spacing:1U", "word-spacing:1U", "line-height:2U", "vertical-align:1U", "column-gap:2U", "row-gap:1U", "column-width:5U", "flex-basis:3U", "min-height:2U", "max-width:9U",
	"outline-width:1U", "outline-offset:1U", "border-left-width:1U;border-left-style:solid", "top:1U", "grid-template-columns:1U 2U", "grid-auto-rows:2U", "border-image-outset:1U 2U", "grid-auto-columns:minmax(1U, 2U)", "grid-template-rows:minmax(1U, 3U) 2U", "tab-size:2U", "hyphenate-limit-zone:2U",
	"bleed-left:1U", "marks:none;margin-top:1U", "padding-bottom:calc(1U)", "text-decoration-thickness:1U", "text-underline-offset:1U", "image-resolution:1dppx;height:2U",
}

func c04GenNode(t *rapid.T, spec c04Spec, depth int, budget *int) C04Node {
	*budget--
	n := C04Node{Mode: rapid.SampledFrom([]string{"none", "none", "inherit", "initial", "explicit"}).Draw(t, "mode")}
	if n.Mode == "explicit" {
		n.Value = rapid.SampledFrom(spec.Values).Draw(t, "val")
	}
	if depth > 0 {
		k := rapid.IntRange(0, 2).Draw(t, "nkids")
		for i := 0; i < k && *budget > 0; i++ {
			n.Children = append(n.Children, c04GenNode(t, spec, depth-1, budget))
		}
	}
	return n
}

func c04Gen(t *rapid.T, tier Tier) interface{} {
	c := &C04Case{}
	switch rapid.IntRange(0, 13).Draw(t, "kind") {
	case 13:
		// a page context: initial values that still need computing (bleed: auto depends on marks), lengths
		// relative to the font size of the page
		c.Kind = "page"
		c.Marks = rapid.SampledFrom([]string{"", "none", "crop", "cross", "crop cross", "cross crop"}).Draw(t, "marks")
		c.Bleed = rapid.SampledFrom([]string{"", "", "auto", "auto", "5px", "6pt", "0", "1em", "0.5in"}).Draw(t, "bleed")
		c.BleedVia = rapid.SampledFrom([]string{"bleed", "bleed-left"}).Draw(t, "bleedvia")
		c.PageFS = rapid.SampledFrom([]string{"", "10px", "20px", "15pt"}).Draw(t, "pagefs")
		c.Num = rapid.SampledFrom([]float64{1, 2, 0.5, 3}).Draw(t, "num")
		c.Unit = rapid.SampledFrom([]string{"px", "pt", "em", "rem", "mm"}).Draw(t, "unit")
	case 11, 12:
		c.Kind = "shared"
		d := rapid.SampledFrom(c04SharedDecls).Draw(t, "shared")
		u := rapid.SampledFrom([]string{"em", "ex", "ch", "rem", "em"}).Draw(t, "unit")
		c.Doc = strings.ReplaceAll(d, "U", u)
		c.Unit = u
		n := rapid.IntRange(2, 4).Draw(t, "nshare")
		for i := 0; i < n; i++ {
			c.Sizes = append(c.Sizes, rapid.SampledFrom([]string{"10px", "20px", "40px", "2em", "50%", "7pt", "1rem"}).Draw(t, "size"))
		}
		c.Seed = rapid.IntRange(0, 23).Draw(t, "order")
	case 0, 1, 2, 3:
		c.Kind = "defaulting"
		c.Prop = rapid.SampledFrom(c04Names).Draw(t, "prop")
		budget := 8
		c.Tree = c04GenNode(t, c04Table[c.Prop], 3, &budget)
		if len(c.Tree.Children) == 0 {
			c.Tree.Children = []C04Node{c04GenNode(t, c04Table[c.Prop], 1, &budget)}
		}
	case 4, 5, 6, 7, 8, 9:
		c.Kind = "units"
		fs := func(label string) string {
			return rapid.SampledFrom([]string{"", "10px", "20px", "12pt", "1.5em", "150%", "2rem", "0.5in", "80%", "3ex", "2ch"}).Draw(t, label)
		}
		c.RootFS, c.ParentFS, c.OwnFS = fs("rootfs"), fs("parentfs"), fs("ownfs")
		c.Num = rapid.SampledFrom([]float64{1, 2, 0.5, 3, 10, 1.25, -2}).Draw(t, "num")
		c.Unit = rapid.SampledFrom([]string{"px", "pt", "pc", "in", "cm", "mm", "q", "em", "rem", "ex", "ch"}).Draw(t, "unit")
		c.Target = rapid.SampledFrom([]string{"margin-left", "text-indent", "top", "letter-spacing", "word-spacing", "border-spacing", "padding-left", "width", "vertical-align", "line-height"}).Draw(t, "target")
		c.OnRoot = rapid.IntRange(0, 5).Draw(t, "onroot") == 0
		if c.Num < 0 && (c.Target == "padding-left" || c.Target == "width" || c.Target == "border-spacing" || c.Target == "line-height") {
			c.Num = -c.Num
		}
		if c.Target == "line-height" && rapid.IntRange(0, 2).Draw(t, "lhpercent") == 0 {
			c.Unit = "%" // a percentage of the element's own font size: computes to a length, inherited as such
		}
	default:
		c.Kind = "allprops"
		c.Seed = rapid.IntRange(1, 1<<20).Draw(t, "orderseed")
		c.Doc = rapid.SampledFrom([]string{
			`<html><body><p>a<span>b</span></p><ul><li>x</li></ul><table><tr><td>c</td></tr></table></body></html>`,
			`<html style="font-weight:bolder"><body style="font-size:larger"><div style="display:flex"><i>a</i>b</div></body></html>`,
			`<html><head><style>p::before{content:"x"} li::marker{color:red} @page{margin:1cm;@top-left{content:"h"}} p::first-line{color:blue}</style></head><body><p>a</p><ol><li>1</li></ol></body></html>`,
			`<html style="font-weight:lighter;font-size:smaller"><body><div style="display:table-cell">a</div><div style="columns:2">b<p>c</p></div></body></html>`,
			`<html><body style="display:grid"><div>a</div>text<img src="x.png" alt="i"><input value="v"></body></html>`,
		}).Draw(t, "doc")
	}
	return c
}

const c04UA = "@page{@footnote{margin:0}}\n"

type c04Elem struct {
	node   *C04Node
	parent *c04Elem
	id     string
}

func c04Doc(c *C04Case) (string, []*c04Elem) {
	var b strings.Builder
	var elems []*c04Elem
	var walk func(n *C04Node, parent *c04Elem, tag string)
	walk = func(n *C04Node, parent *c04Elem, tag string) {
		e := &c04Elem{node: n, parent: parent, id: fmt.Sprintf("e%d", len(elems))}
		elems = append(elems, e)
		st := ""
		switch n.Mode {
		case "inherit":
			st = c.Prop + ":inherit"
		case "initial":
			st = c.Prop + ":initial"
		case "explicit":
			st = c.Prop + ":" + n.Value
		}
		fmt.Fprintf(&b, `<%s id="%s" style="%s">`, tag, e.id, st)
		for i := range n.Children {
			walk(&n.Children[i], e, "x-el")
		}
		fmt.Fprintf(&b, `</%s>`, tag)
	}
	// html.Parse always builds html > head + body: the generated root is <html>, its children live in <body>,
	// which is given no declaration (so it passes inherited values through and takes the initial value otherwise)
	b.WriteString("<!DOCTYPE html>")
	root := &c04Elem{node: &c.Tree, id: "e0"}
	elems = append(elems, root)
	st := ""
	switch c.Tree.Mode {
	case "inherit":
		st = c.Prop + ":inherit"
	case "initial":
		st = c.Prop + ":initial"
	case "explicit":
		st = c.Prop + ":" + c.Tree.Value
	}
	fmt.Fprintf(&b, `<html id="e0" style="%s"><body id="body">`, st)
	body := &c04Elem{node: &C04Node{Mode: "none"}, parent: root, id: "body"}
	for i := range c.Tree.Children {
		walk(&c.Tree.Children[i], body, "x-el")
	}
	b.WriteString("</body></html>")
	return b.String(), elems
}

func c04Styles(doc string) (*tree.HTML, *tree.StyleFor, map[string]*utils.HTMLNode, error) {
	h, err := wr.ParseHTML(doc, wr.Opts{UACSS: c04UA})
	if err != nil {
		return nil, nil, nil, err
	}
	sf := wr.Styles(h, nil, false, wr.SharedFC("pango"), nil, nil, nil, true)
	byID := map[string]*utils.HTMLNode{}
	it := h.Root.Iter()
	for it.HasNext() {
		e := it.Next()
		if id := e.Get("id"); id != "" {
			byID[id] = e
		}
	}
	return h, sf, byID, nil
}

func c04Value(sf *tree.StyleFor, el *utils.HTMLNode, prop string) pr.CssProperty {
	if _, ok := pr.PropsFromNames[prop]; !ok {
		panic("verif infra: property " + prop + " is not a longhand of the library")
	}
	return sf.Get(el, "").Get(pr.PropKey{KnownProp: pr.PropsFromNames[prop]})
}

// c04Standalone computes the value of "prop: text" on an element in a neutral context.
func c04Standalone(prop, text string) (pr.CssProperty, error) {
	doc := `<!DOCTYPE html><html><body><x-el id="s" style="` + prop + `:` + text + `"></x-el></body></html>`
	_, sf, byID, err := c04Styles(doc)
	if err != nil {
		return nil, err
	}
	return c04Value(sf, byID["s"], prop), nil
}

// c04Norm removes representation differences that carry no meaning: a zero length is the same
// whatever unit field it carries.
func c04Norm(v pr.CssProperty) pr.CssProperty {
	switch x := v.(type) {
	case pr.DimOrS:
		if x.S == "" && x.Value == 0 {
			return pr.DimOrS{Dimension: pr.Dimension{Value: 0, Unit: pr.Px}}
		}
	case pr.Point:
		for i := range x {
			if x[i].Value == 0 {
				x[i].Unit = pr.Px
			}
		}
		return x
	}
	return v
}

func c04Defaulting(c *C04Case) Verdict {
	spec := c04Table[c.Prop]
	labels := []string{"kind:defaulting", "prop:" + c.Prop}
	doc, elems := c04Doc(c)
	_, sf, byID, err := c04Styles(doc)
	if err != nil {
		return Verdict{Excluded: "html-rejected", Labels: labels}
	}
	initial, err := c04Standalone(c.Prop, spec.Initial)
	if err != nil {
		return Verdict{Excluded: "infra", Labels: labels}
	}
	expected := map[*c04Elem]pr.CssProperty{}
	chain := false
	// body sits between the root and the generated children
	var body *c04Elem
	for _, e := range elems {
		if e.parent != nil && e.parent.id == "body" {
			body = e.parent
		}
	}
	order := append([]*c04Elem{}, elems...)
	if body != nil {
		// compute the root first, then body, then the rest in document order
		order = append([]*c04Elem{elems[0], body}, elems[1:]...)
	}
	for _, e := range order {
		var want pr.CssProperty
		switch e.node.Mode {
		case "explicit":
			v, err := c04Standalone(c.Prop, e.node.Value)
			if err != nil {
				return Verdict{Excluded: "infra", Labels: labels}
			}
			want = v
		case "initial":
			want = initial
		case "inherit":
			if e.parent == nil {
				want = initial
				labels = append(labels, "root-inherit")
			} else {
				want = expected[e.parent]
				if e.parent.node.Mode != "explicit" {
					chain = true
				}
			}
		default:
			if spec.Inherited && e.parent != nil {
				want = expected[e.parent]
				if e.parent.node.Mode == "none" || e.parent.node.Mode == "inherit" {
					chain = true
				}
			} else {
				want = initial
			}
		}
		expected[e] = want
		el := byID[e.id]
		if el == nil {
			return Verdict{Excluded: "element-missing", Labels: labels}
		}
		got := c04Value(sf, el, c.Prop)
		if got == nil {
			return Viol("defaulting:nil", "%s has no computed value on #%s\n%s", c.Prop, e.id, doc)
		}
		if c.Prop == "display" && e.parent == nil {
			continue // the root element's display is blockified (CSS Display 3 section 2.8)
		}
		if !reflect.DeepEqual(c04Norm(got), c04Norm(want)) {
			mode := e.node.Mode
			if e.parent == nil {
				mode += "@root"
			}
			inh := "non-inherited"
			if spec.Inherited {
				inh = "inherited"
			}
			return Viol("defaulting:"+inh+":"+mode+":"+c.Prop, "%s on #%s (%s): computed %v, CSS defaulting gives %v\n%s", c.Prop, e.id, e.node.Mode, got, want, doc)
		}
	}
	return Verdict{NonTrivial: chain, Labels: labels}
}

var c04AbsRatio = map[string]float64{"px": 1, "pt": 96.0 / 72, "pc": 16, "in": 96, "cm": 96 / 2.54, "mm": 96 / 25.4, "q": 96 / 101.6}

// c04FontSize resolves a font-size declaration text against the parent size and root size (px).
func c04FontSize(text string, parent, root float64, onRoot bool) float64 {
	if text == "" {
		return parent
	}
	i := strings.IndexFunc(text, func(r rune) bool { return !(r >= '0' && r <= '9' || r == '.' || r == '-') })
	v, _ := strconv.ParseFloat(text[:i], 64)
	u := text[i:]
	switch u {
	case "%":
		return parent * v / 100
	case "em":
		return parent * v
	case "ex":
		return parent * v * 0.8 // Ahem x-height
	case "ch":
		return parent * v // Ahem advance of 0
	case "rem":
		if onRoot {
			return 16 * v // the initial value on the root element itself
		}
		return root * v
	}
	return v * c04AbsRatio[u]
}

func c04Units(c *C04Case) Verdict {
	labels := []string{"kind:units", "unit:" + c.Unit, "target:" + c.Target}
	decl := func(fs string) string {
		if fs == "" {
			return "font-family:Ahem"
		}
		return "font-family:Ahem;font-size:" + fs
	}
	probe := fmt.Sprintf("%s:%g%s", c.Target, c.Num, c.Unit)
	if c.Unit == "%" {
		probe = fmt.Sprintf("%s:%g%%", c.Target, c.Num*100)
	}
	var doc string
	if c.OnRoot {
		doc = `<!DOCTYPE html><html id="probe" style="` + decl(c.RootFS) + `;` + probe + `"><body></body></html>`
		labels = append(labels, "on-root")
	} else {
		doc = `<!DOCTYPE html><html style="` + decl(c.RootFS) + `"><body style="` + decl(c.ParentFS) + `"><x-el id="probe" style="` + decl(c.OwnFS) + `;` + probe + `"><x-el id="kid" style="font-size:30px"></x-el></x-el></body></html>`
	}
	_, sf, byID, err := c04Styles(doc)
	if err != nil {
		return Verdict{Excluded: "html-rejected", Labels: labels}
	}
	rootFS := c04FontSize(c.RootFS, 16, 16, true)
	own := rootFS
	if !c.OnRoot {
		parentFS := c04FontSize(c.ParentFS, rootFS, rootFS, false)
		own = c04FontSize(c.OwnFS, parentFS, rootFS, false)
	}
	st := sf.Get(byID["probe"], "")
	gotFS := float64(st.GetFontSize().Value)
	if math.Abs(gotFS-own) > 1e-4*math.Max(1, own) {
		return Viol("units:font-size", "computed font-size %v, expected %v px\n%s", gotFS, own, doc)
	}
	var want float64
	switch c.Unit {
	case "em":
		want = c.Num * own
	case "rem":
		want = c.Num * rootFS
	case "ex":
		want = c.Num * own * 0.8
	case "ch", "%":
		want = c.Num * own
	default:
		want = c.Num * c04AbsRatio[c.Unit]
	}
	got := st.Get(pr.PropKey{KnownProp: pr.PropsFromNames[c.Target]})
	var gotV float64
	var gotUnit pr.Unit
	switch v := got.(type) {
	case pr.DimOrS:
		gotV, gotUnit = float64(v.Value), v.Unit
	case pr.Point:
		gotV, gotUnit = float64(v[0].Value), v[0].Unit
	default:
		return Viol("units:type", "%s computed to %T %v\n%s", c.Target, got, got, doc)
	}
	if gotUnit != pr.Px && gotUnit != pr.Scalar && !(want == 0) {
		return Viol("units:not-absolute", "%s computed to %v (unit %v), expected %v px\n%s", c.Target, got, gotUnit, want, doc)
	}
	if math.Abs(gotV-want) > 1e-4*math.Max(1, math.Abs(want)) {
		return Viol("units:"+c.Unit, "%s:%g%s with font-size %g px (root %g px) computed to %v px, expected %v px\n%s", c.Target, c.Num, c.Unit, own, rootFS, gotV, want, doc)
	}
	// the computed value is what a child inherits: a child with another font size has the same length
	switch c.Target {
	case "text-indent", "letter-spacing", "word-spacing", "border-spacing", "line-height":
		if kid, ok := byID["kid"]; ok && !c.OnRoot {
			kv := sf.Get(kid, "").Get(pr.PropKey{KnownProp: pr.PropsFromNames[c.Target]})
			var kidV float64
			var kidUnit pr.Unit
			switch v := kv.(type) {
			case pr.DimOrS:
				kidV, kidUnit = float64(v.Value), v.Unit
			case pr.Point:
				kidV, kidUnit = float64(v[0].Value), v[0].Unit
			}
			labels = append(labels, "inherited-by-child")
			if kidUnit != gotUnit || math.Abs(kidV-gotV) > 1e-4*math.Max(1, math.Abs(gotV)) {
				return Viol("units:inherited:"+c.Target, "%s computes to %v on the element and to %v (unit %v) on its child of font-size 30px, which inherits it\n%s", probe, got, kv, kidUnit, doc)
			}
		}
	}
	nt := c.Unit == "em" || c.Unit == "rem" || c.Unit == "ex" || c.Unit == "ch" || c.Unit == "%" || strings.ContainsAny(c.OwnFS+c.ParentFS+c.RootFS, "%mrxh")
	return Verdict{NonTrivial: nt, Labels: labels}
}

// c04Shared: one rule gives the same declaration to several elements of different font sizes; each
// must compute it as if it were alone (the declared value is shared, the computed ones are not).
func c04Shared(c *C04Case) Verdict {
	labels := []string{"kind:shared", "unit:" + c.Unit}
	var names []string
	for _, d := range strings.Split(c.Doc, ";") {
		names = append(names, strings.TrimSpace(d[:strings.Index(d, ":")]))
	}
	for _, n := range names {
		if _, ok := pr.PropsFromNames[n]; !ok {
			return Verdict{Excluded: "property-not-supported:" + n, Labels: labels}
		}
	}
	var b strings.Builder
	b.WriteString(`<!DOCTYPE html><html><head><style>.s{` + c.Doc + `}</style></head><body style="font-family:Ahem">`)
	for i, fs := range c.Sizes {
		fmt.Fprintf(&b, `<x-el id="e%d" class="s" style="font-size:%s"></x-el>`, i, fs)
	}
	b.WriteString(`</body></html>`)
	doc := b.String()
	_, sf, byID, err := c04Styles(doc)
	if err != nil {
		return Verdict{Excluded: "html-rejected", Labels: labels}
	}
	// read in a drawn order: the first reader must not fix the value for the others
	order := make([]int, len(c.Sizes))
	for i := range order {
		order[i] = i
	}
	for i, k := len(order)-1, c.Seed; i > 0; i-- {
		j := k % (i + 1)
		k /= i + 1
		order[i], order[j] = order[j], order[i]
	}
	got := map[int][]string{}
	for _, i := range order {
		for _, n := range names {
			got[i] = append(got[i], fmt.Sprintf("%v", c04Value(sf, byID[fmt.Sprintf("e%d", i)], n)))
		}
	}
	distinct := map[string]bool{}
	for i, fs := range c.Sizes {
		alone := `<!DOCTYPE html><html><head></head><body style="font-family:Ahem"><x-el id="e" style="font-size:` + fs + `;` + c.Doc + `"></x-el></body></html>`
		_, sf2, byID2, err := c04Styles(alone)
		if err != nil {
			return Verdict{Excluded: "html-rejected", Labels: labels}
		}
		for k, n := range names {
			want := fmt.Sprintf("%v", c04Value(sf2, byID2["e"], n))
			distinct[want] = true
			if want != got[i][k] {
				return Viol("shared:"+n, "%s from a rule shared by %d elements computes to %s on #e%d (font-size %s), but to %s when the element is alone\n%s", n, len(c.Sizes), got[i][k], i, fs, want, doc)
			}
		}
	}
	// em and rem lengths mean the same as the px lengths they stand for (1em = the font size of the element,
	// 1rem = the 16px of the root here), wherever in a value they occur
	if c.Unit == "em" || c.Unit == "rem" {
		for _, fs := range c.Sizes {
			if !strings.HasSuffix(fs, "px") {
				continue
			}
			factor, _ := strconv.ParseFloat(strings.TrimSuffix(fs, "px"), 64)
			if c.Unit == "rem" {
				factor = 16
			}
			inPx := c04UnitRe(c.Unit).ReplaceAllStringFunc(c.Doc, func(m string) string {
				n, _ := strconv.ParseFloat(strings.TrimSuffix(m, c.Unit), 64)
				return strconv.FormatFloat(n*factor, 'f', -1, 64) + "px"
			})
			var vals [2][]string
			for k, decl := range []string{c.Doc, inPx} {
				one := `<!DOCTYPE html><html><head></head><body style="font-family:Ahem"><x-el id="e" style="font-size:` + fs + `;` + decl + `"></x-el></body></html>`
				_, sf3, byID3, err := c04Styles(one)
				if err != nil {
					return Verdict{Excluded: "html-rejected", Labels: labels}
				}
				for _, n := range names {
					vals[k] = append(vals[k], fmt.Sprintf("%v", c04Value(sf3, byID3["e"], n)))
				}
			}
			for k, n := range names {
				if vals[0][k] != vals[1][k] {
					return Viol("shared:unit-equivalence:"+n, "at font-size %s, %q computes %s to %s but the same lengths in px (%q) give %s", fs, c.Doc, n, vals[0][k], inPx, vals[1][k])
				}
			}
			labels = append(labels, "unit-equivalence")
			break
		}
	}
	return Verdict{NonTrivial: len(distinct) > len(names), Labels: labels}
}

var c04UnitRes = map[string]*regexp.Regexp{}

func c04UnitRe(unit string) *regexp.Regexp {
	if re, ok := c04UnitRes[unit]; ok {
		return re
	}
	re := regexp.MustCompile(`[0-9]+(?:\.[0-9]+)?` + unit + `\b`)
	c04UnitRes[unit] = re
	return re
}

func c04AllProps(c *C04Case) Verdict {
	labels := []string{"kind:allprops"}
	h, err := wr.ParseHTML(c.Doc, wr.Opts{})
	if err != nil {
		return Verdict{Excluded: "html-rejected", Labels: labels}
	}
	var pageRules []tree.PageRule
	sf := wr.Styles(h, nil, false, wr.SharedFC("pango"), nil, &pageRules, nil, true)
	var props []pr.KnownProp
	for _, p := range pr.PropsFromNames {
		props = append(props, p)
	}
	sort.Slice(props, func(i, j int) bool { return props[i] < props[j] })
	// a drawn permutation (deterministic from the seed)
	perm := append([]pr.KnownProp{}, props...)
	x := uint64(c.Seed)
	for i := len(perm) - 1; i > 0; i-- {
		x = x*6364136223846793005 + 1442695040888963407
		j := int((x >> 33) % uint64(i+1))
		perm[i], perm[j] = perm[j], perm[i]
	}
	check := func(name string, st pr.ElementStyle) *Verdict {
		if st == nil {
			return nil
		}
		first := map[pr.KnownProp]pr.CssProperty{}
		for _, p := range perm {
			v := st.Get(pr.PropKey{KnownProp: p})
			if v == nil {
				vv := Viol("allprops:nil", "%s: property %s has no computed value\n%s", name, p, c.Doc)
				return &vv
			}
			first[p] = v
		}
		for _, p := range props {
			if v := st.Get(pr.PropKey{KnownProp: p}); !reflect.DeepEqual(v, first[p]) {
				vv := Viol("allprops:unstable", "%s: property %s reads %v then %v\n%s", name, p, first[p], v, c.Doc)
				return &vv
			}
		}
		return nil
	}
	n := 0
	it := h.Root.Iter()
	for it.HasNext() {
		e := it.Next()
		for _, pseudo := range []string{"", "before", "after", "marker", "first-line", "first-letter"} {
			if st := sf.Get(e, pseudo); st != nil {
				n++
				if v := check(e.Data+"::"+pseudo, st); v != nil {
					v.Labels = labels
					return *v
				}
			}
		}
	}
	// the order-independence relation: a fresh computation read in document order gives the same values
	sf2 := wr.Styles(h, nil, false, wr.SharedFC("pango"), nil, nil, nil, true)
	it = h.Root.Iter()
	for it.HasNext() {
		e := it.Next()
		a, b := sf.Get(e, ""), sf2.Get(e, "")
		for _, p := range props {
			va, vb := a.Get(pr.PropKey{KnownProp: p}), b.Get(pr.PropKey{KnownProp: p})
			if !reflect.DeepEqual(va, vb) {
				return Viol("allprops:order-dependent", "<%s> property %s: %v when read in a drawn order, %v when read in enum order\n%s", e.Data, p, va, vb, c.Doc)
			}
		}
	}
	// page context
	pt := utils.PageElement{Side: "right", First: true}
	sf.SetPageComputedStylesT(pt, h)
	if st := sf.Get(pt, ""); st != nil {
		n++
		if v := check("@page", st); v != nil {
			return *v
		}
	}
	return Verdict{NonTrivial: n > 3, Labels: labels}
}

func c04Check(ci interface{}) Verdict {
	c := ci.(*C04Case)
	switch c.Kind {
	case "defaulting":
		return c04Defaulting(c)
	case "units":
		return c04Units(c)
	case "shared":
		return c04Shared(c)
	case "page":
		return c04Page(c)
	default:
		return c04AllProps(c)
	}
}

var c04ToPx = map[string]float64{"px": 1, "pt": 96.0 / 72, "in": 96, "mm": 96 / 25.4}

// c04Page: the computed values of a page context. bleed: auto is 6pt when marks holds crop, else 0
// (css-page-3 / GCPM); em refers to the font size of the page context, rem to the root element's (16px here).
func c04Page(c *C04Case) Verdict {
	labels := []string{"kind:page", "marks:" + c.Marks, "bleed:" + c.Bleed}
	fs := 16.0
	var decls []string
	if c.PageFS != "" {
		decls = append(decls, "font-size:"+c.PageFS)
		n, _ := strconv.ParseFloat(strings.TrimRight(c.PageFS, "ptx"), 64)
		fs = n * c04ToPx[c.PageFS[len(c.PageFS)-2:]]
	}
	toPx := func(n float64, unit string) float64 {
		switch unit {
		case "em":
			return n * fs
		case "rem":
			return n * 16
		}
		return n * c04ToPx[unit]
	}
	if c.Marks != "" {
		decls = append(decls, "marks:"+c.Marks)
	}
	wantBleed := 0.0
	if strings.Contains(c.Marks, "crop") {
		wantBleed = 8
	}
	if c.Bleed != "" {
		decls = append(decls, c.BleedVia+":"+c.Bleed)
		if c.Bleed != "auto" {
			if c.Bleed == "0" {
				wantBleed = 0
			} else {
				u := strings.TrimLeft(c.Bleed, "0123456789.")
				n, _ := strconv.ParseFloat(strings.TrimSuffix(c.Bleed, u), 64)
				wantBleed = toPx(n, u)
			}
		}
	}
	decls = append(decls, fmt.Sprintf("margin-left:%g%s", c.Num, c.Unit))
	wantMargin := toPx(c.Num, c.Unit)
	doc := `<!DOCTYPE html><html><head><style>@page{` + strings.Join(decls, ";") + `}</style></head><body><p>a</p></body></html>`
	h, err := wr.ParseHTML(doc, wr.Opts{})
	if err != nil {
		return Verdict{Excluded: "html-rejected", Labels: labels}
	}
	var pageRules []tree.PageRule
	sf := wr.Styles(h, nil, false, wr.SharedFC("pango"), nil, &pageRules, nil, true)
	pt := utils.PageElement{Side: "right", First: true}
	sf.SetPageComputedStylesT(pt, h)
	st := sf.Get(pt, "")
	if st == nil {
		return Verdict{Excluded: "no-page-style", Labels: labels}
	}
	near := func(a, b float64) bool { return math.Abs(a-b) <= 1e-3*math.Max(1, math.Abs(b)) }
	if got := st.GetBleedLeft(); got.Unit != pr.Px || !near(float64(got.Value), wantBleed) {
		return Viol("page:bleed", "@page{%s}: bleed-left computes to %v, expected %gpx", strings.Join(decls, ";"), got, wantBleed)
	}
	if got := st.GetMarginLeft(); got.Unit != pr.Px || !near(float64(got.Value), wantMargin) {
		return Viol("page:margin:"+c.Unit, "@page{%s}: margin-left computes to %v, expected %gpx", strings.Join(decls, ";"), got, wantMargin)
	}
	return Verdict{NonTrivial: c.Marks != "" || c.Unit == "em" || c.Unit == "rem", Labels: labels}
}

func init() {
	Register(&Prop{
		ID:               "C04",
		Gen:              c04Gen,
		New:              func() interface{} { return &C04Case{} },
		Check:            c04Check,
		CrashIsViolation: true,
		QuickN:           30000,
		ThoroughN:        400000,
		Rule: "Three families. defaulting: a tree (root <html>, depth <= 4, <= 8 elements, custom tags so that no UA rule interferes; UA sheet reduced to the @page/@footnote rule the library requires) where every element gives the focus property one of {no declaration, inherit, initial, explicit value}; the focus property is drawn from a table of 75 properties transcribed from the CSS specifications (inherited yes/no, initial value text, context-free explicit values). " +
			"Oracle (CSS Cascade 4 section 7): explicit -> the value computed for the same declaration on a lone element; inherit -> the parent's computed value (root: initial); initial -> the computed value of the specification's initial value text; none -> parent's value if the specification marks the property inherited, else initial. " +
			"units: 'target: N unit' for unit in px pt pc in cm mm q em rem ex ch on 10 length-valued properties, with root / parent / own font-size drawn from px, pt, in, em, rem, %, ex, ch forms, Ahem font (ex = 0.8em, ch = 1em), probe on the root element one time in six; expected pixels from the fixed ratios (1in = 96px = 72pt = 6pc = 2.54cm = 25.4mm = 101.6q) and the computed font sizes (rem on the root's own font-size refers to the initial 16px). " +
			"allprops: on five documents with pseudo-elements, list markers, tables, flex/grid, font-weight bolder/lighter and font-size larger/smaller on the root, and a page context: every property of every element / pseudo-element / page has a non-nil value, reading them in a drawn random order and again in enum order gives identical values, and a second computation read in a different order agrees. " +
			"shared: one style rule gives a declaration with a font-relative length inside a composite value (gradients, positions, sizes, transforms, clip, grid tracks, ... 44 declarations x em/ex/ch/rem) to 2-4 sibling elements of different font sizes, read in a drawn order; each element must compute the value it computes when it is alone in the document. " +
			"Non-trivial: defaulting with an inheritance chain of length >= 2; units with a relative unit or a relative font-size; allprops with > 3 styles; shared with at least two distinct expected values.",
		ImportantLabels: []string{"kind:defaulting", "kind:units", "kind:allprops", "kind:shared", "root-inherit", "on-root", "unit:em", "unit:rem", "unit:ex", "unit:ch", "unit:q"},
		Assumptions:     []string{"tolerance on computed lengths: 1e-4 relative (values are float32)", "font-size: larger/smaller are exercised for non-nil values only (CSS leaves their exact scaling to the user agent)"},
	})
}
