package props

import (
	"fmt"
	"regexp"
	"sort"
	"strings"
	"time"

	bo "github.com/benoitkugler/webrender/html/boxes"
	"pgregory.net/rapid"

	"verif/harness/internal/gen"
	"verif/harness/internal/wr"
)

// C01 — Rendering any document terminates without crashing.

type C01Case struct {
	Doc    gen.Doc `json:"doc"`
	Inject string  `json:"inject,omitempty"` // invalid / unsupported CSS construct appended to the first style sheet (metamorphic pair)
	// Ordinary: the document comes from the grammar of ordinary documents (gen.GenCalmDoc): a hang there is
	// identified apart from the listed hangs of the full grammar
	Ordinary bool `json:"ordinary,omitempty"`
	// ImportPrefix: an invalid or unsupported rule written before the @import of a sheet (see c01ImportPair)
	ImportPrefix string `json:"import_prefix,omitempty"`
	Imported     string `json:"imported,omitempty"`
}

// rules that are dropped (invalid selector, unknown at-rule, unsupported pseudo-element): they are not
// "valid rules", so an @import that follows them is still in its place at the top of the sheet
var c01SkippedRules = []string{"p::selection{color:red}", "p::unknown-pseudo{color:red}", "span:unknown-class{color:red}", "@unknown-rule x{a:b}", "@unknown;", "p::placeholder{color:blue}", "p::selection{}", "::backdrop{color:red} p::cue{color:red}"}

var c01ImportedSheets = []string{".h{display:none} p::before{content:'GEN '}", "p{width:60px}", ".h{display:none}", "p::after{content:' tail'} .h{break-before:page}", "body{font-size:30px} p{width:200px}"}

// c01ImportPair: the same document with and without a skipped rule before its @import
func c01ImportPair(c *C01Case) (base, variant string) {
	body := `<p>first paragraph of the text</p><p class="h">second paragraph that is hidden or moved</p><p>third</p>`
	imp := `@import url("data:text/css,` + strings.NewReplacer("{", "%7B", "}", "%7D", " ", "%20", "#", "%23", "'", "%27").Replace(c.Imported) + `");`
	head := `<!DOCTYPE html><html><head><style>@page{size:300px 200px;margin:10px}</style><style>`
	return head + imp + ` p{margin:0}</style></head><body>` + body + `</body></html>`,
		head + c.ImportPrefix + " " + imp + ` p{margin:0}</style></head><body>` + body + `</body></html>`
}

var c01Injections = []string{
	"*{unknown-property:1px}", "p{color:12px}", "div{width:red;}", "@unknown-rule x{a:b}", "@unknown;", "p::selection{color:red}", "p::unknown-pseudo{color:red}", "span:unknown-class{color:red}", "a{-webkit-foo:bar}",
	"div{margin:1px 2px 3px 4px 5px}", "p{display:blocky}", "@font-face{src:url(missing.ttf)}", "@counter-style{system:cyclic}", "@page :unknown{margin:0}", "p{content:}", "}", "p{color:red", "@import 'missing.css';", "li{list-style-type:symbols()}", "p{color:red}}", "@media print{p{colr:red}}",
}

// a rule that gives every element, or the head elements, a display value
var c01UniversalDisplay = regexp.MustCompile(`(?:\*|head|style)\s*\{[^}]*display\s*:`)

// a marker image that the offline fetcher cannot load (anything but a data: URI)
var c01BrokenMarkerImage = regexp.MustCompile(`list-style-image:(url\((?:x|missing)\.png\))`)

// elements whose content is text: markup (and style attributes) inside them is displayed, not applied
var c01RawText = regexp.MustCompile(`(?i)<(?:textarea|xmp|plaintext|noscript|noframes|noembed|iframe|script)\b`)

// The variant keeps the text of the url where it was (as the value of a custom property nobody reads):
// when the declaration sits inside the remnants of a bad url, a comment or a string, the characters that
// end that construct are still there and the rest of the sheet is read as before.
const c01NoMarkerImage = "--verif-unused:$1;list-style-image:none"

func c01Gen(t *rapid.T, tier Tier) interface{} {
	depth := 4
	if tier == Thorough {
		depth = 5
	}
	if rapid.IntRange(0, 4).Draw(t, "ordinary") == 0 {
		return &C01Case{Doc: gen.GenCalmDoc(t), Ordinary: true}
	}
	if rapid.IntRange(0, 24).Draw(t, "importpair") == 0 {
		c := &C01Case{ImportPrefix: rapid.SampledFrom(c01SkippedRules).Draw(t, "skipped"), Imported: rapid.SampledFrom(c01ImportedSheets).Draw(t, "imported")}
		c.Doc.Engine = rapid.SampledFrom([]string{"pango", "gotext"}).Draw(t, "engine")
		c.Doc.Zoom = 1
		c.Doc.HTML, _ = c01ImportPair(c)
		return c
	}
	c := &C01Case{Doc: gen.GenDoc(t, depth, rapid.IntRange(0, 9).Draw(t, "rtl") == 0)}
	if rapid.IntRange(0, 3).Draw(t, "meta") == 0 {
		c.Inject = rapid.SampledFrom(c01Injections).Draw(t, "inj")
	}
	return c
}

func c01Opts(d gen.Doc) wr.Opts {
	return wr.Opts{Engine: d.Engine, Hints: d.Hints, UserCSS: d.UserCSS, Zoom: d.Zoom}
}

func c01Labels(r *wr.Rendered, d gen.Doc) (labels []string, nElems int) {
	set := map[string]bool{"engine:" + d.Engine: true}
	if d.Hints {
		set["hints"] = true
	}
	if len(d.UserCSS) > 0 {
		set["user-sheet"] = true
	}
	if len(r.Pages) > 1 {
		set["pages>1"] = true
	}
	for _, p := range r.Pages {
		wr.WalkBoxes(p, func(b bo.Box) bool {
			if b.Box().Element != nil {
				nElems++
			}
			switch b.(type) {
			case *bo.TableBox, *bo.InlineTableBox:
				set["table"] = true
			case *bo.FlexBox, *bo.InlineFlexBox:
				set["flex"] = true
			case *bo.GridBox, *bo.InlineGridBox:
				set["grid"] = true
			case *bo.InlineBlockBox:
				set["inline-block"] = true
			case *bo.MarginBox:
				set["margin-box"] = true
			case *bo.FootnoteAreaBox:
				set["footnote-area"] = true
			}
			bf := b.Box()
			if bf.IsFloated() {
				set["float"] = true
			}
			if bf.IsAbsolutelyPositioned() {
				set["abspos"] = true
			}
			return true
		})
	}
	if strings.Contains(d.HTML, "column") {
		set["columns-declared"] = true
	}
	if strings.Contains(d.HTML, "<svg") {
		set["svg"] = true
	}
	if strings.Contains(d.HTML, "dir=\"rtl\"") || strings.Contains(d.HTML, "direction:rtl") || strings.ContainsAny(d.HTML, "שم") {
		set["rtl"] = true
	}
	if strings.Contains(d.HTML, "size:0 0") || strings.Contains(d.HTML, "size:1px") || strings.Contains(d.HTML, "size:10px 10px") || strings.Contains(d.HTML, "margin:50%") {
		set["degenerate-page"] = true
	}
	for l := range set {
		labels = append(labels, l)
	}
	sort.Strings(labels)
	return labels, nElems
}

func c01Texts(r *wr.Rendered) string {
	var all []string
	for _, p := range r.Rec.TextsPerPage() {
		all = append(all, p...)
	}
	sort.Strings(all)
	return strings.Join(all, "\x1f")
}

// c01InjectInto adds a style sheet holding only the invalid construct, right before the first
// style sheet of the document (so that it cannot be swallowed by an unterminated construct of an
// existing sheet, nor push an @import behind other rules).
func c01InjectInto(html, inj string) (string, bool) {
	if i := strings.Index(html, "<style>"); i >= 0 {
		if strings.Contains(html[:i], `"`) {
			// an attribute before it (on <html>) may hold quotes of its own: the text "<style>" can then
			// sit inside an attribute value, where the addition is not a style sheet
			return html, false
		}
		return html[:i] + "<style>" + inj + "</style>" + html[i:], true
	}
	return html, false
}

// headDisplayed: some element of the head (style, title, ...) has a box in the laid-out pages
func headDisplayed(r *wr.Rendered) bool {
	found := false
	for _, p := range r.Pages {
		wr.WalkBoxes(p, func(b bo.Box) bool {
			if el := b.Box().Element; el != nil {
				switch el.Data {
				case "style", "head", "title", "meta", "base", "link", "script":
					found = true
				}
			}
			return !found
		})
	}
	return found
}

func c01Check(ci interface{}) Verdict {
	c := ci.(*C01Case)
	opts := c01Opts(c.Doc)
	var r *wr.Rendered
	var err error
	log1 := wr.CaptureLog(func() { r, err = wr.Render(c.Doc.HTML, opts) })
	if err != nil {
		return Verdict{Excluded: "rejected-by-NewHTML", Labels: []string{"rejected"}}
	}
	labels, nElems := c01Labels(r, c.Doc)
	if c.ImportPrefix != "" {
		_, variant := c01ImportPair(c)
		labels = append(labels, "skipped-rule-before-import")
		r2, err := wr.Render(variant, opts)
		if err != nil {
			return Verdict{Sig: "skip:rejects-document", Msg: fmt.Sprintf("the document is rejected once %q stands before its @import: %v", c.ImportPrefix, err), Labels: labels}
		}
		if a, b := c01Texts(r), c01Texts(r2); len(r2.Pages) != len(r.Pages) || a != b {
			return Verdict{Sig: cleanSigC01("skip:import-lost-after:" + c.ImportPrefix), Msg: fmt.Sprintf("the skipped rule %q written before the @import changes the rendering: %d pages, text %q; without it: %d pages, text %q\n%s", c.ImportPrefix, len(r2.Pages), b, len(r.Pages), a, variant), Labels: labels}
		}
		return Verdict{NonTrivial: true, Labels: labels}
	}
	if c.Ordinary {
		labels = append(labels, "ordinary-document")
	}
	if c.Inject == "" {
		// an image that cannot be loaded is skipped: a list whose marker image is missing renders as if it
		// declared none (the markers of list-style-type are drawn)
		if c01BrokenMarkerImage.MatchString(c.Doc.HTML) && !c01RawText.MatchString(c.Doc.HTML) {
			html3 := c01BrokenMarkerImage.ReplaceAllString(c.Doc.HTML, c01NoMarkerImage)
			r3, err := wr.Render(html3, opts)
			if err != nil {
				return Verdict{Excluded: "variant-rejected", Labels: labels}
			}
			if headDisplayed(r) || headDisplayed(r3) || c01UniversalDisplay.MatchString(c.Doc.HTML) {
				// the style sheet is laid out as text: the variant is another document
				return Verdict{Excluded: "source-displayed", Labels: labels}
			}
			labels = append(labels, "broken-marker-image")
			// (empty text runs are not text)
			noEmpty := func(s string) string {
				return strings.Join(strings.FieldsFunc(s, func(r rune) bool { return r == '\x1f' }), "\x1f")
			}
			if a, b := noEmpty(c01Texts(r)), noEmpty(c01Texts(r3)); len(r3.Pages) != len(r.Pages) || a != b {
				if flat := strings.NewReplacer("\x1f", "", " ", "").Replace(a + b); strings.Contains(flat, "image:") || strings.Contains(flat, "list-style") {
					// the document draws its own source (textarea, displayed style element)
					return Verdict{Excluded: "source-displayed", Labels: labels}
				}
				return Verdict{Sig: "skip:broken-list-style-image", Msg: fmt.Sprintf("a list-style-image that cannot be loaded changes the rendering: %d pages, text %q; with list-style-image:none: %d pages, text %q\n%s", len(r.Pages), a, len(r3.Pages), b, c.Doc.HTML), Labels: labels}
			}
		}
		return Verdict{NonTrivial: nElems >= 3, Labels: labels}
	}
	html2, ok := c01InjectInto(c.Doc.HTML, c.Inject)
	if !ok || !c.Doc.HasStyle {
		return Verdict{NonTrivial: nElems >= 3, Labels: labels}
	}
	// the relation needs the added <style> element to generate no box: not the case when the author
	// rules display head content (e.g. *{display:block})
	if headDisplayed(r) || c01UniversalDisplay.MatchString(c.Doc.HTML) {
		// (a rule such as *{display:table-header-group} gives the added style element a box that takes part in
		// the table fix-ups even when nothing of it is left in the laid-out pages)
		return Verdict{Excluded: "head-content-displayed", Labels: labels}
	}
	labels = append(labels, "metamorphic-pair")
	var r2 *wr.Rendered
	log2 := wr.CaptureLog(func() { r2, err = wr.Render(html2, opts) })
	if err != nil {
		return Verdict{Sig: "skip:rejects-document", Msg: fmt.Sprintf("the document is rejected once %q is added: %v", c.Inject, err), Labels: labels}
	}
	if headDisplayed(r2) {
		// (e.g. *{display:table-header-group}: the first style element of the document gave no box of its own,
		// the added one does)
		return Verdict{Excluded: "head-content-displayed", Labels: labels}
	}
	if len(r2.Pages) != len(r.Pages) {
		return Verdict{Sig: cleanSigC01("skip:page-count-changes:" + c.Inject), Msg: fmt.Sprintf("adding the invalid/unsupported construct %q changes the number of pages from %d to %d\n%s", c.Inject, len(r.Pages), len(r2.Pages), c.Doc.HTML), Labels: labels}
	}
	if strings.Contains(c01Texts(r2), strings.TrimSuffix(c.Inject, "}")) {
		// the document displays its own style sheets (e.g. *{display:block}): the added text is drawn too
		return Verdict{Excluded: "style-element-displayed", Labels: labels}
	}
	if a, b := c01Texts(r), c01Texts(r2); a != b {
		return Verdict{Sig: cleanSigC01("skip:text-changes:" + c.Inject), Msg: fmt.Sprintf("adding the invalid/unsupported construct %q changes the drawn text\n before: %q\n after:  %q\n%s", c.Inject, a, b, c.Doc.HTML), Labels: labels}
	}
	// the added construct is reported: some warning of the second render was not logged by the first
	// (counting lines would be fooled by the valid part of an addition such as "p{color:red}}", which
	// overrides declarations that were themselves reported)
	seen := map[string]int{}
	for _, l := range strings.Split(log1, "\n") {
		seen[l]++
	}
	newWarning := false
	for _, l := range strings.Split(log2, "\n") {
		if seen[l] == 0 && strings.TrimSpace(l) != "" {
			newWarning = true
		}
		seen[l]--
	}
	if !newWarning && c.Inject != "}" && c.Inject != "p{color:red" {
		return Verdict{Sig: cleanSigC01("skip:no-warning:" + c.Inject), Msg: fmt.Sprintf("the invalid/unsupported construct %q is skipped without a logged warning\n%s", c.Inject, c.Doc.HTML), Labels: labels}
	}
	return Verdict{NonTrivial: nElems >= 3, Labels: labels}
}

func init() {
	Register(&Prop{
		ID:               "C01",
		Gen:              c01Gen,
		New:              func() interface{} { return &C01Case{} },
		Check:            c01Check,
		CrashIsViolation: true,
		CaseTimeout:      12 * time.Second,
		HangTag: func(ci interface{}) string {
			if c, ok := ci.(*C01Case); ok && c.Ordinary {
				return ":ordinary-document"
			}
			return ""
		},
		QuickN:    12000,
		ThoroughN: 300000,
		Rule: "Documents from a weighted grammar: 58 tags (table parts, lists, form controls, img with data/missing sources, inline <svg> from the SVG generator, font/center), up to 25 elements, depth <= 4 (5 in thorough), style attributes and <style> rules drawn from a curated pool of ~330 declarations covering every layout mode (display x float x position x sizes incl. 0/negative/percent x breaks x columns x flex/grid x table x overflow/opacity/transform x GCPM string-set/running/footnote/bookmark x content/counters x custom properties incl. cycles), from the C08 value grammar and from property x generated-token pairs; " +
			"23 @page variants incl. degenerate geometry and margin boxes, @media/@import/@font-face/@counter-style, nested rules; text pool with long words, CJK, RTL/bidi (one document in ten), soft hyphens, tabs/newlines; attributes id/href/colspan/rowspan/span/start/value/size/src/lang/dir/align; HTML prologues (comment/doctype/text before <html>, missing <html>/<body>); presentational hints on/off, optional user sheet, both text engines, zoom in {0.1, 1, 3}. " +
			"Oracle 1: NewHTML -> Render -> Write(recording backend) returns: a panic, process death (stack exhaustion, fatal error) or 12 s of silence is a violation identified by its site. Oracle 2 (one case in four): the same document with one invalid or unsupported CSS construct appended to its first style sheet (unknown property, ill-typed value, unknown at-rule, unsupported pseudo-element/class, bad @font-face/@counter-style/@page, stray '}', unterminated rule) must keep the page count and the multiset of drawn text, and log at least one more warning. " +
			"One case in five comes from the grammar of ordinary documents (a page far larger than its content, 1-3 flex / grid / table / multi-column / inline / float containers with the parameter range of their layout mode, nested once): a hang there is identified as hang:<package>:ordinary-document. One case in 25 is a fixed small document whose sheet imports another one, rendered with and without a skipped rule (invalid selector, unknown at-rule, unsupported pseudo-element) before the @import: same pages and drawn text. " +
			"Non-trivial: the render reached Write and the box tree holds >= 3 element boxes.",
		ImportantLabels: []string{"ordinary-document", "skipped-rule-before-import", "pages>1", "table", "flex", "grid", "float", "abspos", "svg", "engine:gotext", "engine:pango", "hints", "metamorphic-pair", "degenerate-page", "margin-box"},
		Assumptions:     []string{"non-termination is approximated by 12 s without return (median render: a few ms)", "resources are fetched through an offline fetcher (data: URIs only)"},
	})
}

func cleanSigC01(s string) string { return strings.Join(strings.Fields(s), "_") }
