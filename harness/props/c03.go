package props

import (
	"fmt"
	"net/url"
	"sort"
	"strings"

	"github.com/benoitkugler/webrender/css/parser"
	pr "github.com/benoitkugler/webrender/css/properties"
	"github.com/benoitkugler/webrender/html/layout"
	"github.com/benoitkugler/webrender/html/tree"
	"github.com/benoitkugler/webrender/utils"
	"pgregory.net/rapid"

	bo "github.com/benoitkugler/webrender/html/boxes"

	"verif/harness/internal/wr"
)

// C03 — The cascade picks the declaration CSS says wins.

type C03Sel struct {
	Text    string `json:"text"`
	Spec    [3]int `json:"spec"` // specificity of the branch that matches the probe
	Matches bool   `json:"matches"`
	// ListMax is the specificity of the most specific branch of a selector list
	// (what '&' stands for in a nested rule); zero when equal to Spec.
	ListMax [3]int `json:"list_max,omitempty"`
}

type C03Decl struct {
	Origin    string `json:"origin"` // ua user author
	Important bool   `json:"important,omitempty"`
	Carrier   string `json:"carrier"` // style link import media media-off nested-amp nested-desc attr hint
	Sel       C03Sel `json:"sel"`
	Value     int    `json:"value"` // identifies the declaration
	Shorthand bool   `json:"shorthand,omitempty"`
	// OwnValue > 0: the rule carrying a nested rule also declares the property itself, before the nested rule
	OwnValue int `json:"own_value,omitempty"`
	// carriers own-then-nested / nested-then-own: the other declarations of the rule, on the far side of its nested rule
	Extra string `json:"extra,omitempty"`
}

type C03Case struct {
	Prop   string    `json:"prop"` // color z-index margin-left
	Decls  []C03Decl `json:"decls"`
	Hints  bool      `json:"hints"`
	Layout bool      `json:"via_layout,omitempty"`
	Media  string    `json:"media,omitempty"` // media type of the render: "" (print) or screen
}

// selectors matching (or not) the probe: <div id=anc class=anc><TAG id=probe class="c1 c2" data-a=x>
func c03Selectors(tag string) []C03Sel {
	return []C03Sel{
		{"*", [3]int{0, 0, 0}, true, [3]int{}},
		{tag, [3]int{0, 0, 1}, true, [3]int{}},
		{strings.ToUpper(tag), [3]int{0, 0, 1}, true, [3]int{}},
		{".c1", [3]int{0, 1, 0}, true, [3]int{}},
		{".c2", [3]int{0, 1, 0}, true, [3]int{}},
		{"[data-a]", [3]int{0, 1, 0}, true, [3]int{}},
		{"[data-a=x]", [3]int{0, 1, 0}, true, [3]int{}},
		{":first-child", [3]int{0, 1, 0}, true, [3]int{}},
		{tag + ".c1", [3]int{0, 1, 1}, true, [3]int{}},
		{".c1.c2", [3]int{0, 2, 0}, true, [3]int{}},
		{"div " + tag, [3]int{0, 0, 2}, true, [3]int{}},
		{"div > .c1", [3]int{0, 1, 1}, true, [3]int{}},
		{".anc .c2", [3]int{0, 2, 0}, true, [3]int{}},
		{"#probe", [3]int{1, 0, 0}, true, [3]int{}},
		{"#probe.c1", [3]int{1, 1, 0}, true, [3]int{}},
		{tag + "#probe", [3]int{1, 0, 1}, true, [3]int{}},
		{"#anc #probe", [3]int{2, 0, 0}, true, [3]int{}},
		{":is(#probe, " + tag + ")", [3]int{1, 0, 0}, true, [3]int{}},
		{":is(.c1, " + tag + ")", [3]int{0, 1, 0}, true, [3]int{}},
		{":not(#zz)", [3]int{1, 0, 0}, true, [3]int{}},
		{":not(.zz)", [3]int{0, 1, 0}, true, [3]int{}},
		{".c1, #nope", [3]int{0, 1, 0}, true, [3]int{1, 0, 0}},
		{"#nope, " + tag, [3]int{0, 0, 1}, true, [3]int{1, 0, 0}},
		// lists with several branches matching the probe: the most specific one gives the weight,
		// wherever it stands in the list
		{tag + ", #probe", [3]int{1, 0, 0}, true, [3]int{}},
		{"#probe, " + tag, [3]int{1, 0, 0}, true, [3]int{}},
		{"*, .c1.c2", [3]int{0, 2, 0}, true, [3]int{}},
		{tag + ", .c1, " + tag + ".c1", [3]int{0, 1, 1}, true, [3]int{}},
		{".c1, #anc #probe, " + tag, [3]int{2, 0, 0}, true, [3]int{}},
		{tag + ", .nomatch, .c2", [3]int{0, 1, 0}, true, [3]int{}},
		// decoys
		{".nomatch", [3]int{0, 1, 0}, false, [3]int{}},
		{"#other", [3]int{1, 0, 0}, false, [3]int{}},
		{"span", [3]int{0, 0, 1}, false, [3]int{}},
		{"#probe:nth-child(2)", [3]int{1, 1, 0}, false, [3]int{}},
		{"#probe > *", [3]int{1, 0, 0}, false, [3]int{}},
		{"#anc > span", [3]int{1, 0, 1}, false, [3]int{}},
	}
}

func c03Tag(prop string) string {
	switch prop {
	case "color":
		return "font"
	case "margin-left":
		return "table"
	case "text-align":
		return "p" // the hint of <p align=center> comes from a rule of the presentational hints sheet
	}
	return "p"
}

func c03Gen(t *rapid.T, tier Tier) interface{} {
	c := &C03Case{}
	c.Prop = rapid.SampledFrom([]string{"color", "color", "z-index", "z-index", "margin-left", "margin-left", "text-align"}).Draw(t, "prop")
	c.Hints = rapid.Bool().Draw(t, "hints")
	c.Layout = rapid.IntRange(0, 9).Draw(t, "layout") == 0
	sels := c03Selectors(c03Tag(c.Prop))
	if rapid.IntRange(0, 2).Draw(t, "mediatype") == 0 {
		c.Media = "screen"
	}
	n := rapid.IntRange(2, 6).Draw(t, "ndecl")
	if c.Prop == "text-align" && n > 4 {
		n = 4 // one keyword per declaration
	}
	tieMode := rapid.IntRange(0, 3).Draw(t, "tie") // 0,1: free; 2: same origin+importance; 3: also same specificity
	var base C03Decl
	hintUsed, attrImportantSeen := false, false
	_ = attrImportantSeen
	for i := 0; i < n; i++ {
		d := C03Decl{Value: i + 1}
		d.Origin = rapid.SampledFrom([]string{"author", "author", "author", "user", "ua"}).Draw(t, "origin")
		d.Important = rapid.IntRange(0, 3).Draw(t, "imp") == 0
		if tieMode >= 2 && i > 0 {
			d.Origin, d.Important = base.Origin, base.Important
		}
		if d.Origin == "ua" {
			d.Important = false // the property lists five levels; UA !important is not among them
		}
		switch d.Origin {
		case "author":
			d.Carrier = rapid.SampledFrom([]string{"style", "style", "style", "link", "link-twice", "import", "import-media", "import-media-off", "import-for-screen", "media", "media-off", "nested-amp", "nested-desc", "own-then-nested", "nested-then-own", "attr", "attr", "hint"}).Draw(t, "carrier")
		default:
			d.Carrier = rapid.SampledFrom([]string{"style", "style", "media", "media-off", "import", "own-then-nested", "nested-then-own"}).Draw(t, "carrier2")
		}
		if d.Carrier == "own-then-nested" || d.Carrier == "nested-then-own" {
			d.Extra = rapid.SampledFrom([]string{"", "letter-spacing:1px", "word-spacing:2px;letter-spacing:1px", "letter-spacing:1px !important"}).Draw(t, "extra")
		}
		if c.Media != "" && d.Origin != "author" && (d.Carrier == "media" || d.Carrier == "media-off") {
			// the user and UA sheets are parsed on their own, for the default media type
			d.Carrier = "style"
		}
		if d.Origin == "ua" && d.Carrier == "import" {
			// the generated UA rules share one sheet, where an @import is only valid before every other rule
			d.Carrier = "style"
		}
		if d.Carrier == "hint" && (hintUsed || c.Prop == "z-index" || d.Important) {
			d.Carrier = "style"
		}
		if d.Carrier == "hint" {
			hintUsed = true
		}
		d.Sel = rapid.SampledFrom(sels).Draw(t, "sel")
		if tieMode == 3 && i > 0 && base.Carrier != "attr" && base.Carrier != "hint" {
			// same specificity class as the first declaration
			var same []C03Sel
			for _, s := range sels {
				if s.Spec == base.Sel.Spec && s.Matches {
					same = append(same, s)
				}
			}
			if len(same) > 0 {
				d.Sel = rapid.SampledFrom(same).Draw(t, "samesel")
			}
		}
		if d.Carrier == "nested-desc" && strings.ContainsAny(d.Sel.Text, " >") {
			// "div { S }" reads ":is(div) S": keep S free of ancestor parts so that its matching is known
			d.Carrier = "nested-amp"
		}
		if c.Prop == "margin-left" && d.Carrier != "hint" {
			d.Shorthand = rapid.IntRange(0, 2).Draw(t, "short") == 0
		}
		if (d.Carrier == "nested-amp" || d.Carrier == "nested-desc") && c.Prop != "text-align" && rapid.Bool().Draw(t, "own") {
			d.OwnValue = 100 + d.Value
		}
		if i == 0 {
			base = d
		}
		c.Decls = append(c.Decls, d)
	}
	return c
}

// text-align: the keyword of declaration number v (0 = the initial value, 5 = the value of the hint)
var c03Aligns = []string{"start", "left", "right", "justify", "end", "center"}

func c03ValueText(prop string, v int, shorthand bool) (name, val string) {
	switch prop {
	case "text-align":
		return "text-align", c03Aligns[v]
	case "color":
		return "color", fmt.Sprintf("rgb(%d, 0, 0)", v)
	case "z-index":
		return "z-index", fmt.Sprintf("%d", v)
	default:
		if shorthand {
			return "margin", fmt.Sprintf("0 0 0 %dpx", v)
		}
		return "margin-left", fmt.Sprintf("%dpx", v)
	}
}

func c03DeclText(prop string, d C03Decl, v int) string {
	name, val := c03ValueText(prop, v, d.Shorthand)
	imp := ""
	if d.Important {
		imp = " !important"
	}
	return name + ":" + val + imp
}

// c03Rule renders the rule carrying declaration d and returns the effective specificity.
func c03Rule(prop string, d C03Decl) (text string, spec [3]int, ownSpec [3]int) {
	decl := c03DeclText(prop, d, d.Value)
	switch d.Carrier {
	case "nested-amp":
		own := ""
		if d.OwnValue > 0 {
			od := d
			od.Important = false
			own = c03DeclText(prop, od, d.OwnValue) + ";"
		}
		amp := d.Sel.Spec
		if d.Sel.ListMax != ([3]int{}) {
			amp = d.Sel.ListMax // '&' weighs as :is(parent list)
		}
		return d.Sel.Text + "{" + own + "&{" + decl + "}}", amp, d.Sel.Spec
	case "nested-desc":
		// parent matches the ancestor div#anc; the nested selector is relative to it
		own := ""
		if d.OwnValue > 0 {
			od := d
			od.Important = false
			own = c03DeclText(prop, od, d.OwnValue) + ";"
		}
		s := d.Sel.Spec
		s[2]++ // :is(div) + nested selector
		return "div{" + own + d.Sel.Text + "{" + decl + "}}", s, [3]int{0, 0, 1}
	}
	switch d.Carrier {
	case "own-then-nested":
		// the declaration, a nested rule for some other element, then other declarations of the same rule
		return d.Sel.Text + "{" + decl + ";em{z-index:9}" + d.Extra + "}", d.Sel.Spec, d.Sel.Spec
	case "nested-then-own":
		extra := d.Extra
		if extra != "" {
			extra += ";"
		}
		return d.Sel.Text + "{" + extra + "em{z-index:9}" + decl + "}", d.Sel.Spec, d.Sel.Spec
	}
	return d.Sel.Text + "{" + decl + "}", d.Sel.Spec, d.Sel.Spec
}

type c03Cand struct {
	value int
	key   [6]int // rank, styleattr, a, b, c, order
	label string
}

func dataCSS(css string) string {
	return "data:text/css," + strings.ReplaceAll(url.PathEscape(css), "'", "%27")
}

// c03Build renders the document and returns the applicable candidates with their cascade keys.
func c03Build(c *C03Case) (doc string, opts wr.Opts, cands []c03Cand) {
	tag := c03Tag(c.Prop)
	rank := func(d C03Decl) int {
		switch {
		case d.Origin == "ua":
			return 0
		case d.Origin == "user" && !d.Important:
			return 1
		case d.Origin == "author" && !d.Important:
			return 2
		case d.Origin == "author":
			return 3
		}
		return 4
	}
	var ua, head, tail strings.Builder
	var user []string
	var attr []string
	hintAttr := ""
	order := 0
	add := func(d C03Decl, value int, styleAttr bool, spec [3]int, ord int, important bool, label string) {
		dd := d
		dd.Important = important
		sa := 0
		if styleAttr {
			sa = 1
		}
		cands = append(cands, c03Cand{value: value, key: [6]int{rank(dd), sa, spec[0], spec[1], spec[2], ord}, label: label})
	}
	for _, d := range c.Decls {
		order += 10
		switch d.Carrier {
		case "attr":
			attr = append(attr, c03DeclText(c.Prop, d, d.Value))
			add(d, d.Value, true, [3]int{0, 0, 0}, order, d.Important, "style-attr")
			continue
		case "hint":
			switch c.Prop {
			case "color":
				hintAttr = fmt.Sprintf(` color="#%02x0000"`, d.Value)
			case "margin-left":
				hintAttr = fmt.Sprintf(` hspace="%d"`, d.Value)
			case "text-align":
				hintAttr = ` align="center"`
			}
			if c.Hints {
				v := d.Value
				if c.Prop == "text-align" {
					v = 5
				}
				add(d, v, false, [3]int{0, 0, 0}, -1, false, "hint")
			}
			continue
		}
		rule, spec, ownSpec := c03Rule(c.Prop, d)
		applies := d.Sel.Matches
		// the parent's own declaration of a nested carrier
		if d.OwnValue > 0 {
			od := d
			switch d.Carrier {
			case "nested-amp":
				if d.Sel.Matches {
					add(od, d.OwnValue, false, ownSpec, order-1, false, "nested-parent-own")
				}
			case "nested-desc":
				// "div {prop:v}" applies to the div, not to the probe: never a candidate for the probe...
				// except through inheritance, which is not a cascade candidate.
			}
		}
		text := rule
		media := c.Media
		if media == "" {
			media = "print"
		}
		inMedia := "" // the media type the rule is restricted to
		label := d.Carrier
		switch d.Carrier {
		case "media":
			text, inMedia = "@media print{"+rule+"}", "print"
		case "media-off":
			text, inMedia = "@media screen{"+rule+"}", "screen"
		case "import":
			text = "@import url(\"" + dataCSS(rule) + "\");"
		case "import-media":
			text, inMedia, label = "@import url(\""+dataCSS("@media print{"+rule+"}")+"\");", "print", "import"
		case "import-media-off":
			text, inMedia, label = "@import url(\""+dataCSS("p{}@media screen{"+rule+"}")+"\");", "screen", "import"
		case "import-for-screen":
			text, inMedia, label = "@import url(\""+dataCSS(rule)+"\") screen;", "screen", "import"
		}
		off := inMedia != "" && inMedia != media
		if off {
			applies = false
		}
		if d.Carrier == "link-twice" {
			label = "link"
		}
		if applies {
			add(d, d.Value, false, spec, order, d.Important, label)
			if d.Carrier == "link-twice" {
				// the same sheet linked again after every other author sheet: its rules appear again, last
				add(d, d.Value, false, spec, 100000+order, d.Important, label)
			}
		} else if off && d.OwnValue > 0 {
			// remove the parent's own candidate added above: the whole rule is in a non-matching block
			if n := len(cands); n > 0 && cands[n-1].value == d.OwnValue {
				cands = cands[:n-1]
			}
		}
		switch d.Origin {
		case "ua":
			ua.WriteString(text + "\n")
		case "user":
			user = append(user, text)
		default:
			if d.Carrier == "link" || d.Carrier == "link-twice" {
				head.WriteString(`<link rel="stylesheet" href="` + dataCSS(text) + `">`)
				if d.Carrier == "link-twice" {
					tail.WriteString(`<link rel="stylesheet" href="` + dataCSS(text) + `">`)
				}
			} else {
				head.WriteString("<style>" + text + "</style>")
			}
		}
	}
	styleAttr := ""
	if len(attr) > 0 {
		styleAttr = ` style="` + strings.Join(attr, ";") + `"`
	}
	inner := "x"
	if tag == "table" {
		inner = "<tr><td>x</td></tr>"
	}
	doc = `<!DOCTYPE html><html><head>` + head.String() + tail.String() + `</head><body><div id="anc" class="anc"><` + tag + ` id="probe" class="c1 c2" data-a="x"` + hintAttr + styleAttr + `>` + inner + `</` + tag + `></div></body></html>`
	opts = wr.Opts{Hints: c.Hints, Media: c.Media, UserCSS: user, UACSS: "html,body,div,p,table{display:block}\n@page{@footnote{margin:0}}\n" + ua.String()}
	return doc, opts, cands
}

func c03Observe(style pr.ElementStyle, prop string) (int, string) {
	switch prop {
	case "text-align":
		ta := string(style.GetTextAlignAll())
		for i, k := range c03Aligns {
			if k == ta {
				return i, ta
			}
		}
		return -1, ta
	case "color":
		col := style.GetColor()
		return int(col.RGBA.R*255 + 0.5), fmt.Sprintf("%v", col)
	case "z-index":
		z := style.GetZIndex()
		if z.String == "auto" {
			return 0, "auto"
		}
		return z.Int, fmt.Sprintf("%v", z)
	default:
		m := style.GetMarginLeft()
		return int(m.Value + 0.5), fmt.Sprintf("%v", m)
	}
}

func c03Check(ci interface{}) Verdict {
	c := ci.(*C03Case)
	doc, opts, cands := c03Build(c)
	labels := map[string]bool{"prop:" + c.Prop: true}
	for _, d := range c.Decls {
		labels["carrier:"+d.Carrier] = true
		labels["origin:"+d.Origin] = true
		if d.Important {
			labels["important"] = true
		}
		if d.OwnValue > 0 {
			labels["nested-with-own-declaration"] = true
		}
	}
	mk := func(v Verdict) Verdict {
		for l := range labels {
			v.Labels = append(v.Labels, l)
		}
		sort.Strings(v.Labels)
		return v
	}
	// expected winner
	want, decider := 0, "none"
	if len(cands) > 0 {
		best := cands[0]
		for _, k := range cands[1:] {
			if c03KeyLess(best.key, k.key) {
				best = k
			}
		}
		want = best.value
		// which tier decides between the two best
		if len(cands) > 1 {
			second := c03Cand{key: [6]int{-1}}
			for _, k := range cands {
				if k.value != best.value && (second.key[0] < 0 || c03KeyLess(second.key, k.key)) {
					second = k
				}
			}
			switch {
			case second.key[0] != best.key[0]:
				decider = "origin-importance"
			case second.key[1] != best.key[1]:
				decider = "style-attribute"
			case second.key[2] != best.key[2] || second.key[3] != best.key[3] || second.key[4] != best.key[4]:
				decider = "specificity"
			default:
				decider = "order"
			}
			labels["decided-by:"+decider] = true
			if best.label == "hint" || second.label == "hint" {
				labels["hint-in-top2"] = true
			}
		}
	}
	h, err := wr.ParseHTML(doc, opts)
	if err != nil {
		return mk(Verdict{Excluded: "html-rejected"})
	}
	user, err := wr.UserSheets(opts)
	if err != nil {
		return mk(Verdict{Excluded: "user-sheet-rejected"})
	}
	var style pr.ElementStyle
	fc := wr.SharedFC("pango")
	if c.Media != "" {
		labels["media:"+c.Media] = true
	}
	if c.Layout {
		labels["via-layout"] = true
		pages := layout.Layout(h, user, c.Hints, fc)
		var found bo.Box
		for _, p := range pages {
			wr.WalkBoxes(p, func(b bo.Box) bool {
				if el := b.Box().Element; el != nil && found == nil {
					for _, a := range el.Attr {
						if a.Key == "id" && a.Val == "probe" {
							found = b
						}
					}
				}
				return true
			})
		}
		if found == nil {
			return mk(Verdict{Excluded: "probe-box-not-found"})
		}
		style = found.Box().Style
	} else {
		sf := wr.Styles(h, user, c.Hints, fc, nil, nil, nil, false)
		var probe *utils.HTMLNode
		it := h.Root.Iter()
		for it.HasNext() {
			e := it.Next()
			if e.Get("id") == "probe" {
				probe = e
			}
		}
		if probe == nil {
			return mk(Verdict{Excluded: "probe-not-found"})
		}
		style = sf.Get(probe, "")
	}
	got, gotText := c03Observe(style, c.Prop)
	if want == 0 {
		// no applicable declaration: nothing listed may apply
		for _, d := range c.Decls {
			if got == d.Value || (d.OwnValue > 0 && got == d.OwnValue && d.Carrier != "nested-desc") {
				return mk(Viol("applies-nonmatching", "no declaration applies to the probe, yet %s computes to %s (declaration %d)\n%s", c.Prop, gotText, got, doc))
			}
		}
		return mk(Verdict{NonTrivial: false})
	}
	if got != want {
		sig := "winner:" + decider
		// name the special carriers among (expected winner, observed winner): they are the root-cause classes
		special := map[string]bool{}
		for _, k := range cands {
			if k.value == want || k.value == got {
				switch k.label {
				case "style-attr", "hint", "nested-parent-own", "nested-amp", "nested-desc", "import":
					special[k.label] = true
				}
			}
		}
		var lab []string
		for l := range special {
			lab = append(lab, l)
		}
		sort.Strings(lab)
		if len(lab) > 0 {
			sig += ":" + strings.Join(lab, "+")
		}
		if got == 0 {
			sig += ":nothing-applied"
		}
		return mk(Viol(sig, "%s computes to %s (declaration %d) but the cascade picks declaration %d (decided by %s)\ncandidates %v\nua: %q user: %q\n%s", c.Prop, gotText, got, want, decider, cands, opts.UACSS, opts.UserCSS, doc))
	}
	return mk(Verdict{NonTrivial: len(cands) >= 2})
}

func c03KeyLess(a, b [6]int) bool {
	for i := 0; i < 6; i++ {
		if a[i] != b[i] {
			return a[i] < b[i]
		}
	}
	return false
}

var _ = parser.Tokenize
var _ = tree.NewHTML

func init() {
	Register(&Prop{
		ID:               "C03",
		Gen:              c03Gen,
		New:              func() interface{} { return &C03Case{} },
		Check:            c03Check,
		CrashIsViolation: false,
		QuickN:           40000,
		ThoroughN:        600000,
		Rule: "Cases: a competition of 2-6 declarations of one probe property (color: inherited; z-index: not inherited; margin-left: also reachable through the margin shorthand) with distinct values on one probe element, each with origin (generated UA sheet / user sheet / author), !important, carrier (<style>, <link href=data:>, @import url(data:), matching and non-matching @media, nested rule with & and with an implicit descendant selector - optionally with the parent's own declaration first -, style attribute, presentational hint with hints on/off), " +
			"a selector from 29 curated selectors of known specificity (23 matching incl. :is/:not/lists/upper-case type, 6 decoys) and a source position; half of the cases force ties on origin+importance, a quarter also on specificity. " +
			"Oracle: reference comparator from CSS Cascade 4 section 6: (origin-importance rank UA < user < author < author! < user!, style attribute above every selector, specificity triple, order of appearance with @import at the import point, nested rules after their parent's declarations, hints as author specificity-0 rules placed before all author sheets); the computed value (via GetAllComputedStyles, 10% via the Style of the laid-out box) must be the value of the maximum, and with no applicable declaration none of the listed values may appear. " +
			"One case in three is rendered for the screen media type, with @media blocks inside imported sheets and @import ... screen among the author carriers. " +
			"A sheet may be linked twice (again after every other author sheet). " +
			"Non-trivial: at least two applicable declarations.",
		ImportantLabels: []string{"media:screen", "decided-by:origin-importance", "decided-by:specificity", "decided-by:order", "decided-by:style-attribute", "carrier:import", "carrier:link", "carrier:media", "carrier:nested-amp", "carrier:nested-desc", "carrier:attr", "carrier:hint", "origin:ua", "origin:user", "important", "via-layout"},
		Assumptions:     []string{"UA !important is not generated (the property lists five origin/importance levels)", "declarations placed after a nested rule in the same parent are not generated (the drafts changed their order of appearance)"},
	})
}
