package props

import (
	"fmt"
	"sort"
	"strconv"
	"strings"

	pr "github.com/benoitkugler/webrender/css/properties"
	bo "github.com/benoitkugler/webrender/html/boxes"
	"github.com/benoitkugler/webrender/utils"
	"pgregory.net/rapid"

	"verif/harness/internal/wr"
)

// C09 — The box tree obeys the CSS box-generation rules.

type C09Case struct {
	HTML  string `json:"html"`
	Hints bool   `json:"hints,omitempty"`
}

var c09Displays = []string{
	"block", "block", "inline", "inline", "inline-block", "list-item", "flow-root", "table", "inline-table", "table-row-group", "table-header-group", "table-footer-group",
	"table-row", "table-row", "table-cell", "table-cell", "table-column-group", "table-column", "table-caption", "flex", "inline-flex", "grid", "inline-grid", "none", "contents",
}

var c09Tags = []string{"div", "div", "div", "span", "span", "p", "b", "table", "tr", "td", "td", "th", "tbody", "thead", "tfoot", "caption", "colgroup", "col", "ul", "li", "img", "input", "br", "x-el", "x-el", "a", "button", "select", "textarea"}

var c09Rules = []string{
	"div::before{content:'B'}", "span::after{content:'A';display:block}", "td::before{content:'c';display:table-cell}", "p::before{content:'x';display:table-row}", "li::marker{content:'*'}",
	"x-el::before{content:'f';float:left}", "x-el::after{content:'a';position:absolute}", "tr::after{content:'t'}", "table::before{content:'T'}", "b::before{content:'i';display:inline-block}",
	"div>div{display:table-cell}", "span>span{display:block}", "td{display:block}", "tr{display:inline}", "table{display:flex}", "li{display:table-row}", "div::after{content:'g';display:grid}",
	"x-el{display:block}", "x-el x-el{display:inline}", "p{display:flex}", "ul{display:grid}", "a{display:inline-block}", "col{display:table-cell}", "caption{display:table-row-group}",
}

func c09Node(t *rapid.T, depth int, budget *int) string {
	*budget--
	tag := rapid.SampledFrom(c09Tags).Draw(t, "tag")
	var st []string
	if rapid.IntRange(0, 9).Draw(t, "hasdisp") < 6 {
		st = append(st, "display:"+rapid.SampledFrom(c09Displays).Draw(t, "disp"))
	}
	switch rapid.IntRange(0, 11).Draw(t, "oof") {
	case 0:
		st = append(st, "float:"+rapid.SampledFrom([]string{"left", "right"}).Draw(t, "fl"))
	case 1:
		st = append(st, "position:"+rapid.SampledFrom([]string{"absolute", "fixed", "relative"}).Draw(t, "pos"))
	case 2:
		st = append(st, rapid.SampledFrom([]string{"position:running(r)", "float:footnote", "columns:2", "column-span:all", "overflow:hidden", "white-space:pre"}).Draw(t, "misc"))
	}
	attrs := ""
	if len(st) > 0 {
		attrs += ` style="` + strings.Join(st, ";") + `"`
	}
	if rapid.IntRange(0, 4).Draw(t, "span") == 0 {
		attrs += fmt.Sprintf(` %s="%s"`, rapid.SampledFrom([]string{"colspan", "rowspan", "span", "rowspan"}).Draw(t, "sa"), rapid.SampledFrom([]string{"0", "1", "2", "3", "9", "-1", "x", "70000", "010", "0x3", "0b11", "1_0"}).Draw(t, "sv"))
	}
	switch tag {
	case "img":
		return `<img` + attrs + ` src="` + rapid.SampledFrom([]string{"data:image/png;base64,iVBORw0KGgoAAAANSUhEUgAAAAEAAAABCAYAAAAfFcSJAAAADUlEQVR42mP8z8BQDwAEhQGAhKmMIQAAAABJRU5ErkJggg==", "data:image/svg+xml,%3Csvg xmlns='http://www.w3.org/2000/svg' width='4' height='4'/%3E", "missing.png"}).Draw(t, "src") + `" alt="` + rapid.SampledFrom([]string{"", "alt"}).Draw(t, "alt") + `">`
	case "br", "col":
		return "<" + tag + attrs + ">"
	case "input":
		return `<input` + attrs + ` value="v">`
	}
	var b strings.Builder
	b.WriteString("<" + tag + attrs + ">")
	n := rapid.IntRange(0, 4).Draw(t, "nkids")
	if depth <= 0 {
		n = 0
	}
	for i := 0; i < n && *budget > 0; i++ {
		if rapid.IntRange(0, 2).Draw(t, "txt") == 0 {
			b.WriteString(rapid.SampledFrom([]string{"t", " ", "two words", "\n", "x "}).Draw(t, "text"))
		}
		b.WriteString(c09Node(t, depth-1, budget))
	}
	if rapid.IntRange(0, 2).Draw(t, "tail") == 0 {
		b.WriteString(rapid.SampledFrom([]string{"t", " ", "end", "\n "}).Draw(t, "text"))
	}
	b.WriteString("</" + tag + ">")
	return b.String()
}

// c09Table: a table whose rows and cells carry spans; parts are sometimes mis-nested or re-displayed.
func c09Table(t *rapid.T) string {
	var b strings.Builder
	span := func(attr string) string {
		if rapid.IntRange(0, 2).Draw(t, "hasspan") != 0 {
			return ""
		}
		return fmt.Sprintf(` %s="%s"`, attr, rapid.SampledFrom([]string{"0", "2", "2", "3", "3", "4", "9", "1", "03", "0012", " 2 ", "+2", "0x3", "0b11", "0o2", "1_0", "2.0", "3e0"}).Draw(t, "spanv"))
	}
	tableTag := rapid.SampledFrom([]string{"table", "table", "table", `div style="display:table"`, `span style="display:inline-table"`, `table style="display:inline-table"`}).Draw(t, "ttag")
	b.WriteString("<" + tableTag + ">")
	if rapid.IntRange(0, 3).Draw(t, "cap") == 0 {
		b.WriteString("<caption>cap</caption>")
	}
	if rapid.IntRange(0, 3).Draw(t, "cols") == 0 {
		b.WriteString("<colgroup" + span("span") + "><col" + span("span") + "></colgroup>")
	}
	ng := rapid.IntRange(1, 3).Draw(t, "ngroups")
	for g := 0; g < ng; g++ {
		gt := rapid.SampledFrom([]string{"tbody", "tbody", "thead", "tfoot", "", `div style="display:table-row-group"`}).Draw(t, "gtag")
		if gt != "" {
			b.WriteString("<" + gt + ">")
		}
		nr := rapid.IntRange(1, 4).Draw(t, "nrows")
		for r := 0; r < nr; r++ {
			rt := rapid.SampledFrom([]string{"tr", "tr", "tr", "tr", `div style="display:table-row"`, ""}).Draw(t, "rtag")
			if rt != "" {
				b.WriteString("<" + rt + ">")
			}
			nc := rapid.IntRange(0, 4).Draw(t, "ncells")
			for c := 0; c < nc; c++ {
				ct := rapid.SampledFrom([]string{"td", "td", "td", "th", `td style="display:block"`, `div style="display:table-cell"`, `td style="position:absolute"`, `td style="float:left"`, "span"}).Draw(t, "ctag")
				b.WriteString("<" + ct + span("colspan") + span("rowspan") + ">")
				if rapid.IntRange(0, 5).Draw(t, "nested") == 0 {
					b.WriteString("<table><tr><td" + span("rowspan") + ">n</td><td>m</td></tr><tr><td>o</td></tr></table>")
				} else {
					b.WriteString(rapid.SampledFrom([]string{"c", "", " ", "two words"}).Draw(t, "ctext"))
				}
				b.WriteString("</" + strings.Fields(ct)[0] + ">")
			}
			if rt != "" {
				b.WriteString("</" + strings.Fields(rt)[0] + ">")
			}
		}
		if gt != "" {
			b.WriteString("</" + strings.Fields(gt)[0] + ">")
		}
	}
	b.WriteString("</" + strings.Fields(tableTag)[0] + ">")
	return b.String()
}

func c09Gen(t *rapid.T, tier Tier) interface{} {
	if rapid.IntRange(0, 9).Draw(t, "family") < 4 {
		var rules []string
		for i, n := 0, rapid.IntRange(0, 2).Draw(t, "nrules"); i < n; i++ {
			rules = append(rules, rapid.SampledFrom(c09Rules).Draw(t, "rule"))
		}
		body := ""
		for i, n := 0, rapid.IntRange(1, 2).Draw(t, "ntables"); i < n; i++ {
			body += c09Table(t)
		}
		return &C09Case{HTML: "<!DOCTYPE html><html><head><style>" + strings.Join(rules, "\n") + "</style></head><body>" + body + "</body></html>", Hints: rapid.Bool().Draw(t, "hints")}
	}
	depth := 4
	if tier == Thorough {
		depth = 5
	}
	var rules []string
	for i, n := 0, rapid.IntRange(0, 4).Draw(t, "nrules"); i < n; i++ {
		rules = append(rules, rapid.SampledFrom(c09Rules).Draw(t, "rule"))
	}
	budget := rapid.IntRange(2, 25).Draw(t, "budget")
	var body strings.Builder
	for i, n := 0, rapid.IntRange(1, 4).Draw(t, "ntop"); i < n && budget > 0; i++ {
		body.WriteString(c09Node(t, depth, &budget))
	}
	htmlSt := ""
	if rapid.IntRange(0, 7).Draw(t, "rootdisp") == 0 {
		htmlSt = ` style="display:` + rapid.SampledFrom(c09Displays).Draw(t, "rd") + `"`
	}
	bodySt := ""
	if rapid.IntRange(0, 5).Draw(t, "bodydisp") == 0 {
		bodySt = ` style="display:` + rapid.SampledFrom(c09Displays).Draw(t, "bd") + `"`
	}
	return &C09Case{
		HTML:  "<!DOCTYPE html><html" + htmlSt + "><head><style>" + strings.Join(rules, "\n") + "</style></head><body" + bodySt + ">" + body.String() + "</body></html>",
		Hints: rapid.Bool().Draw(t, "hints"),
	}
}

func c09Name(b bo.Box) string {
	s := b.Type().String()
	bf := b.Box()
	if bf.Element != nil {
		s += "<" + bf.Element.Data
		if bf.PseudoType != "" {
			s += "::" + bf.PseudoType
		}
		s += ">"
	}
	return s
}

func c09Dump(b bo.Box, indent int, sb *strings.Builder) {
	fmt.Fprintf(sb, "%s%s", strings.Repeat(" ", indent), c09Name(b))
	if tb, ok := b.(*bo.TextBox); ok {
		fmt.Fprintf(sb, " %q", tb.TextS())
	}
	bf := b.Box()
	if bf.IsTableWrapper {
		sb.WriteString(" [wrapper]")
	}
	if !bf.IsInNormalFlow() {
		sb.WriteString(" [out-of-flow]")
	}
	if bo.TableCellT.IsInstance(b) {
		fmt.Fprintf(sb, " [x=%d cs=%d rs=%d]", bf.GridX, bf.Colspan, bf.Rowspan)
	}
	sb.WriteString("\n")
	for _, c := range bf.Children {
		c09Dump(c, indent+1, sb)
	}
}

type c09Walker struct {
	labels map[string]bool
	viol   *Verdict
	style  func(el *utils.HTMLNode) pr.ElementStyle
	nAnon  int
	// overlap: a slot overlap that the reference slot assignment produces too
	overlap string
}

func (w *c09Walker) fail(sig, format string, args ...interface{}) {
	if w.viol == nil {
		v := Viol(sig, format, args...)
		w.viol = &v
	}
}

func isInlineLevel(b bo.Box) bool { return bo.InlineLevelT.IsInstance(b) }
func isBlockLevel(b bo.Box) bool  { return bo.BlockLevelT.IsInstance(b) }

// visit checks the children of box against the rules of its own type.
func (w *c09Walker) visit(box bo.Box, parent bo.Box) {
	bf := box.Box()
	if parent != nil && bf.Element != nil && bf.Element == parent.Box().Element && bf.PseudoType == parent.Box().PseudoType {
		w.nAnon++
	}
	if bf.IsRunning() {
		// running elements are taken out of the tree at layout and fixed up again in their margin box
		w.labels["running"] = true
		return
	}
	var inflow []bo.Box
	for _, c := range bf.Children {
		if c.Box().IsInNormalFlow() {
			inflow = append(inflow, c)
		} else {
			w.labels["out-of-flow-child"] = true
		}
	}
	name := c09Name(box)
	isTable := bo.TableT.IsInstance(box) || bo.InlineTableT.IsInstance(box)
	switch {
	case bo.ReplacedT.IsInstance(box):
		if len(bf.Children) != 0 {
			w.fail("replaced-has-children", "%s is a replaced box with %d children", name, len(bf.Children))
		}
		// the outer display type of the element decides the level of its box (items of flex and grid
		// containers are blockified by their container and judged there)
		if parent != nil && !bo.FlexContainerT.IsInstance(parent) && !bo.GridContainerT.IsInstance(parent) {
			d := bf.Style.GetDisplay()
			switch {
			case d[0] == "block" && !isBlockLevel(box):
				w.fail("replaced-level:block", "%s has display %v (block-level) but its box is %s", name, d, box.Type())
			case d[0] == "inline" && !isInlineLevel(box):
				w.fail("replaced-level:inline", "%s has display %v (inline-level) but its box is %s", name, d, box.Type())
			}
			w.labels["replaced-display:"+d[0]] = true
		}
	case isTable:
		if parent == nil || !parent.Box().IsTableWrapper {
			w.fail("table-without-wrapper", "%s is not the child of a table wrapper", name)
		}
		for _, c := range bf.Children {
			if !bo.TableRowGroupT.IsInstance(c) {
				w.fail("table-child:"+c.Type().String(), "%s holds %s (only row groups expected once the table is wrapped)", name, c09Name(c))
			}
		}
		for _, g := range box.(bo.TableBoxITF).Table().ColumnGroups {
			if g.IsRunning() {
				continue
			}
			for _, c := range g.Children {
				if !bo.TableColumnT.IsInstance(c) {
					w.fail("colgroup-child:"+c.Type().String(), "column group of %s holds %s", name, c09Name(c))
				}
			}
		}
		w.labels["table"] = true
	case bo.TableRowGroupT.IsInstance(box):
		for _, c := range bf.Children {
			if !bo.TableRowT.IsInstance(c) {
				w.fail("rowgroup-child:"+c.Type().String(), "%s holds %s", name, c09Name(c))
			}
		}
		w.checkGrid(box)
	case bo.TableRowT.IsInstance(box):
		for _, c := range bf.Children {
			if !bo.TableCellT.IsInstance(c) {
				w.fail("row-child:"+c.Type().String(), "%s holds %s", name, c09Name(c))
			}
		}
	case bo.TableColumnGroupT.IsInstance(box), bo.TableColumnT.IsInstance(box):
		// reached only if they stayed in the children lists
	case bo.FlexContainerT.IsInstance(box), bo.GridContainerT.IsInstance(box):
		kind := "flex"
		if bo.GridContainerT.IsInstance(box) {
			kind = "grid"
		}
		w.labels[kind+"-container"] = true
		// float does not apply to the children of a flex or grid container (Flexbox 3, Grid 6.1): a floated
		// child is an item like the others; only absolutely positioned and running children are not
		var items []bo.Box
		for _, c := range bf.Children {
			if cb := c.Box(); !cb.IsAbsolutelyPositioned() && !cb.IsRunning() && !cb.IsFootnote() {
				items = append(items, c)
			}
		}
		for _, c := range items {
			cf := c.Box()
			if !isBlockLevel(c) || bo.TextT.IsInstance(c) || bo.LineT.IsInstance(c) {
				w.fail(kind+"-item-not-blockified:"+c.Type().String(), "%s container %s holds the in-flow %s, which is not block-level", kind, name, c09Name(c))
			}
			if kind == "flex" && !cf.IsFlexItem {
				w.fail("flex-item-unmarked", "in-flow child %s of flex container %s is not marked as flex item", c09Name(c), name)
			}
			if kind == "grid" && !cf.IsGridItem {
				w.fail("grid-item-unmarked", "in-flow child %s of grid container %s is not marked as grid item", c09Name(c), name)
			}
		}
	case bo.LineT.IsInstance(box), bo.InlineT.IsInstance(box):
		for _, c := range inflow {
			if !isInlineLevel(c) {
				w.fail("inline-holds:"+c.Type().String(), "%s holds the in-flow %s, which is not inline-level", name, c09Name(c))
			}
		}
	case bo.BlockContainerT.IsInstance(box):
		nLine, nBlock := 0, 0
		for _, c := range inflow {
			switch {
			case bo.LineT.IsInstance(c):
				nLine++
			case isBlockLevel(c):
				nBlock++
			default:
				w.fail("block-container-holds:"+c.Type().String(), "block container %s holds the in-flow %s (neither block-level nor a line box)", name, c09Name(c))
			}
		}
		if nLine > 0 && nBlock > 0 {
			w.fail("block-container-mixed", "block container %s holds %d line boxes and %d block-level boxes", name, nLine, nBlock)
		}
		if nLine > 1 {
			w.fail("block-container-lines", "block container %s holds %d line boxes before layout", name, nLine)
		}
		if bf.IsTableWrapper {
			nt := 0
			for _, c := range bf.Children {
				switch {
				case bo.TableT.IsInstance(c) || bo.InlineTableT.IsInstance(c):
					nt++
				case bo.TableCaptionT.IsInstance(c):
				default:
					w.fail("wrapper-child:"+c.Type().String(), "table wrapper %s holds %s", name, c09Name(c))
				}
			}
			if nt != 1 {
				w.fail("wrapper-tables", "table wrapper %s holds %d tables", name, nt)
			}
		}
	}
	// table parts sit under their proper parents
	if parent != nil {
		pn := c09Name(parent)
		switch {
		case bo.TableCellT.IsInstance(box) && !bo.TableRowT.IsInstance(parent):
			w.fail("cell-parent:"+parent.Type().String(), "%s is the child of %s, not of a row", name, pn)
		case bo.TableRowT.IsInstance(box) && !bo.TableRowGroupT.IsInstance(parent):
			w.fail("row-parent:"+parent.Type().String(), "%s is the child of %s, not of a row group", name, pn)
		case bo.TableRowGroupT.IsInstance(box) && !(bo.TableT.IsInstance(parent) || bo.InlineTableT.IsInstance(parent)):
			w.fail("rowgroup-parent:"+parent.Type().String(), "%s is the child of %s, not of a table", name, pn)
		case bo.TableCaptionT.IsInstance(box) && !parent.Box().IsTableWrapper:
			w.fail("caption-parent:"+parent.Type().String(), "%s is the child of %s, not of a table wrapper", name, pn)
		case (bo.TableColumnT.IsInstance(box) || bo.TableColumnGroupT.IsInstance(box)):
			w.fail("column-in-children:"+parent.Type().String(), "%s is in the children of %s (columns belong to the table's column groups)", name, pn)
		}
	}
	// CSS 2.1 9.7 / CSS Display 3 2.7: floated and absolutely positioned boxes are blockified
	if (bf.IsFloated() || bf.IsAbsolutelyPositioned()) && !bf.IsFootnote() {
		w.labels["blockified-out-of-flow"] = true
		if !isBlockLevel(box) {
			w.fail("out-of-flow-not-blockified:"+box.Type().String(), "%s is floated or absolutely positioned but is not block-level", name)
		}
	}
	w.checkNone(box)
	for _, c := range bf.Children {
		w.visit(c, box)
	}
}

// display:none subtrees generate nothing
func (w *c09Walker) checkNone(box bo.Box) {
	bf := box.Box()
	name := c09Name(box)
	if el := bf.Element; el != nil {
		for e := (*utils.HTMLNode)(el); e != nil && e.Type == 3; e = (*utils.HTMLNode)(e.Parent) { // html.ElementNode
			st := w.style(e)
			// (the style attribute is read too: box building is free to edit the computed style it was given)
			none := st != nil && st.GetDisplay().Has("none")
			if !none && strings.Contains(e.Get("style"), "display:none") {
				// the root element always gets a (childless) box, whatever its display: the page needs one
				isOwnRoot := e == (*utils.HTMLNode)(el) && (e.Parent == nil || e.Parent.Type != 3)
				none = !isOwnRoot
			}
			if none {
				w.fail("box-in-display-none", "%s exists although <%s> has display:none", name, e.Data)
				break
			}
		}
	}
}

// c09SpanAttr is the HTML mapping of a colspan / rowspan attribute (WHATWG "forming a table":
// colspan clamped to [1, 1000], rowspan to [0, 65534], unparsable -> 1).
func c09SpanAttr(attr string, min, max int) int {
	v, err := strconv.Atoi(strings.TrimSpace(attr))
	if err != nil {
		return 1
	}
	if v < min {
		return min
	}
	if v > max {
		return max
	}
	return v
}

// checkGrid runs the HTML / CSS 2.1 17.5 slot assignment over the cells of a row group (each cell
// takes the first free slot of its row; a cell spanning rows reserves its columns in the rows below,
// clipped to the group) and compares GridX / Colspan / Rowspan with it. Two cells on one slot:
// the one kind the reference algorithm itself produces (a cell spanning columns whose first slot is
// free but which runs into a slot reserved from above, an HTML "table model error") is reported
// under its own signature.
func (w *c09Walker) checkGrid(group bo.Box) {
	rows := group.Box().Children
	type slot [2]int
	occ := map[slot]string{}    // reference occupancy, by any cell
	reserved := map[slot]bool{} // reserved from a row above
	for y, row := range rows {
		x := 0
		for _, cell := range row.Box().Children {
			cf := cell.Box()
			if !bo.TableCellT.IsInstance(cell) {
				return // reported by the row rule
			}
			wantCols, wantRows := cf.Colspan, cf.Rowspan
			if el := cf.Element; el != nil && cf.PseudoType == "" && (el.Data == "td" || el.Data == "th") && el != row.Box().Element {
				n := (*utils.HTMLNode)(el)
				wantCols = c09SpanAttr(n.Get("colspan"), 1, 1000)
				wantRows = c09SpanAttr(n.Get("rowspan"), 0, 65534)
				if wantRows == 0 || wantRows > len(rows)-y {
					wantRows = len(rows) - y
				}
			}
			id := fmt.Sprintf("%s(row %d, GridX %d, Colspan %d, Rowspan %d)", c09Name(cell), y, cf.GridX, cf.Colspan, cf.Rowspan)
			if cf.Colspan != wantCols {
				w.fail("grid-colspan", "%s: its colspan attribute maps to %d", id, wantCols)
				return
			}
			if cf.Rowspan != wantRows || cf.Rowspan < 1 || y+cf.Rowspan > len(rows) {
				w.fail("grid-rowspan", "%s in a row group of %d rows: its rowspan maps to %d", id, len(rows), wantRows)
				return
			}
			for reserved[slot{x, y}] {
				x++
			}
			if cf.GridX != x {
				w.fail("grid-x", "%s: the first free slot of its row is column %d", id, x)
				return
			}
			if cf.Colspan > 1 {
				w.labels["colspan"] = true
			}
			if cf.Rowspan > 1 {
				w.labels["rowspan"] = true
			}
			for dy := 0; dy < cf.Rowspan; dy++ {
				for dx := 0; dx < cf.Colspan; dx++ {
					k := slot{x + dx, y + dy}
					if prev, ok := occ[k]; ok {
						// only reachable with dx > 0 on a slot reserved from above (dy == 0), or below such a slot
						w.labels["slot-overlap"] = true
						w.overlap = fmt.Sprintf("two cells occupy the slot (column %d, row %d) of a row group: %s and %s", k[0], k[1], prev, id)
					}
					occ[k] = id
					if dy > 0 {
						reserved[k] = true
					}
				}
			}
			x += cf.Colspan
		}
	}
}

func c09Check(ci interface{}) Verdict {
	c := ci.(*C09Case)
	h, err := wr.ParseHTML(c.HTML, wr.Opts{Hints: c.Hints})
	if err != nil {
		return Verdict{Excluded: "rejected-by-NewHTML"}
	}
	root, sf, footnotes := wr.BuildBoxesAll(h, nil, c.Hints, wr.SharedFC("pango"))
	w := &c09Walker{labels: map[string]bool{}}
	w.style = func(el *utils.HTMLNode) pr.ElementStyle { return sf.Get(el, "") }
	w.visit(root, nil)
	// the footnote boxes are kept beside the tree until layout
	for _, fb := range footnotes {
		w.labels["footnote-box"] = true
		wr.WalkBoxes(fb, func(b bo.Box) bool { w.checkNone(b); return true })
	}
	var labels []string
	for l := range w.labels {
		labels = append(labels, l)
	}
	if w.nAnon > 0 {
		labels = append(labels, "anonymous-boxes")
	}
	sort.Strings(labels)
	if w.viol == nil && w.overlap != "" {
		w.fail("grid-overlap:colspan-runs-into-rowspan", "%s", w.overlap)
	}
	if w.viol != nil {
		var sb strings.Builder
		c09Dump(root, 0, &sb)
		w.viol.Msg += "\n" + c.HTML + "\n" + sb.String()
		w.viol.Labels = labels
		return *w.viol
	}
	return Verdict{NonTrivial: w.nAnon > 0, Labels: labels}
}

func init() {
	Register(&Prop{
		ID:               "C09",
		Gen:              c09Gen,
		New:              func() interface{} { return &C09Case{} },
		Check:            c09Check,
		CrashIsViolation: false,
		QuickN:           40000,
		ThoroughN:        1500000,
		Rule: "HTML trees of 2-25 elements, depth <= 4 (5 in thorough), over 29 tags (div/span/p/b/a, properly and improperly nested table parts, ul/li, img/input/br/button/select/textarea, a custom tag); six elements in ten get an explicit display among all 25 supported values (block, inline, inline-block, list-item, flow-root, table, inline-table, every table-* value, flex, inline-flex, grid, inline-grid, none, contents), one in four float / position (absolute, fixed, relative, running()) / float:footnote / columns / column-span; colspan/rowspan/span attributes in {0,1,2,3,9,-1,x,70000} on any element; " +
			"0-4 style rules adding ::before/::after/::marker boxes of block/table-cell/table-row/inline-block/grid/floated/absolute display and display overrides for table tags; display on html/body; presentational hints on/off. Pipeline: NewHTML -> GetAllComputedStyles -> BuildFormattingStructure (as boxes_test.go). " +
			"Oracle: a validity predicate written from CSS 2.1 9.2 / 17.2.1, Flexbox 4 and Grid 6 over the resulting tree (see DESIGN.md C09); children out of normal flow and the content of running elements are exempt from the parent/child type rules, as in the repository's own sanityChecks helper. " +
			"Loaded replaced elements (PNG data: URI): block-level box exactly for a block-level outer display type. " +
			"Span attributes also in the spellings 03, 0012, ' 2 ', +2, 0x3, 0b11, 0o2, 1_0, 2.0, 3e0. " +
			"Non-trivial: the tree holds at least one anonymous box (a box sharing element and pseudo type with its parent).",
		ImportantLabels: []string{"table", "flex-container", "grid-container", "colspan", "rowspan", "out-of-flow-child", "anonymous-boxes", "running"},
		Assumptions:     []string{"crashes while building the tree belong to C01 and are excluded"},
	})
}
