package props

import (
	"fmt"
	"strings"

	"pgregory.net/rapid"
)

// C18, reference graphs: a definition that is referenced twice (also by an element and one of its
// descendants) is followed each time; pointing one of the references at an identical copy of the
// definition (another id, same content) draws the same thing. References to missing ids and rings of
// definitions are part of the graphs: both documents ignore them alike, and both must return.

type c18RefDoc struct {
	Defs  []string `json:"defs"`  // definitions, each with the id placeholder %ID%
	IDs   []string `json:"ids"`   // their ids
	Body  string   `json:"body"`  // elements referencing url(#id) / href="#id"
	Which int      `json:"which"` // the reference (occurrence index in Body) redirected to the copy
	Inner []int    `json:"inner"` // per definition: the definition its content references (-1: none)
}

var c18DefKinds = []string{"clip", "clip", "gradient", "pattern", "mask", "marker", "symbol"}

func c18GenRefs(t *rapid.T) *c18RefDoc {
	d := &c18RefDoc{}
	n := rapid.IntRange(1, 3).Draw(t, "ndefs")
	kinds := make([]string, n)
	for i := 0; i < n; i++ {
		id := fmt.Sprintf("d%d", i)
		kinds[i] = rapid.SampledFrom(c18DefKinds).Draw(t, "defkind")
		// a definition may itself reference another one (or itself: a ring, ignored)
		inner := ""
		d.Inner = append(d.Inner, -1)
		if rapid.IntRange(0, 3).Draw(t, "inner") == 0 {
			j := rapid.IntRange(0, n-1).Draw(t, "innerref")
			inner = fmt.Sprintf(` clip-path="url(#d%d)"`, j)
			d.Inner[i] = j
		}
		switch kinds[i] {
		case "clip":
			d.Defs = append(d.Defs, fmt.Sprintf(`<clipPath id="%%ID%%"><rect x="%d" y="%d" width="%d" height="%d"%s/></clipPath>`, rapid.SampledFrom([]int{0, 5, 10}).Draw(t, "cx"), rapid.SampledFrom([]int{0, 5, 10}).Draw(t, "cy"), rapid.SampledFrom([]int{10, 20, 40}).Draw(t, "cw"), rapid.SampledFrom([]int{10, 20, 40}).Draw(t, "ch"), inner))
		case "gradient":
			d.Defs = append(d.Defs, `<linearGradient id="%ID%"><stop offset="0" stop-color="red"/><stop offset="1" stop-color="blue"/></linearGradient>`)
		case "pattern":
			d.Defs = append(d.Defs, `<pattern id="%ID%" width="10" height="10" patternUnits="userSpaceOnUse"><rect width="5" height="5" fill="green"`+inner+`/></pattern>`)
		case "mask":
			d.Defs = append(d.Defs, `<mask id="%ID%"><rect width="30" height="30" fill="white"`+inner+`/></mask>`)
		case "marker":
			d.Defs = append(d.Defs, `<marker id="%ID%" markerWidth="4" markerHeight="4"><circle cx="2" cy="2" r="2"`+inner+`/></marker>`)
		case "symbol":
			d.Defs = append(d.Defs, `<symbol id="%ID%"><rect width="8" height="8" fill="navy"`+inner+`/></symbol>`)
		}
		d.IDs = append(d.IDs, id)
	}
	refAttr := func(k int) string {
		id := d.IDs[k]
		switch kinds[k] {
		case "clip":
			return fmt.Sprintf(` clip-path="url(#%s)"`, id)
		case "gradient", "pattern":
			return fmt.Sprintf(` %s="url(#%s)"`, rapid.SampledFrom([]string{"fill", "stroke"}).Draw(t, "paint"), id)
		case "mask":
			return fmt.Sprintf(` mask="url(#%s)"`, id)
		case "marker":
			// one marker may stand at several vertices of a shape
			switch rapid.IntRange(0, 4).Draw(t, "mpos") {
			case 0:
				return fmt.Sprintf(` marker-start="url(#%s)" marker-end="url(#%s)"`, id, id)
			case 1:
				return fmt.Sprintf(` marker-start="url(#%s)" marker-mid="url(#%s)" marker-end="url(#%s)"`, id, id, id)
			}
			return fmt.Sprintf(` marker-%s="url(#%s)"`, rapid.SampledFrom([]string{"start", "mid", "end"}).Draw(t, "mpos1"), id)
		}
		return ""
	}
	var elem func(depth int) string
	elem = func(depth int) string {
		attrs := ""
		for k := range d.IDs {
			if kinds[k] != "symbol" && rapid.IntRange(0, 2).Draw(t, "hasref") == 0 {
				attrs += refAttr(k)
			}
		}
		if rapid.IntRange(0, 2).Draw(t, "tr") == 0 {
			attrs += fmt.Sprintf(` transform="translate(%d %d)"`, rapid.SampledFrom([]int{-20, -5, 5, 20}).Draw(t, "tx"), rapid.SampledFrom([]int{-20, 0, 10}).Draw(t, "ty"))
		}
		if rapid.IntRange(0, 9).Draw(t, "missing") == 0 {
			attrs += ` clip-path="url(#nowhere)"`
		}
		switch k := rapid.IntRange(0, 5).Draw(t, "ekind"); {
		case k <= 1 && depth > 0:
			var b strings.Builder
			b.WriteString("<g" + attrs + ">")
			for i, m := 0, rapid.IntRange(1, 3).Draw(t, "nkids"); i < m; i++ {
				b.WriteString(elem(depth - 1))
			}
			b.WriteString("</g>")
			return b.String()
		case k == 2:
			for j := range d.IDs {
				if kinds[j] == "symbol" {
					return fmt.Sprintf(`<use href="#%s" x="%d" y="3"%s/>`, d.IDs[j], rapid.SampledFrom([]int{0, 12, 30}).Draw(t, "ux"), attrs)
				}
			}
			fallthrough
		case k == 3:
			return `<path d="M2 2 L30 2 L30 30 L2 30"` + attrs + ` stroke-width="2"/>`
		default:
			return fmt.Sprintf(`<rect x="%d" y="%d" width="40" height="40"%s/>`, rapid.SampledFrom([]int{0, 5, 25}).Draw(t, "rx"), rapid.SampledFrom([]int{0, 5, 25}).Draw(t, "ry"), attrs)
		}
	}
	var body strings.Builder
	for i, m := 0, rapid.IntRange(1, 3).Draw(t, "ntop"); i < m; i++ {
		body.WriteString(elem(2))
	}
	d.Body = body.String()
	nrefs := strings.Count(d.Body, "(#d") + strings.Count(d.Body, `"#d`)
	if nrefs > 0 {
		d.Which = rapid.IntRange(0, nrefs-1).Draw(t, "which")
	}
	return d
}

// c18RefSVG writes the document; with redirect, the Which-th reference of the body points at the copy of
// its definition (the copies are defined in both documents, so that they only differ by that reference).
func c18RefSVG(d *c18RefDoc, redirect bool) (string, string) {
	var defs strings.Builder
	for i, def := range d.Defs {
		defs.WriteString(strings.ReplaceAll(def, "%ID%", d.IDs[i]))
		defs.WriteString(strings.ReplaceAll(def, "%ID%", d.IDs[i]+"copy"))
	}
	body, redirected := d.Body, ""
	if redirect {
		seen := 0
		var b strings.Builder
		for i := 0; i < len(body); {
			if strings.HasPrefix(body[i:], "(#d") || strings.HasPrefix(body[i:], `"#d`) {
				j := i + 3
				for j < len(body) && body[j] >= '0' && body[j] <= '9' {
					j++
				}
				b.WriteString(body[i:j])
				if seen == d.Which {
					b.WriteString("copy")
					redirected = body[i+2 : j]
				}
				seen++
				i = j
				continue
			}
			b.WriteByte(body[i])
			i++
		}
		body = b.String()
	}
	return `<svg xmlns="http://www.w3.org/2000/svg" xmlns:xlink="http://www.w3.org/1999/xlink" width="100" height="100"><defs>` + defs.String() + `</defs>` + body + `</svg>`, redirected
}

func c18Refs(c *C18Case) Verdict {
	d := c.Refs
	labels := []string{"kind:refs"}
	a, _ := c18RefSVG(d, false)
	b, which := c18RefSVG(d, true)
	if which == "" {
		return Verdict{Excluded: "no-reference", Labels: labels}
	}
	ra, err := c18Draw(a, 100, 100)
	if err != nil {
		return Verdict{Excluded: "svg-rejected", Labels: labels}
	}
	// a definition that lies on a ring is not the same thing as its copy (the copy points into the ring
	// without being part of it): such documents only have to return
	var k int
	fmt.Sscanf(which, "d%d", &k)
	for j, steps := k, 0; j >= 0 && j < len(d.Inner) && steps <= len(d.Inner); steps++ {
		j = d.Inner[j]
		if j == k {
			return Verdict{NonTrivial: true, Labels: append(labels, "definition-on-a-ring")}
		}
	}
	rb, err := c18Draw(b, 100, 100)
	if err != nil {
		return Viol("refs:copy-rejected", "the document is rejected once a reference points at a copy of its definition: %v\n%s", err, b)
	}
	// nested: the redirected definition is referenced by an ancestor or descendant as well
	if strings.Count(d.Body, "#"+which+")")+strings.Count(d.Body, "#"+which+`"`) > 1 {
		labels = append(labels, "definition-used-twice")
	}
	if strings.Contains(strings.Join(d.Defs, ""), "clip-path=") {
		labels = append(labels, "definition-references-definition")
	}
	if ta, tb := ra.Trace(), rb.Trace(); ta != tb {
		return Viol("refs:copy-differs", "pointing the reference to %s at an identical copy of the definition changes the drawing: %s\n original: %s\n variant:  %s", which, firstDiff(ta, tb), a, b)
	}
	return Verdict{NonTrivial: len(ra.Events) > 3, Labels: labels}
}
