// Package props holds one module per listed property (C01..C20): a rapid
// generator for cases, an oracle (Check) and the non-triviality rule, plus the
// worker loop that runs them (worker_test.go).
package props

import "verif/harness/internal/core"

type (
	Tier         = core.Tier
	Verdict      = core.Verdict
	Prop         = core.Prop
	Ledger       = core.Ledger
	Stats        = core.Stats
	ViolationRec = core.ViolationRec
)

const (
	Quick    = core.Quick
	Thorough = core.Thorough
)

var (
	Registry    = core.Registry
	Register    = core.Register
	OK          = core.OK
	Viol        = core.Viol
	CaseJSON    = core.CaseJSON
	RunGuarded  = core.RunGuarded
	ParseLedger = core.ParseLedger
	NewStats    = core.NewStats
	Hash64      = core.Hash64
)
