package props

import (
	"encoding/binary"
	"encoding/json"
	"flag"
	"fmt"
	"os"
	"runtime/debug"
	"testing"
	"time"

	"pgregory.net/rapid"
)

var (
	fProp     = flag.String("vprop", "", "property id")
	fTier     = flag.String("vtier", "quick", "quick|thorough")
	fOut      = flag.String("vout", "", "stats output file")
	fInflight = flag.String("vinflight", "", "in-flight case file")
	fLedger   = flag.String("vledger", "", "known-findings ledger")
	fReplay   = flag.String("vreplay", "", "replay file (TestReplay)")
	fShard    = flag.Int("vshard", 0, "shard index")
	fShards   = flag.Int("vshards", 1, "number of shards")
	fSeed     = flag.Uint64("vseed", 1, "derived seed (recorded in violations)")
	fDoc      = flag.String("vdoc", "", "document file (TestTraceOf, child process of C15)")
	fSurvey   = flag.Bool("vsurvey", false, "record violations without stopping (development aid: lists every signature of a campaign)")
	fExh      = flag.Bool("vexhaustive", false, "run the exhaustive enumeration instead of the random campaign")
)

func loadLedger(t testing.TB) *Ledger {
	if *fLedger == "" {
		return &Ledger{}
	}
	b, err := os.ReadFile(*fLedger)
	if err != nil {
		t.Fatalf("INFRA: ledger: %v", err)
	}
	l, err := ParseLedger(string(b))
	if err != nil {
		t.Fatalf("INFRA: %v", err)
	}
	return l
}

type inflight struct{ f *os.File }

func openInflight() *inflight {
	if *fInflight == "" {
		return nil
	}
	f, err := os.OpenFile(*fInflight, os.O_CREATE|os.O_RDWR|os.O_TRUNC, 0o644)
	if err != nil {
		return nil
	}
	return &inflight{f}
}

func (i *inflight) set(cj []byte) {
	if i == nil {
		return
	}
	buf := make([]byte, 8+len(cj))
	binary.LittleEndian.PutUint64(buf, uint64(len(cj)))
	copy(buf[8:], cj)
	i.f.WriteAt(buf, 0)
}

func (i *inflight) clear() {
	if i == nil {
		return
	}
	var z [8]byte
	i.f.WriteAt(z[:], 0)
}

func writeStats(s *Stats) {
	if *fOut == "" {
		return
	}
	s.Finalize()
	b, _ := json.Marshal(s)
	tmp := *fOut + ".tmp"
	if os.WriteFile(tmp, b, 0o644) == nil {
		os.Rename(tmp, *fOut)
	}
}

// judge classifies a verdict against the ledger.
// returns fail=true when the verdict is a violation outside the ledger.
func judge(p *Prop, l *Ledger, s *Stats, v *Verdict) (fail bool) {
	if v.Sig == "" && v.Excluded == "" {
		for _, d := range v.Tolerated {
			if f := l.Match(p.ID, d.Sig); f != nil {
				s.KnownHits[f.ID]++
				if _, ok := s.KnownSigs[f.ID]; !ok {
					s.KnownSigs[f.ID] = d.Sig
				}
				continue
			}
			// not (or no longer) listed: this is the violation of the case
			v.Sig, v.Msg, v.NonTrivial = d.Sig, d.Msg, false
			break
		}
	}
	if v.Sig == "" || v.Excluded != "" {
		return false
	}
	if f := l.Match(p.ID, v.Sig); f != nil {
		s.KnownHits[f.ID]++
		if _, ok := s.KnownSigs[f.ID]; !ok {
			s.KnownSigs[f.ID] = v.Sig
		}
		v.Excluded = "known:" + f.ID
		return false
	}
	if v.Crash && !p.CrashIsViolation {
		if f := l.MatchCrash(v.Sig); f != nil {
			v.Excluded = "crash-known:" + f.ID
		} else {
			v.Excluded = "crash-unlisted"
			s.CrashNotes[v.Sig]++
			v.Msg = "UNLISTED-CRASH " + v.Msg
		}
		return false
	}
	return true
}

func TestWorker(t *testing.T) {
	p := Registry[*fProp]
	if p == nil {
		t.Fatalf("INFRA: unknown property %q", *fProp)
	}
	debug.SetMaxStack(256 << 20)
	tier := Quick
	if *fTier == "thorough" {
		tier = Thorough
	}
	l := loadLedger(t)
	s := NewStats(p.ID)
	inf := openInflight()
	lastWrite := time.Now()
	failed := false

	handle := func(c interface{}, shrinking bool) (fail bool, v Verdict) {
		cj := CaseJSON(c)
		inf.set(cj)
		v, hung := RunGuarded(p, c)
		inf.clear()
		if v.Sig == "INFRA" {
			fmt.Printf("INFRA %s\n", v.Msg)
			writeStats(s)
			os.Exit(5)
		}
		fail = judge(p, l, s, &v)
		if !shrinking {
			s.Record(cj, v)
		}
		if v.Excluded == "crash-unlisted" && len(s.CrashCases) < 5 {
			// keep the input: the crash belongs to C01 but must be triaged
			s.CrashCases = append(s.CrashCases, ViolationRec{Property: p.ID, Sig: v.Sig, Msg: v.Msg, Case: cj, Seed: *fSeed, Tier: tier.String()})
		}
		if fail {
			s.SigCounts[v.Sig]++
			rec := ViolationRec{Property: p.ID, Sig: v.Sig, Msg: v.Msg, Case: cj, Seed: *fSeed, Tier: tier.String(), Shrunk: shrinking}
			// keep one record per signature; a later (smaller) case replaces an earlier one
			replaced := false
			for i := range s.Violations {
				if s.Violations[i].Sig == v.Sig {
					if len(cj) <= len(s.Violations[i].Case) {
						s.Violations[i] = rec
					}
					replaced = true
				}
			}
			if !replaced {
				s.Violations = append(s.Violations, rec)
			}
		}
		if hung {
			// the checking goroutine cannot be stopped: this process must go.
			s.NeedRestart = true
			writeStats(s)
			os.Exit(4)
		}
		if time.Since(lastWrite) > 2*time.Second {
			writeStats(s)
			lastWrite = time.Now()
		}
		return fail, v
	}

	if *fExh {
		if p.Exhaustive == nil {
			t.Fatalf("INFRA: no exhaustive enumeration for %s", p.ID)
		}
		note := p.Exhaustive(*fShard, *fShards, func(c interface{}, v Verdict) {
			cj := CaseJSON(c)
			fail := judge(p, l, s, &v)
			s.Record(cj, v)
			if fail && len(s.Violations) < 5 {
				s.Violations = append(s.Violations, ViolationRec{Property: p.ID, Sig: v.Sig, Msg: v.Msg, Case: cj, Seed: 0, Tier: tier.String()})
			}
		})
		s.Exhaustive = note
		s.Done = true
		writeStats(s)
		if len(s.Violations) > 0 {
			t.Fail()
		}
		return
	}

	defer func() {
		s.Done = true
		writeStats(s)
	}()
	rapid.Check(t, func(rt *rapid.T) {
		c := p.Gen(rt, tier)
		fail, v := handle(c, failed)
		if fail && !*fSurvey {
			failed = true
			rt.Fatalf("violation %s: %s", v.Sig, v.Msg)
		}
	})
}

// TestReplay re-runs Check on a stored case, bypassing rapid.
// Output line: REPLAY sig=<sig or OK>
func TestReplay(t *testing.T) {
	if *fReplay == "" {
		t.Skip("no replay file")
	}
	debug.SetMaxStack(256 << 20)
	b, err := os.ReadFile(*fReplay)
	if err != nil {
		t.Fatalf("INFRA: %v", err)
	}
	var rec ViolationRec
	if err := json.Unmarshal(b, &rec); err != nil {
		t.Fatalf("INFRA: %v", err)
	}
	p := Registry[rec.Property]
	if p == nil {
		t.Fatalf("INFRA: unknown property %q", rec.Property)
	}
	c := p.New()
	if err := json.Unmarshal(rec.Case, c); err != nil {
		t.Fatalf("INFRA: case: %v", err)
	}
	if rec.Sig == "fixed" {
		// the witness of a repaired defect is expected to return: give it five times the watchdog of a
		// generated case, so that a busy machine is not read as the return of a hang
		q := *p
		q.CaseTimeout *= 5
		p = &q
	}
	v, hung := RunGuarded(p, c)
	if v.Sig == "" && v.Excluded == "" && len(v.Tolerated) > 0 {
		// a replay shows the raw deviation, whether the ledger lists it or not
		v.Sig, v.Msg = v.Tolerated[0].Sig, v.Tolerated[0].Msg
	}
	sig := v.Sig
	if sig == "" {
		sig = "OK"
	}
	fmt.Printf("REPLAY sig=%s excluded=%q\n", sig, v.Excluded)
	if v.Msg != "" {
		fmt.Printf("REPLAY-MSG %s\n", v.Msg)
	}
	if hung {
		os.Exit(4)
	}
}

// FuzzTargets maps property id -> native fuzz target names (thorough tier).
var FuzzTargets = map[string][]string{}

func TestInfo(t *testing.T) {
	p := Registry[*fProp]
	if p == nil {
		t.Skip("no property")
	}
	b, _ := json.Marshal(map[string]interface{}{
		"id": p.ID, "rule": p.Rule, "quick_n": p.QuickN, "thorough_n": p.ThoroughN, "race": p.Race,
		"has_exhaustive": p.Exhaustive != nil, "crash_is_violation": p.CrashIsViolation,
		"assumptions": p.Assumptions, "important_labels": p.ImportantLabels,
		"fuzz_targets": FuzzTargets[p.ID], "case_timeout_s": p.CaseTimeout.Seconds(),
	})
	fmt.Printf("INFO %s\n", b)
}

// TestTraceOf renders one document and prints the digest of its backend trace (child process of C15).
func TestTraceOf(t *testing.T) {
	if *fDoc == "" {
		t.Skip("no document")
	}
	c15TraceOf(t, *fDoc)
}

// FuzzProp is the native (coverage-guided) campaign of the thorough tier: the fuzzer's bytes drive the
// property's own rapid generator (rapid.MakeFuzz), the oracle and the ledger triage are the same as in
// TestWorker. A violation outside the ledger is written to -vout as a replay file and fails the target.
func FuzzProp(f *testing.F) {
	p := Registry[*fProp]
	if p == nil {
		f.Skip("no property")
	}
	debug.SetMaxStack(256 << 20)
	l := loadLedger(f)
	s := NewStats(p.ID)
	f.Add([]byte{})
	f.Add([]byte{1, 2, 3, 4, 5, 6, 7, 8, 9, 10, 11, 12, 13, 14, 15, 16})
	f.Add([]byte("\xff\xff\xff\xff\xff\xff\xff\xff\x00\x00\x00\x00\x80\x80\x80\x80\x7f\x7f\x7f\x7f"))
	f.Fuzz(rapid.MakeFuzz(func(t *rapid.T) {
		c := p.Gen(t, Thorough)
		v, _ := RunGuarded(p, c)
		if v.Sig == "INFRA" {
			t.Skip("infrastructure")
		}
		if judge(p, l, s, &v) {
			if *fOut != "" {
				rec := ViolationRec{Property: p.ID, Sig: v.Sig, Msg: v.Msg, Case: CaseJSON(c), Seed: 0, Tier: "thorough-fuzz"}
				b, _ := json.MarshalIndent(rec, "", " ")
				os.WriteFile(fmt.Sprintf("%s.%016x.json", *fOut, Hash64(rec.Case)), b, 0o644)
			}
			t.Fatalf("VIOLATION %s: %s", v.Sig, firstLines(v.Msg, 3))
		}
	}))
}
