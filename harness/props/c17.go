package props

import (
	"fmt"
	"math"
	"strconv"
	"strings"

	"github.com/benoitkugler/webrender/matrix"
	"pgregory.net/rapid"

	"verif/harness/internal/wr"
)

// C17 — Transform functions and matrices follow CSS Transforms / SVG.

type C17Fn struct {
	Name string    `json:"fn"`
	Args []float64 `json:"args"`
	Unit []string  `json:"units,omitempty"` // per argument: px % deg rad grad turn or ""
}

type C17Case struct {
	Kind   string        `json:"kind"` // laws css svg
	M      [3][6]float32 `json:"m,omitempty"`
	P      [2]float32    `json:"p,omitempty"`
	Ang    float32       `json:"ang,omitempty"`
	List   []C17Fn       `json:"list,omitempty"`
	List2  []C17Fn       `json:"list2,omitempty"` // svg: transform of the inner <g>
	W      float64       `json:"w,omitempty"`
	H      float64       `json:"h,omitempty"`
	X      float64       `json:"x,omitempty"`
	Y      float64       `json:"y,omitempty"`
	Origin [2]string     `json:"origin,omitempty"`
	Sep    string        `json:"sep,omitempty"`
	// css: font size of the box; FontSize2 > 0: a second box of the same size follows, styled by the same rule
	FontSize  float64 `json:"font_size,omitempty"`
	FontSize2 float64 `json:"font_size2,omitempty"`
	// css: display of the transformed box ("" = block): the transform and its origin belong to the box that
	// is painted, also when the element generates a wrapper around its principal box (tables)
	Display string `json:"display,omitempty"`
}

type m64 [6]float64 // a b c d e f, column vectors: x' = a x + c y + e ; y' = b x + d y + f

func mul64(t, u m64) m64 {
	return m64{
		t[0]*u[0] + t[2]*u[1], t[1]*u[0] + t[3]*u[1],
		t[0]*u[2] + t[2]*u[3], t[1]*u[2] + t[3]*u[3],
		t[0]*u[4] + t[2]*u[5] + t[4], t[1]*u[4] + t[3]*u[5] + t[5],
	}
}

func apply64(t m64, x, y float64) (float64, float64) {
	return t[0]*x + t[2]*y + t[4], t[1]*x + t[3]*y + t[5]
}

func fromT(t matrix.Transform) m64 {
	return m64{float64(t.A), float64(t.B), float64(t.C), float64(t.D), float64(t.E), float64(t.F)}
}

func toT(m [6]float32) matrix.Transform { return matrix.New(m[0], m[1], m[2], m[3], m[4], m[5]) }

func norm(m m64) float64 {
	s := 0.0
	for _, v := range m {
		s = math.Max(s, math.Abs(v))
	}
	return s
}

func close64(a, b m64, scale float64) (bool, float64) {
	tol := 2e-5*scale + 1e-4
	worst := 0.0
	for i := range a {
		d := math.Abs(a[i] - b[i])
		if math.IsNaN(d) {
			return false, d
		}
		if d > worst {
			worst = d
		}
	}
	return worst <= tol, worst
}

func genEntry(t *rapid.T) float32 {
	switch rapid.IntRange(0, 9).Draw(t, "ek") {
	case 0:
		return 0
	case 1:
		return 1
	case 2:
		return -1
	case 3:
		return float32(rapid.Float64Range(-1e-3, 1e-3).Draw(t, "tiny"))
	case 4:
		return float32(rapid.Float64Range(-1e3, 1e3).Draw(t, "big"))
	default:
		return float32(rapid.Float64Range(-10, 10).Draw(t, "e"))
	}
}

var (
	c17CSSFns = []string{"translate", "translate1", "translatex", "translatey", "scale", "scale1", "scalex", "scaley", "rotate", "skew1", "skewx", "skewy", "matrix"}
	c17SVGFns = []string{"translate", "translate1", "scale", "scale1", "rotate", "rotate3", "skewX", "skewY", "matrix"}
)

func genAngle(t *rapid.T, forTan bool) (float64, string) {
	unit := rapid.SampledFrom([]string{"deg", "deg", "rad", "grad", "turn"}).Draw(t, "aunit")
	deg := rapid.SampledFrom([]float64{0, 10, 30, 45, -45, 60, 80, 100, 135, 180, 200, 270, 350, -10, 12.5, 720, 33}).Draw(t, "deg")
	if forTan {
		deg = rapid.SampledFrom([]float64{0, 10, 30, 45, -45, 60, 80, 100, 135, 180, 200, 350, -10, 12.5, 33}).Draw(t, "tandeg")
	}
	switch unit {
	case "rad":
		return deg * math.Pi / 180, unit
	case "grad":
		return deg * 400 / 360, unit
	case "turn":
		return deg / 360, unit
	}
	return deg, unit
}

func genFn(t *rapid.T, svg bool) C17Fn {
	names := c17CSSFns
	if svg {
		names = c17SVGFns
	}
	f := C17Fn{Name: rapid.SampledFrom(names).Draw(t, "fn")}
	num := func(lo, hi float64) float64 {
		return math.Round(rapid.Float64Range(lo, hi).Draw(t, "num")*100) / 100
	}
	length := func() {
		u := "px"
		if !svg {
			switch rapid.IntRange(0, 5).Draw(t, "pct") {
			case 0, 1:
				u = "%"
			case 2:
				u = "em" // relative to the font size of the transformed box
			}
		}
		if svg {
			u = ""
			if rapid.IntRange(0, 4).Draw(t, "svgem") == 0 {
				u = "em" // of the element's font size
			}
		}
		v := num(-60, 60)
		if u == "em" {
			v = math.Round(v*10) / 100 // a few em
		}
		f.Args = append(f.Args, v)
		f.Unit = append(f.Unit, u)
	}
	angle := func(forTan bool) {
		if svg {
			a, _ := genAngle(t, forTan)
			_ = a
			deg := rapid.SampledFrom([]float64{0, 10, 30, 45, -45, 60, 80, 100, 135, 180, 200, 350, -10, 12.5, 33}).Draw(t, "svgdeg")
			f.Args = append(f.Args, deg)
			f.Unit = append(f.Unit, "")
			return
		}
		a, u := genAngle(t, forTan)
		f.Args = append(f.Args, a)
		f.Unit = append(f.Unit, u)
	}
	scaleArg := func() {
		v := num(-3, 3)
		if math.Abs(v) < 0.05 {
			v = 0.5
		}
		f.Args = append(f.Args, v)
		f.Unit = append(f.Unit, "")
	}
	switch f.Name {
	case "translate":
		length()
		length()
	case "translate1", "translatex", "translatey":
		length()
	case "scale":
		scaleArg()
		scaleArg()
	case "scale1", "scalex", "scaley":
		scaleArg()
	case "rotate":
		angle(false)
	case "rotate3":
		angle(false)
		f.Args = append(f.Args, num(-30, 30), num(-30, 30))
		f.Unit = append(f.Unit, "", "")
	case "skew":
		angle(true)
		angle(true)
	case "skew1", "skewx", "skewy", "skewX", "skewY":
		angle(true)
	case "matrix":
		for i := 0; i < 6; i++ {
			f.Args = append(f.Args, num(-3, 3))
			f.Unit = append(f.Unit, "")
		}
		// keep it invertible
		if math.Abs(f.Args[0]*f.Args[3]-f.Args[1]*f.Args[2]) < 0.05 {
			f.Args[0], f.Args[3], f.Args[1], f.Args[2] = 1, 1.5, 0.25, -0.5
		}
	}
	return f
}

func c17Gen(t *rapid.T, tier Tier) interface{} {
	c := &C17Case{}
	switch rapid.IntRange(0, 5).Draw(t, "kind") {
	case 0, 1, 2:
		c.Kind = "laws"
		for i := range c.M {
			for j := range c.M[i] {
				c.M[i][j] = genEntry(t)
			}
		}
		c.P = [2]float32{genEntry(t), genEntry(t)}
		c.Ang = float32(rapid.Float64Range(-7, 7).Draw(t, "ang"))
		if rapid.IntRange(0, 5).Draw(t, "singular") == 0 {
			// a singular matrix: second column proportional to the first
			k := genEntry(t)
			c.M[0][2], c.M[0][3] = k*c.M[0][0], k*c.M[0][1]
		}
	case 3, 4:
		c.Kind = "css"
		n := rapid.IntRange(1, 4).Draw(t, "n")
		for i := 0; i < n; i++ {
			c.List = append(c.List, genFn(t, false))
		}
		c.W = float64(rapid.IntRange(10, 200).Draw(t, "w"))
		c.H = float64(rapid.IntRange(10, 200).Draw(t, "h"))
		c.X = float64(rapid.IntRange(0, 100).Draw(t, "x"))
		c.Y = float64(rapid.IntRange(0, 100).Draw(t, "y"))
		c.Origin = [2]string{
			rapid.SampledFrom([]string{"", "left", "center", "right", "0", "10px", "25%", "100%", "-5px"}).Draw(t, "ox"),
			rapid.SampledFrom([]string{"", "top", "center", "bottom", "0", "10px", "25%", "100%", "-5px"}).Draw(t, "oy"),
		}
		if c.Origin[0] == "" {
			c.Origin[1] = ""
		}
		c.FontSize = rapid.SampledFrom([]float64{16, 16, 10, 30}).Draw(t, "fs")
		if rapid.IntRange(0, 2).Draw(t, "shared") == 0 {
			c.FontSize2 = rapid.SampledFrom([]float64{16, 8, 20, 40}).Draw(t, "fs2")
		} else if rapid.IntRange(0, 1).Draw(t, "disp") == 0 {
			c.Display = rapid.SampledFrom([]string{"table", "table", "flow-root", "flex", "grid"}).Draw(t, "display")
		}
	default:
		c.Kind = "svg"
		n := rapid.IntRange(1, 4).Draw(t, "n")
		for i := 0; i < n; i++ {
			c.List = append(c.List, genFn(t, true))
		}
		m := rapid.IntRange(0, 2).Draw(t, "n2")
		for i := 0; i < m; i++ {
			c.List2 = append(c.List2, genFn(t, true))
		}
		c.Sep = rapid.SampledFrom([]string{" ", ",", ", ", "  "}).Draw(t, "sep")
	}
	return c
}

func angleToRad(v float64, unit string) float64 {
	switch unit {
	case "rad":
		return v
	case "grad":
		return v * math.Pi / 200
	case "turn":
		return v * 2 * math.Pi
	}
	return v * math.Pi / 180
}

// specMatrix returns the matrix CSS Transforms 1 / SVG 1.1 define for one function.
func specMatrix(f C17Fn, w, h float64) m64 { return specMatrixFont(f, w, h, 16) }

// specMatrixFont: font is the font size of the box, in px (the reference of em lengths)
func specMatrixFont(f C17Fn, w, h, font float64) m64 {
	length := func(i int, ref float64) float64 {
		switch f.Unit[i] {
		case "%":
			return f.Args[i] * ref / 100
		case "em":
			return f.Args[i] * font
		}
		return f.Args[i]
	}
	switch f.Name {
	case "translate":
		return m64{1, 0, 0, 1, length(0, w), length(1, h)}
	case "translate1", "translatex":
		return m64{1, 0, 0, 1, length(0, w), 0}
	case "translatey":
		return m64{1, 0, 0, 1, 0, length(0, h)}
	case "scale":
		return m64{f.Args[0], 0, 0, f.Args[1], 0, 0}
	case "scale1":
		return m64{f.Args[0], 0, 0, f.Args[0], 0, 0}
	case "scalex":
		return m64{f.Args[0], 0, 0, 1, 0, 0}
	case "scaley":
		return m64{1, 0, 0, f.Args[0], 0, 0}
	case "rotate":
		a := angleToRad(f.Args[0], f.Unit[0])
		return m64{math.Cos(a), math.Sin(a), -math.Sin(a), math.Cos(a), 0, 0}
	case "rotate3":
		a := angleToRad(f.Args[0], "")
		r := m64{math.Cos(a), math.Sin(a), -math.Sin(a), math.Cos(a), 0, 0}
		return mul64(mul64(m64{1, 0, 0, 1, f.Args[1], f.Args[2]}, r), m64{1, 0, 0, 1, -f.Args[1], -f.Args[2]})
	case "skew":
		return m64{1, math.Tan(angleToRad(f.Args[1], f.Unit[1])), math.Tan(angleToRad(f.Args[0], f.Unit[0])), 1, 0, 0}
	case "skew1", "skewx", "skewX":
		return m64{1, 0, math.Tan(angleToRad(f.Args[0], f.Unit[0])), 1, 0, 0}
	case "skewy", "skewY":
		return m64{1, math.Tan(angleToRad(f.Args[0], f.Unit[0])), 0, 1, 0, 0}
	case "matrix":
		return m64{f.Args[0], f.Args[1], f.Args[2], f.Args[3], f.Args[4], f.Args[5]}
	}
	return m64{1, 0, 0, 1, 0, 0}
}

func fnText(f C17Fn, svg bool, sep string) string {
	name := f.Name
	switch name {
	case "translate1":
		name = "translate"
	case "scale1":
		name = "scale"
	case "skew1":
		name = "skew"
	case "rotate3":
		name = "rotate"
	case "translatex":
		name = "translateX"
	case "translatey":
		name = "translateY"
	case "scalex":
		name = "scaleX"
	case "scaley":
		name = "scaleY"
	case "skewx":
		name = "skewX"
	case "skewy":
		name = "skewY"
	}
	var args []string
	for i, a := range f.Args {
		s := fmt.Sprintf("%g", a)
		if svg && f.Unit[i] == "em" {
			s += "em"
		}
		if !svg {
			s += f.Unit[i]
			if f.Unit[i] == "" && (name == "translate" || name == "translateX" || name == "translateY") {
				s += "px"
			}
		}
		args = append(args, s)
	}
	if svg {
		return name + "(" + strings.Join(args, sep) + ")"
	}
	return name + "(" + strings.Join(args, ", ") + ")"
}

func originOffset(s string, ref float64, def float64) float64 {
	switch s {
	case "":
		return def
	case "left", "top", "0":
		return 0
	case "center":
		return ref / 2
	case "right", "bottom":
		return ref
	}
	if strings.HasSuffix(s, "%") {
		v, _ := strconv.ParseFloat(strings.TrimSuffix(s, "%"), 64)
		return v * ref / 100
	}
	v, _ := strconv.ParseFloat(strings.TrimSuffix(s, "px"), 64)
	return v
}

func c17Laws(c *C17Case) Verdict {
	T, U, V := toT(c.M[0]), toT(c.M[1]), toT(c.M[2])
	t64, u64, v64 := fromT(T), fromT(U), fromT(V)
	labels := []string{"kind:laws"}
	// scale for tolerances: products of entry magnitudes
	s2 := math.Max(1, norm(t64)) * math.Max(1, norm(u64))
	s3 := s2 * math.Max(1, norm(v64))
	chk := func(name string, got matrix.Transform, want m64, scale float64) *Verdict {
		if ok, d := close64(fromT(got), want, scale); !ok {
			v := Viol("law:"+name, "%s: got %v, expected %v (|d|=%g) for T=%v U=%v V=%v", name, got, want, d, T, U, V)
			return &v
		}
		return nil
	}
	id := matrix.Identity()
	if matrix.Mul(id, T) != T || matrix.Mul(T, id) != T {
		return Viol("law:identity", "Mul with identity changes %v", T)
	}
	if v := chk("mul", matrix.Mul(T, U), mul64(t64, u64), s2); v != nil {
		return *v
	}
	if v := chk("associativity", matrix.Mul(matrix.Mul(T, U), V), mul64(t64, mul64(u64, v64)), s3); v != nil {
		return *v
	}
	if v := chk("associativity-right", matrix.Mul(T, matrix.Mul(U, V)), mul64(mul64(t64, u64), v64), s3); v != nil {
		return *v
	}
	if v := chk("mul3", matrix.Mul3(T, U, V), mul64(t64, mul64(u64, v64)), s3); v != nil {
		return *v
	}
	// Apply is a homomorphism
	px, py := float64(c.P[0]), float64(c.P[1])
	ax, ay := matrix.Mul(T, U).Apply(c.P[0], c.P[1])
	ux, uy := apply64(u64, px, py)
	wx, wy := apply64(t64, ux, uy)
	ps := s2 * math.Max(1, math.Max(math.Abs(px), math.Abs(py)))
	if math.Abs(float64(ax)-wx) > 2e-5*ps+1e-4 || math.Abs(float64(ay)-wy) > 2e-5*ps+1e-4 {
		return Viol("law:apply-homomorphism", "Apply(Mul(T,U),p)=(%v,%v) but Apply(T,Apply(U,p))=(%v,%v) T=%v U=%v p=%v", ax, ay, wx, wy, T, U, c.P)
	}
	bx, by := T.Apply(c.P[0], c.P[1])
	ex, ey := apply64(t64, px, py)
	if math.Abs(float64(bx)-ex) > 2e-5*ps+1e-4 || math.Abs(float64(by)-ey) > 2e-5*ps+1e-4 {
		return Viol("law:apply", "Apply(T,p)=(%v,%v) expected (%v,%v)", bx, by, ex, ey)
	}
	// LeftMultBy / RightMultBy
	l := T
	l.LeftMultBy(U)
	if v := chk("leftmultby", l, mul64(u64, t64), s2); v != nil {
		return *v
	}
	r := T
	r.RightMultBy(U)
	if v := chk("rightmultby", r, mul64(t64, u64), s2); v != nil {
		return *v
	}
	// determinant
	det := float64(T.A)*float64(T.D) - float64(T.B)*float64(T.C)
	if math.Abs(float64(T.Determinant())-det) > 1e-5*math.Max(1, norm(t64)*norm(t64)) {
		return Viol("law:determinant", "Determinant(%v)=%v expected %v", T, T.Determinant(), det)
	}
	dTU := float64(matrix.Mul(T, U).Determinant())
	dU := float64(U.A)*float64(U.D) - float64(U.B)*float64(U.C)
	if math.Abs(dTU-det*dU) > 1e-4*math.Max(1, s2*s2) {
		return Viol("law:determinant-multiplicative", "det(TU)=%v, det T det U=%v", dTU, det*dU)
	}
	// in-place operations equal right multiplication by the constructor
	tx, ty := c.P[0], c.P[1]
	inT := T
	inT.Translate(tx, ty)
	if v := chk("translate-inplace", inT, mul64(t64, m64{1, 0, 0, 1, float64(tx), float64(ty)}), s2*math.Max(1, math.Abs(px)+math.Abs(py))); v != nil {
		return *v
	}
	inS := T
	inS.Scale(tx, ty)
	if v := chk("scale-inplace", inS, mul64(t64, m64{float64(tx), 0, 0, float64(ty), 0, 0}), s2*math.Max(1, math.Abs(px)+math.Abs(py))); v != nil {
		return *v
	}
	a := float64(c.Ang)
	inR := T
	inR.Rotate(c.Ang)
	if v := chk("rotate-inplace", inR, mul64(t64, m64{math.Cos(a), math.Sin(a), -math.Sin(a), math.Cos(a), 0, 0}), norm(t64)*2+1); v != nil {
		return *v
	}
	if v := chk("rotation-constructor", matrix.Rotation(c.Ang), m64{math.Cos(a), math.Sin(a), -math.Sin(a), math.Cos(a), 0, 0}, 1); v != nil {
		return *v
	}
	// skew with moderate tangents
	sa, sb := float64(c.Ang)/6, float64(c.P[0])
	sb = math.Mod(sb, 1.2)
	if math.Abs(math.Tan(sa)) < 50 && math.Abs(math.Tan(sb)) < 50 {
		sk := m64{1, math.Tan(sb), math.Tan(sa), 1, 0, 0}
		if v := chk("skew-constructor", matrix.Skew(float32(sa), float32(sb)), sk, 50); v != nil {
			return *v
		}
		inK := T
		inK.Skew(float32(sa), float32(sb))
		if v := chk("skew-inplace", inK, mul64(t64, sk), norm(t64)*100+1); v != nil {
			return *v
		}
	}
	if v := chk("translation-constructor", matrix.Translation(tx, ty), m64{1, 0, 0, 1, float64(tx), float64(ty)}, 1); v != nil {
		return *v
	}
	if v := chk("scaling-constructor", matrix.Scaling(tx, ty), m64{float64(tx), 0, 0, float64(ty), 0, 0}, 1); v != nil {
		return *v
	}
	// inverse
	inv := T
	err := inv.Invert()
	det32 := T.Determinant()
	nontrivial := false
	if det32 == 0 {
		labels = append(labels, "singular")
		if err == nil {
			return Viol("law:invert-singular", "Invert of singular %v returns no error", T)
		}
	} else {
		if err != nil {
			return Viol("law:invert-error", "Invert(%v) fails although det=%v", T, det32)
		}
		n2 := norm(t64) * norm(t64)
		if math.Abs(det) > 1e-3*math.Max(n2, 1e-6) {
			nontrivial = true
			labels = append(labels, "well-conditioned")
			cond := math.Max(1, n2/math.Abs(det))
			i64 := fromT(inv)
			// judge the float32 result against the exact inverse, scaled by the conditioning
			exact := m64{t64[3] / det, -t64[1] / det, -t64[2] / det, t64[0] / det, (t64[2]*t64[5] - t64[3]*t64[4]) / det, (t64[1]*t64[4] - t64[0]*t64[5]) / det}
			tolScale := math.Max(1, norm(exact)) * cond
			if ok, d := close64(i64, exact, tolScale*10); !ok {
				return Viol("law:inverse", "Invert(%v) = %v, exact inverse %v (|d|=%g)", T, inv, exact, d)
			}
			// two-sided
			for side, prod := range []m64{mul64(t64, i64), mul64(i64, t64)} {
				if ok, d := close64(prod, m64{1, 0, 0, 1, 0, 0}, tolScale*10*math.Max(1, norm(t64))); !ok {
					return Viol("law:inverse-two-sided", "side %d: T*inv = %v (|d|=%g) for T=%v", side, prod, d, T)
				}
			}
		} else {
			labels = append(labels, "ill-conditioned")
		}
	}
	return Verdict{NonTrivial: nontrivial, Labels: labels}
}

func c17CSS(c *C17Case) Verdict {
	var parts []string
	for _, f := range c.List {
		parts = append(parts, fnText(f, false, ""))
	}
	origin := ""
	if c.Origin[0] != "" {
		origin = "transform-origin:" + c.Origin[0] + " " + c.Origin[1] + ";"
	}
	font := c.FontSize
	if font == 0 {
		font = 16
	}
	type c17Box struct{ x, y, font float64 }
	boxes := []c17Box{{c.X, c.Y, font}}
	var doc string
	if c.FontSize2 > 0 {
		// two boxes styled by one rule: the computed transform of each depends on its own font size
		boxes = append(boxes, c17Box{c.X, c.Y + c.H, c.FontSize2})
		doc = fmt.Sprintf(`<!DOCTYPE html><html><head><style>@page{size:600px 600px;margin:0}html,body{margin:0;padding:0}.t{width:%gpx;height:%gpx;margin-left:%gpx;background:rgb(1,2,3);transform:%s;%s}</style></head><body><div class="t" style="margin-top:%gpx;font-size:%gpx"></div><div class="t" style="font-size:%gpx"></div></body></html>`,
			c.W, c.H, c.X, strings.Join(parts, " "), origin, c.Y, font, c.FontSize2)
	} else {
		disp := ""
		if c.Display != "" {
			disp = "display:" + c.Display + ";"
		}
		doc = fmt.Sprintf(`<!DOCTYPE html><html><head><style>@page{size:600px 600px;margin:0}html,body{margin:0;padding:0}</style></head><body><div style="%smargin:%gpx 0 0 %gpx;width:%gpx;height:%gpx;font-size:%gpx;background:rgb(1,2,3);transform:%s;%s"></div></body></html>`,
			disp, c.Y, c.X, c.W, c.H, font, strings.Join(parts, " "), origin)
	}
	labels := []string{"kind:css"}
	for _, f := range c.List {
		labels = append(labels, "css:"+f.Name)
		for _, u := range f.Unit {
			if u != "" {
				labels = append(labels, "unit:"+u)
			}
		}
	}
	if c.Origin[0] != "" {
		labels = append(labels, "origin-set")
	}
	if len(boxes) == 2 {
		labels = append(labels, "shared-rule")
	}
	if c.Display != "" {
		labels = append(labels, "display:"+c.Display)
	}
	r, err := wr.Render(doc, wr.Opts{})
	if err != nil {
		return Verdict{Excluded: "html-rejected", Labels: labels}
	}
	var got []m64
	n := 0
	for _, e := range r.Rec.Events {
		if e.Op == "Transform" {
			n++
			if n > 2 { // the first two are the page set-up (flip, zoom)
				got = append(got, m64{float64(e.F[0]), float64(e.F[1]), float64(e.F[2]), float64(e.F[3]), float64(e.F[4]), float64(e.F[5])})
			}
		}
	}
	// expected, box by box (painted in tree order)
	var exps []m64
	var scales []float64
	for _, b := range boxes {
		ox := b.x + originOffset(c.Origin[0], c.W, c.W/2)
		oy := b.y + originOffset(c.Origin[1], c.H, c.H/2)
		if c.Origin[0] != "" && c.Origin[1] == "" {
			oy = b.y + c.H/2
		}
		exp := m64{1, 0, 0, 1, ox, oy}
		scale := 1.0
		for _, f := range c.List {
			m := specMatrixFont(f, c.W, c.H, b.font)
			exp = mul64(exp, m)
			scale *= math.Max(1, norm(m))
		}
		exp = mul64(exp, m64{1, 0, 0, 1, -ox, -oy})
		det := exp[0]*exp[3] - exp[1]*exp[2]
		if math.Abs(det) < 1e-4 {
			return Verdict{Excluded: "singular-list", Labels: labels}
		}
		exps = append(exps, exp)
		scales = append(scales, scale*math.Max(1, math.Abs(ox)+math.Abs(oy)))
	}
	identity := true
	for _, exp := range exps {
		if ok, _ := close64(exp, m64{1, 0, 0, 1, 0, 0}, 1); !ok {
			identity = false
		}
	}
	if identity && len(got) == 0 {
		return Verdict{Labels: append(labels, "identity-list")}
	}
	if len(got) != len(boxes) {
		return Viol("css:transform-calls", "expected exactly one Transform call per box (%d), got %d\n%s", len(boxes), len(got), doc)
	}
	for i, exp := range exps {
		if ok, d := close64(got[i], exp, scales[i]*5); !ok {
			sig := "css:matrix"
			if len(c.List) == 1 {
				sig += ":" + c.List[0].Name
			}
			if i > 0 {
				sig += ":second-box-of-a-rule"
			}
			return Viol(sig, "transform %q origin %v on box %d (%gx%g at (%g,%g), font-size %gpx): backend got %v, specification gives %v (|d|=%g)\n%s", strings.Join(parts, " "), c.Origin, i, c.W, c.H, boxes[i].x, boxes[i].y, boxes[i].font, got[i], exp, d, doc)
		}
	}
	nt := len(c.List) >= 2 || c.Origin[0] != ""
	for _, f := range c.List {
		if strings.HasPrefix(f.Name, "skew") {
			nt = true
		}
	}
	return Verdict{NonTrivial: nt, Labels: labels}
}

func c17SVG(c *C17Case) Verdict {
	text := func(l []C17Fn) string {
		var parts []string
		for _, f := range l {
			parts = append(parts, fnText(f, true, c.Sep))
		}
		return strings.Join(parts, rapid17Sep(c.Sep))
	}
	inner := `<rect x="1" y="2" width="3" height="4" fill="red"/>`
	if len(c.List2) > 0 {
		inner = `<g transform="` + text(c.List2) + `">` + inner + `</g>`
	}
	doc := `<svg xmlns="http://www.w3.org/2000/svg" width="200" height="200" font-size="20"><g transform="` + text(c.List) + `">` + inner + `</g></svg>`
	labels := []string{"kind:svg"}
	for _, f := range append(append([]C17Fn{}, c.List...), c.List2...) {
		labels = append(labels, "svg:"+f.Name)
	}
	if len(c.List2) > 0 {
		labels = append(labels, "nested-g")
	}
	img, err := wr.ParseSVG(doc, "http://base/")
	if err != nil {
		return Viol("svg:rejects-valid-transform", "svg.Parse rejects %s: %v", doc, err)
	}
	rec := wr.NewRecorder()
	page := rec.AddPage(0, 0, 200, 200)
	img.Draw(page, 200, 200, wr.NewTextCtx("pango"))
	exp := m64{1, 0, 0, 1, 0, 0}
	scale := 1.0
	for _, f := range append(append([]C17Fn{}, c.List...), c.List2...) {
		m := specMatrixFont(f, 0, 0, 20)
		exp = mul64(exp, m)
		scale *= math.Max(1, norm(m))
	}
	for _, l := range [][]C17Fn{c.List, c.List2} {
		p := m64{1, 0, 0, 1, 0, 0}
		for _, f := range l {
			p = mul64(p, specMatrixFont(f, 0, 0, 20))
		}
		if len(l) > 0 && math.Abs(p[0]*p[3]-p[1]*p[2]) < 1e-4 {
			return Verdict{Excluded: "singular-list", Labels: labels}
		}
	}
	for _, e := range rec.Events {
		if e.Op == "Rectangle" && len(e.F) == 4 && e.F[0] == 1 && e.F[1] == 2 {
			got := m64{float64(e.CTM[0]), float64(e.CTM[1]), float64(e.CTM[2]), float64(e.CTM[3]), float64(e.CTM[4]), float64(e.CTM[5])}
			if ok, d := close64(got, exp, scale*5); !ok {
				sig := "svg:matrix"
				if len(c.List) == 1 && len(c.List2) == 0 {
					sig += ":" + c.List[0].Name
				}
				return Viol(sig, "%s: the rectangle is drawn under the matrix %v, the transform lists give %v (|d|=%g)", doc, got, exp, d)
			}
			nt := len(c.List)+len(c.List2) >= 2
			for _, f := range c.List {
				if strings.HasPrefix(f.Name, "skew") || f.Name == "rotate3" {
					nt = true
				}
			}
			return Verdict{NonTrivial: nt, Labels: labels}
		}
	}
	return Viol("svg:rect-not-drawn", "%s: the probe rectangle was not drawn", doc)
}

func rapid17Sep(s string) string {
	if s == "," || s == ", " {
		return " "
	}
	return s
}

func c17Check(ci interface{}) Verdict {
	c := ci.(*C17Case)
	switch c.Kind {
	case "laws":
		return c17Laws(c)
	case "css":
		return c17CSS(c)
	default:
		return c17SVG(c)
	}
}

func init() {
	Register(&Prop{
		ID:               "C17",
		Gen:              c17Gen,
		New:              func() interface{} { return &C17Case{} },
		Check:            c17Check,
		CrashIsViolation: true,
		QuickN:           120000,
		ThoroughN:        2000000,
		Rule: "Three families. laws: three matrices with entries from {0, +-1, tiny, [-10,10], [-1e3,1e3]} (one in six made singular), a point and an angle; checked in float64 with float32-aware tolerance (2e-5 x product of magnitudes + 1e-4): Mul against the definition, associativity, Mul3, identity (exact), Apply homomorphism, LeftMultBy/RightMultBy, determinant and its multiplicativity, in-place Translate/Scale/Rotate/Skew = right multiplication by the specification matrix of the constructor, constructors against CSS Transforms section 13 matrices, Invert errors iff det == 0 and is a two-sided inverse (vs the exact inverse, tolerance scaled by conditioning) when |det| > 1e-3 norm^2. " +
			"css: a block of generated size/position with a transform list of 1-4 functions (translate/X/Y with px and %, scale/X/Y, rotate and skew/X/Y in deg/rad/grad/turn, matrix) and a transform-origin (keywords, px, %); the single Transform call issued for the box must equal T(origin) M1..Mn T(-origin) computed from the specification matrices. " +
			"svg: <g transform=list> (optionally a nested <g>) around a probe <rect>, list of translate/scale/rotate(a[,cx,cy])/skewX/skewY/matrix with comma or space separators; the current transformation matrix under which the rectangle is emitted must equal the left-to-right product. Singular lists are excluded (counted). " +
			"One single-box scene in two gives the box display table / flow-root / flex / grid. " +
			"Non-trivial: laws with a well-conditioned matrix; lists with >= 2 functions, a skew, a rotate about a point or a non-default origin.",
		ImportantLabels: []string{"kind:laws", "kind:css", "kind:svg", "well-conditioned", "singular", "origin-set", "nested-g", "css:skewx", "css:skewy", "svg:skewX", "svg:rotate3", "unit:%", "unit:grad", "unit:turn", "unit:rad"},
		Assumptions:     []string{"geometric tolerance: 2e-5 x (product of operand magnitudes) + 1e-4, the code computes in float32"},
	})
}
