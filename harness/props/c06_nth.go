package props

import (
	"regexp"
	"strconv"
	"strings"

	"pgregory.net/rapid"

	"verif/harness/internal/tok"
)

// The An+B microsyntax of CSS Syntax 3 (section 6), read from the reference tokens.

var c06NthAtoms = []string{"n", "N", "-n", "+n", "n-", "-n-", "2n", "+2n", "-2n", "3n-", "n-1", "-n-2", "2n-3", "+", "-", "1", "+1", "-1", "+0", "-0", "0", "7",
	"odd", "even", "ODD", " ", "  ", "\t", "/**/", "2.0", "1e1", "2.0n", "x", "\\6e", "n-x", "\n"}

func c06NthGen(t *rapid.T) string {
	n := rapid.IntRange(1, 5).Draw(t, "natoms")
	var b strings.Builder
	for i := 0; i < n; i++ {
		b.WriteString(rapid.SampledFrom(c06NthAtoms).Draw(t, "atom"))
	}
	return b.String()
}

var c06NDashDigits = regexp.MustCompile(`^n-[0-9]+$`)

// c06RefNth: (a, b, true) when the significant tokens of l form an <an+b>, else ok = false
func c06RefNth(l []tok.Tok) (a, b int, ok bool) {
	// white space is allowed between tokens, except after a leading '+' that stands for the sign of n
	var sig []tok.Tok
	wsAfterFirst := false
	for _, t := range l {
		if t.Kind == "whitespace" || t.Kind == "comment" {
			if len(sig) == 1 && t.Kind == "whitespace" {
				wsAfterFirst = true
			}
			continue
		}
		sig = append(sig, t)
	}
	if len(sig) == 0 {
		return 0, 0, false
	}
	lower := func(s string) string {
		return strings.Map(func(r rune) rune {
			if r >= 'A' && r <= 'Z' {
				return r + 32
			}
			return r
		}, s)
	}
	isInt := func(t tok.Tok) bool { return t.Kind == "number" && t.Int }
	signed := func(t tok.Tok) bool { return isInt(t) && (t.Repr[0] == '+' || t.Repr[0] == '-') }
	signless := func(t tok.Tok) bool { return isInt(t) && t.Repr[0] >= '0' && t.Repr[0] <= '9' }
	val := func(s string) int { v, _ := strconv.Atoi(strings.TrimPrefix(s, "+")); return v }

	first, rest := sig[0], sig[1:]
	// the part holding n: a, and what may follow it
	const (
		complete = iota // nothing may follow
		nPart           // n: [signed] | ['+'|'-' signless] | nothing
		nDash           // n-: signless is required
	)
	kind := -1
	fromIdent := func(id string, sign int) bool {
		switch {
		case id == "n":
			a, kind = sign, nPart
		case id == "n-":
			a, kind = sign, nDash
		case c06NDashDigits.MatchString(id):
			a, b, kind = sign, val(id[1:]), complete
		default:
			return false
		}
		return true
	}
	switch first.Kind {
	case "number":
		if !isInt(first) {
			return 0, 0, false
		}
		a, b, kind = 0, val(first.Repr), complete
	case "dimension":
		if !first.Int {
			return 0, 0, false
		}
		if !fromIdent(lower(first.Unit), val(first.Repr)) {
			return 0, 0, false
		}
	case "ident":
		id := lower(first.Value)
		switch {
		case id == "odd":
			a, b, kind = 2, 1, complete
		case id == "even":
			a, b, kind = 2, 0, complete
		case strings.HasPrefix(id, "-"):
			if !fromIdent(id[1:], -1) {
				return 0, 0, false
			}
		default:
			if !fromIdent(id, 1) {
				return 0, 0, false
			}
		}
	case "literal":
		if first.Value != "+" || wsAfterFirst || len(rest) == 0 || rest[0].Kind != "ident" {
			return 0, 0, false
		}
		// (a comment between '+' and n is no white space; the lists compared here are tokenized without comments)
		if !fromIdent(lower(rest[0].Value), 1) {
			return 0, 0, false
		}
		rest = rest[1:]
	default:
		return 0, 0, false
	}
	switch kind {
	case complete:
		return a, b, len(rest) == 0
	case nPart:
		switch {
		case len(rest) == 0:
			return a, 0, true
		case len(rest) == 1 && signed(rest[0]):
			return a, val(rest[0].Repr), true
		case len(rest) == 2 && rest[0].Kind == "literal" && (rest[0].Value == "+" || rest[0].Value == "-") && signless(rest[1]):
			b = val(rest[1].Repr)
			if rest[0].Value == "-" {
				b = -b
			}
			return a, b, true
		}
		return 0, 0, false
	case nDash:
		if len(rest) == 1 && signless(rest[0]) {
			return a, -val(rest[0].Repr), true
		}
	}
	return 0, 0, false
}
