package props

import (
	"fmt"
	"math"
	"sort"
	"strconv"
	"strings"

	pr "github.com/benoitkugler/webrender/css/properties"
	bo "github.com/benoitkugler/webrender/html/boxes"
	"pgregory.net/rapid"

	"verif/harness/internal/wr"
)

// C10 — Block-level boxes are sized and stacked per CSS 2.1.
//
// Reference layout of the fragment of CSS 2.1 the property names: 10.3.3 (width equation),
// 10.4 (min/max-width), 8.3 / 8.4 (percentages against the containing block width), 8.3.1 (collapsing
// margins by sets of adjoining margins), 10.6.3 / 10.7 (auto height, min/max-height).

type C10Node struct {
	// specified values as CSS text ("" = not declared)
	ML, MR, MT, MB string
	PL, PR, PT, PB string
	BL, BR, BT, BB int
	W, MinW, MaxW  string
	H, MinH, MaxH  string
	BorderBox      bool
	Kids           []C10Node `json:",omitempty"`
}

type C10Case struct {
	CW   int     `json:"cw"` // width of the outermost containing block
	Root C10Node `json:"root"`
}

func c10Len(t *rapid.T, label string, vals []string) string {
	return rapid.SampledFrom(vals).Draw(t, label)
}

func c10GenNode(t *rapid.T, depth int, budget *int) C10Node {
	*budget--
	var n C10Node
	hm := []string{"", "", "", "0", "5px", "10px", "20px", "-5px", "-10px", "33px", "10%", "-5%", "auto", "auto"}
	vm := []string{"", "", "0", "5px", "10px", "20px", "-5px", "-10px", "33px", "10%", "-5%", "auto"}
	pd := []string{"", "", "", "", "3px", "10px", "5%"}
	bd := []int{0, 0, 0, 0, 1, 2, 5}
	n.ML, n.MR = c10Len(t, "ml", hm), c10Len(t, "mr", hm)
	n.MT, n.MB = c10Len(t, "mt", vm), c10Len(t, "mb", vm)
	if rapid.IntRange(0, 2).Draw(t, "haspad") == 0 {
		n.PL, n.PR, n.PT, n.PB = c10Len(t, "pl", pd), c10Len(t, "pr", pd), c10Len(t, "pt", pd), c10Len(t, "pb", pd)
	}
	if rapid.IntRange(0, 2).Draw(t, "hasborder") == 0 {
		n.BL, n.BR, n.BT, n.BB = rapid.SampledFrom(bd).Draw(t, "bl"), rapid.SampledFrom(bd).Draw(t, "br"), rapid.SampledFrom(bd).Draw(t, "bt"), rapid.SampledFrom(bd).Draw(t, "bb")
	}
	n.W = c10Len(t, "w", []string{"", "", "", "", "0", "50px", "100px", "300px", "1000px", "50%", "100%", "120%"})
	n.MinW = c10Len(t, "minw", []string{"", "", "", "", "", "30px", "150px", "50%"})
	n.MaxW = c10Len(t, "maxw", []string{"", "", "", "", "", "40px", "200px", "60%"})
	n.BorderBox = rapid.IntRange(0, 3).Draw(t, "bs") == 0
	nk := 0
	if depth > 0 && *budget > 0 {
		nk = rapid.IntRange(0, 3).Draw(t, "nkids")
	}
	for i := 0; i < nk && *budget > 0; i++ {
		n.Kids = append(n.Kids, c10GenNode(t, depth-1, budget))
	}
	n.H = c10Len(t, "h", []string{"", "", "", "", "", "0", "10px", "40px", "50%", "120%"})
	if len(n.Kids) == 0 {
		n.H = c10Len(t, "hleaf", []string{"", "0", "10px", "40px", "20px", "25px", "10px", "40px", "50%", "150%"})
		n.MinH = c10Len(t, "minh", []string{"", "", "", "", "15px", "60px", "50%"})
		n.MaxH = c10Len(t, "maxh", []string{"", "", "", "", "5px", "30px", "50%", "10%"})
	}
	return n
}

func c10Gen(t *rapid.T, tier Tier) interface{} {
	depth, budget := 3, rapid.IntRange(2, 14).Draw(t, "budget")
	if tier == Thorough {
		depth, budget = 4, rapid.IntRange(2, 24).Draw(t, "budget2")
	}
	c := &C10Case{CW: rapid.SampledFrom([]int{50, 100, 200, 400, 333}).Draw(t, "cw")}
	c.Root = C10Node{}
	n := rapid.IntRange(1, 4).Draw(t, "ntop")
	for i := 0; i < n && budget > 0; i++ {
		c.Root.Kids = append(c.Root.Kids, c10GenNode(t, depth-1, &budget))
	}
	return c
}

func c10Style(n *C10Node) string {
	var d []string
	add := func(p, v string) {
		if v != "" {
			d = append(d, p+":"+v)
		}
	}
	add("margin-left", n.ML)
	add("margin-right", n.MR)
	add("margin-top", n.MT)
	add("margin-bottom", n.MB)
	add("padding-left", n.PL)
	add("padding-right", n.PR)
	add("padding-top", n.PT)
	add("padding-bottom", n.PB)
	bw := func(p string, v int) {
		if v != 0 {
			d = append(d, fmt.Sprintf("border-%s:%dpx solid", p, v))
		}
	}
	bw("left", n.BL)
	bw("right", n.BR)
	bw("top", n.BT)
	bw("bottom", n.BB)
	add("width", n.W)
	add("min-width", n.MinW)
	add("max-width", n.MaxW)
	add("height", n.H)
	add("min-height", n.MinH)
	add("max-height", n.MaxH)
	if n.BorderBox {
		d = append(d, "box-sizing:border-box")
	}
	return strings.Join(d, ";")
}

func c10HTML(c *C10Case) (string, []*C10Node) {
	var nodes []*C10Node
	var b strings.Builder
	fmt.Fprintf(&b, `<!DOCTYPE html><html><head><style>@page{size:2000px 100000px;margin:0} html,body{margin:0;padding:0;display:block} x-b{display:block}</style></head><body><x-b id="root" style="display:flow-root;width:%dpx;border:1px solid;margin:7px">`, c.CW)
	var walk func(n *C10Node)
	walk = func(n *C10Node) {
		id := len(nodes)
		nodes = append(nodes, n)
		fmt.Fprintf(&b, `<x-b id="n%d" style="%s">`, id, c10Style(n))
		for i := range n.Kids {
			walk(&n.Kids[i])
		}
		b.WriteString("</x-b>")
	}
	for i := range c.Root.Kids {
		walk(&c.Root.Kids[i])
	}
	b.WriteString("</x-b></body></html>")
	return b.String(), nodes
}

// ---- reference model ----

type c10Ref struct {
	n                 *C10Node
	kids              []*c10Ref
	x, top            float64 // border-box left / top, relative to the outermost content box
	ml, mr            float64 // used
	mt, mb            float64
	pl, pr, pt, pb    float64
	width, height     float64 // content box
	through           bool    // margins collapse through the box: its position is not compared
	autoH             bool
	cases             []string
	finalCase         string // the 10.3.3 case of the last resolution
	specMR            float64
	unresolvedTop     bool
	explicitH         float64
	minH, maxH        float64
	hasMaxH, hasExplH bool
	// content height of the containing block, when it is specified explicitly
	cbH            float64
	cbHSet         bool
	bl, br, bt, bb float64
}

// c10Resolve: value of a length / percentage text; auto and "" reported through the flags.
func c10Resolve(text string, base float64) (v float64, auto, none bool) {
	switch {
	case text == "":
		return 0, false, true
	case text == "auto":
		return 0, true, false
	case strings.HasSuffix(text, "%"):
		f, _ := strconv.ParseFloat(strings.TrimSuffix(text, "%"), 64)
		return base * f / 100, false, false
	default:
		f, _ := strconv.ParseFloat(strings.TrimSuffix(text, "px"), 64)
		return f, false, false
	}
}

func collapseMargins(ms []float64) float64 {
	pos, neg := 0.0, 0.0
	for _, m := range ms {
		if m > pos {
			pos = m
		}
		if m < neg {
			neg = m
		}
	}
	return pos + neg
}

// horizontal: CSS 2.1 10.3.3 + 10.4 for one box in a containing block of width cw whose content box starts at x0.
func (r *c10Ref) horizontal(cw, x0 float64) {
	n := r.n
	r.pl, _, _ = c10Resolve(n.PL, cw)
	r.pr, _, _ = c10Resolve(n.PR, cw)
	r.pt, _, _ = c10Resolve(n.PT, cw)
	r.pb, _, _ = c10Resolve(n.PB, cw)
	r.bl, r.br, r.bt, r.bb = float64(n.BL), float64(n.BR), float64(n.BT), float64(n.BB)
	ml, mlAuto, _ := c10Resolve(n.ML, cw)
	mr, mrAuto, _ := c10Resolve(n.MR, cw)
	extra := 0.0 // what a border-box size includes besides the content
	if n.BorderBox {
		extra = r.pl + r.pr + r.bl + r.br
	}
	content := func(text string) (float64, bool) { // a specified width -> content width
		v, auto, none := c10Resolve(text, cw)
		if auto || none {
			return 0, false
		}
		return math.Max(0, v-extra), true
	}
	solve := func(w float64, wAuto bool) (float64, float64, float64, string) {
		l, rr := ml, mr
		la, ra := mlAuto, mrAuto
		rest := r.bl + r.pl + r.pr + r.br
		cs := ""
		if !wAuto {
			tot := rest + w
			if !la {
				tot += l
			}
			if !ra {
				tot += rr
			}
			if tot > cw {
				// auto margins are treated as zero
				if la {
					l, la = 0, false
				}
				if ra {
					rr, ra = 0, false
				}
				cs = "wider-than-cb"
			}
		}
		switch {
		case wAuto:
			if la {
				l = 0
			}
			if ra {
				rr = 0
			}
			w = cw - rest - l - rr
			cs += "|width-auto"
		case !la && !ra:
			rr = cw - rest - w - l // over-constrained, ltr: margin-right is ignored
			cs += "|over-constrained"
		case la && ra:
			l = (cw - rest - w) / 2
			rr = l
			cs += "|centred"
		case la:
			l = cw - rest - w - rr
			cs += "|margin-left-auto"
		default:
			rr = cw - rest - w - l
			cs += "|margin-right-auto"
		}
		return w, l, rr, cs
	}
	w, wSet := content(n.W)
	uw, l, rr, cs := solve(w, !wSet)
	r.specMR = mr
	r.finalCase = cs
	r.cases = append(r.cases, strings.Split(strings.Trim(cs, "|"), "|")...)
	if maxw, ok := content(n.MaxW); ok && uw > maxw {
		uw, l, rr, r.finalCase = solve(maxw, false)
		r.cases = append(r.cases, "max-width-hit")
	}
	minw, _ := content(n.MinW)
	if uw < minw {
		uw, l, rr, r.finalCase = solve(minw, false)
		if minw > 0 {
			r.cases = append(r.cases, "min-width-hit")
		} else {
			r.cases = append(r.cases, "negative-width-clamped")
		}
	}
	r.width, r.ml, r.mr = uw, l, rr
	r.x = x0 + l
	// vertical specified values (percentages of margins / paddings refer to the width)
	r.mt, _, _ = c10Resolve(n.MT, cw)
	r.mb, _, _ = c10Resolve(n.MB, cw)
	vextra := 0.0
	if n.BorderBox {
		vextra = r.pt + r.pb + r.bt + r.bb
	}
	// CSS 2.1 10.5 / 10.7: a percentage refers to the height of the containing block; when that height is
	// not specified explicitly, a percentage height is auto, a percentage min-height 0, a percentage max-height none
	pct := func(text string) bool { return strings.HasSuffix(text, "%") }
	if v, auto, none := c10Resolve(n.H, r.cbH); !auto && !none && !(pct(n.H) && !r.cbHSet) {
		r.hasExplH, r.explicitH = true, math.Max(0, v-vextra)
	}
	if v, _, none := c10Resolve(n.MinH, r.cbH); !none && !(pct(n.MinH) && !r.cbHSet) {
		r.minH = math.Max(0, v-vextra)
	}
	if v, _, none := c10Resolve(n.MaxH, r.cbH); !none && !(pct(n.MaxH) && !r.cbHSet) {
		r.hasMaxH, r.maxH = true, math.Max(0, v-vextra)
	}
	if pct(n.H) || pct(n.MinH) || pct(n.MaxH) {
		if r.cbHSet {
			r.cases = append(r.cases, "percent-height-resolved")
		} else {
			r.cases = append(r.cases, "percent-height-of-auto")
		}
	}
	for i := range n.Kids {
		k := &c10Ref{n: &n.Kids[i], cbH: r.explicitH, cbHSet: r.hasExplH}
		k.horizontal(r.width, r.x+r.bl+r.pl)
		r.kids = append(r.kids, k)
	}
	if strings.HasSuffix(n.ML+n.MR+n.MT+n.MB+n.PL+n.PT, "%") || strings.Contains(n.ML+" "+n.MR+" "+n.MT+" "+n.MB+" "+n.PL+" "+n.PR+" "+n.PT+" "+n.PB, "%") {
		r.cases = append(r.cases, "percent-margin-padding")
	}
	if n.BorderBox {
		r.cases = append(r.cases, "border-box")
	}
}

// vertical state of the flow
type c10Flow struct {
	cursor  float64
	pending []float64
	waiting []*c10Ref
	cases   map[string]bool
}

func (f *c10Flow) resolve() float64 {
	if len(f.pending) > 1 {
		f.cases["collapse"] = true
		neg := false
		for _, m := range f.pending {
			if m < 0 {
				neg = true
			}
		}
		if neg {
			f.cases["negative-margin-collapse"] = true
		}
	}
	y := f.cursor + collapseMargins(f.pending)
	for _, w := range f.waiting {
		w.top = y
		w.unresolvedTop = false
	}
	f.waiting, f.pending, f.cursor = nil, nil, y
	return y
}

func (r *c10Ref) clampH(h float64) float64 {
	if r.hasMaxH && h > r.maxH {
		h = r.maxH
	}
	if h < r.minH {
		h = r.minH
	}
	return h
}

func (f *c10Flow) place(r *c10Ref, parent *c10Ref, first bool) {
	f.pending = append(f.pending, r.mt)
	topOpen := r.bt+r.pt == 0
	if topOpen {
		r.unresolvedTop = true
		f.waiting = append(f.waiting, r)
		if first && parent != nil && parent.unresolvedTop {
			f.cases["parent-first-child"] = true
		}
	} else {
		f.resolve()
		r.top = f.cursor
		f.cursor += r.bt + r.pt
	}
	for i, k := range r.kids {
		f.place(k, r, i == 0)
	}
	if r.unresolvedTop {
		// nothing inside resolved the margin set holding the top margin
		if !r.hasExplH && r.minH == 0 && r.bb+r.pb == 0 || r.hasExplH && r.explicitH == 0 && r.minH == 0 && r.bb+r.pb == 0 && len(r.kids) == 0 {
			// margins collapse through the box
			r.through, r.height = true, 0
			f.pending = append(f.pending, r.mb)
			f.cases["collapse-through"] = true
			if parent != nil && parent.unresolvedTop {
				// the margins of this empty box join the set of its parent's top margin
				f.cases["empty-first-child"] = true
			}
			return
		}
		f.resolve()
	}
	contentTop := r.top + r.bt + r.pt
	if r.hasExplH {
		// in-flow content overflows or leaves room; trailing margins of the children stay inside
		for _, w := range f.waiting {
			w.top, w.unresolvedTop = f.cursor, false
		}
		f.waiting, f.pending = nil, nil
		r.height = r.clampH(r.explicitH)
		f.cursor = contentTop + r.height + r.pb + r.bb
		f.pending = []float64{r.mb}
		return
	}
	r.autoH = true
	if r.bb+r.pb == 0 && r.minH == 0 && !r.hasMaxH {
		// the bottom margin adjoins the trailing margins of the last child
		r.height = f.cursor - contentTop
		if r.height < 0 {
			// content pulled above the content edge by negative margins: CSS 2.1 does not settle where the
			// clamped box ends for the margins that follow
			f.cases["negative-auto-height"] = true
			r.height = 0
		}
		if len(f.pending) > 0 && len(r.kids) > 0 {
			f.cases["parent-last-child"] = true
		}
		f.pending = append(f.pending, r.mb)
		return
	}
	if len(r.kids) > 0 {
		f.resolve()
	}
	h := f.cursor - contentTop
	if h < 0 {
		f.cases["negative-auto-height"] = true
		h = 0
	}
	r.height = r.clampH(h)
	if r.height != h {
		f.cases["min-max-height-hit"] = true
	}
	f.cursor = contentTop + r.height + r.pb + r.bb
	f.pending = []float64{r.mb}
}

func c10Check(ci interface{}) Verdict {
	c := ci.(*C10Case)
	html, nodes := c10HTML(c)
	r, err := wr.Render(html, wr.Opts{Engine: "pango", Zoom: 1, TestUA: true})
	if err != nil {
		return Verdict{Excluded: "rejected"}
	}
	if len(r.Pages) != 1 {
		return Verdict{Excluded: "more-than-one-page"}
	}
	got := map[string]*bo.BoxFields{}
	dup := false
	wr.WalkBoxes(r.Pages[0], func(b bo.Box) bool {
		bf := b.Box()
		if bf.Element != nil && bf.PseudoType == "" {
			for _, a := range bf.Element.Attr {
				if a.Key == "id" {
					if _, has := got[a.Val]; has {
						dup = true
					}
					got[a.Val] = bf
				}
			}
		}
		return true
	})
	if dup {
		return Verdict{Excluded: "box-split"}
	}
	rootBox := got["root"]
	if rootBox == nil {
		return Viol("box-missing", "no box for #root\n%s", html)
	}
	x0, y0 := float64(rootBox.ContentBoxX()), float64(rootBox.ContentBoxY())
	// reference
	flow := &c10Flow{cases: map[string]bool{}}
	var refs []*c10Ref
	var tops []*c10Ref
	for i := range c.Root.Kids {
		k := &c10Ref{n: &c.Root.Kids[i]}
		k.horizontal(float64(c.CW), 0)
		tops = append(tops, k)
	}
	var flat func(k *c10Ref)
	flat = func(k *c10Ref) {
		refs = append(refs, k)
		for _, kk := range k.kids {
			flat(kk)
		}
	}
	for i, k := range tops {
		flow.place(k, nil, i == 0)
		_ = i
	}
	for _, k := range tops {
		flat(k)
	}
	if flow.cases["negative-auto-height"] {
		return Verdict{Excluded: "negative-auto-height"}
	}
	if len(refs) != len(nodes) {
		panic("verif infra: node numbering")
	}
	labels := map[string]bool{}
	for k := range flow.cases {
		labels[k] = true
	}
	const tol = 0.01
	var tolerated Verdict
	near := func(a, b float64) bool { return math.Abs(a-b) <= tol+1e-5*math.Abs(b) }
	for i, ref := range refs {
		for _, cs := range ref.cases {
			if cs != "" {
				labels[cs] = true
			}
		}
		bf := got[fmt.Sprintf("n%d", i)]
		if bf == nil {
			return Viol("box-missing", "no box for #n%d\n%s", i, html)
		}
		toF := func(v pr.MaybeFloat) float64 {
			if v == nil || v == pr.AutoF {
				return math.NaN()
			}
			return float64(v.V())
		}
		gw, gml, gmr := toF(bf.Width), toF(bf.MarginLeft), toF(bf.MarginRight)
		gx := float64(bf.BorderBoxX()) - x0
		cw := float64(c.CW)
		if i > 0 {
			// containing block width: the parent's reference width (already checked, parents come first)
		}
		_ = cw
		desc := fmt.Sprintf("#n%d {%s}", i, c10Style(ref.n))
		sum := gml + float64(bf.BorderLeftWidth) + toF(bf.PaddingLeft) + gw + toF(bf.PaddingRight) + float64(bf.BorderRightWidth) + gmr
		wantSum := ref.ml + ref.bl + ref.pl + ref.width + ref.pr + ref.br + ref.mr
		caseSig := strings.Join(ref.cases, "+")
		if !near(sum, wantSum) && strings.Contains(ref.finalCase, "over-constrained") && near(gmr, ref.specMR) && near(gw, ref.width) && near(gml, ref.ml) {
			// listed finding C10-F01: tolerated, the other comparisons go on
			tolerated.Tolerate("equation:over-constrained:margin-right-kept", "%s: over-constrained (no auto value): used margin-right stays %g, the equation of CSS 2.1 10.3.3 gives %g (sum of the used values %g, containing block %g)\n%s", desc, gmr, ref.mr, sum, wantSum, html)
			labels["over-constrained-margin-right-kept"] = true
			gmr = ref.mr
			sum = wantSum
		}
		if !near(sum, wantSum) {
			return Viol("equation:"+c10Sig(ref.cases), "%s: used margin-left + border + padding + width + padding + border + margin-right = %g, the containing block is %g wide (used margin-left %g width %g margin-right %g; CSS 2.1 10.3.3 gives %g / %g / %g; case %s)\n%s", desc, sum, wantSum, gml, gw, gmr, ref.ml, ref.width, ref.mr, caseSig, html)
		}
		if !near(gw, ref.width) {
			return Viol("width:"+c10Sig(ref.cases), "%s: used width %g, CSS 2.1 10.3.3/10.4 gives %g (case %s)\n%s", desc, gw, ref.width, caseSig, html)
		}
		if !near(gml, ref.ml) || !near(gmr, ref.mr) {
			return Viol("margins:"+c10Sig(ref.cases), "%s: used margins left %g right %g, CSS 2.1 10.3.3 gives %g and %g (case %s)\n%s", desc, gml, gmr, ref.ml, ref.mr, caseSig, html)
		}
		if !near(gx, ref.x) {
			return Viol("x:"+c10Sig(ref.cases), "%s: border box starts at x=%g, expected %g\n%s", desc, gx, ref.x, html)
		}
		if !near(toF(bf.PaddingTop), ref.pt) || !near(toF(bf.PaddingBottom), ref.pb) || !near(toF(bf.PaddingLeft), ref.pl) {
			return Viol("padding-percent", "%s: used paddings top %g bottom %g left %g, expected %g %g %g (percentages refer to the containing block width)\n%s", desc, toF(bf.PaddingTop), toF(bf.PaddingBottom), toF(bf.PaddingLeft), ref.pt, ref.pb, ref.pl, html)
		}
		gh := toF(bf.Height)
		if !near(gh, ref.height) {
			kind := "explicit"
			if ref.autoH {
				kind = "auto"
			}
			if ref.through {
				kind = "collapsed-through"
			}
			if flow.cases["empty-first-child"] {
				return Viol("collapse:empty-first-child", "%s: used height %g, expected %g (%s height); the tree has an empty box whose margins collapse through it into its parent's top margin\n%s", desc, gh, ref.height, kind, html)
			}
			return Viol("height:"+kind, "%s: used height %g, expected %g (%s height)\n%s", desc, gh, ref.height, kind, html)
		}
		if !ref.through {
			gy := float64(bf.BorderBoxY()) - y0
			if !near(gy, ref.top) {
				if flow.cases["empty-first-child"] {
					return Viol("collapse:empty-first-child", "%s: border box top at y=%g, CSS 2.1 8.3.1 gives %g; the tree has an empty box whose margins collapse through it into its parent's top margin\n%s", desc, gy, ref.top, html)
				}
				return Viol("y:"+c10YSig(flow.cases), "%s: border box top at y=%g, CSS 2.1 8.3.1 gives %g\n%s", desc, gy, ref.top, html)
			}
		}
	}
	var ls []string
	for l := range labels {
		ls = append(ls, l)
	}
	sort.Strings(ls)
	nt := labels["collapse"] || labels["over-constrained"] || labels["centred"] || labels["margin-left-auto"] || labels["max-width-hit"] || labels["min-width-hit"]
	return Verdict{NonTrivial: nt, Labels: ls, Tolerated: tolerated.Tolerated}
}

func c10Sig(cases []string) string {
	var keep []string
	for _, c := range cases {
		if c != "" && c != "percent-margin-padding" && c != "border-box" {
			keep = append(keep, c)
		}
	}
	return strings.Join(keep, "+")
}

func c10YSig(cases map[string]bool) string {
	var keep []string
	for _, k := range []string{"collapse-through", "parent-first-child", "parent-last-child", "negative-margin-collapse", "min-max-height-hit"} {
		if cases[k] {
			keep = append(keep, k)
		}
	}
	if len(keep) == 0 {
		return "plain"
	}
	return strings.Join(keep, "+")
}

func init() {
	Register(&Prop{
		ID:               "C10",
		Gen:              c10Gen,
		New:              func() interface{} { return &C10Case{} },
		Check:            c10Check,
		CrashIsViolation: false,
		QuickN:           20000,
		ThoroughN:        600000,
		Rule: "A flow-root container of width 50/100/200/333/400 px on one very tall page, holding a tree of block boxes (depth <= 3, fan-out <= 3, <= 14 boxes; thorough: depth 4, <= 24): each with margins (px incl. negative, %, auto), paddings (px, %), borders 0-5 px, width (auto, 0, px, % up to 120%), min-/max-width (px, %), height (auto, 0, px) on any box and min-/max-height on leaves, box-sizing content-box/border-box; left-to-right, no floats, clearance, positioning or text. " +
			"Oracle: a reference layout of CSS 2.1 10.3.3 (all auto / over-constrained cases), 10.4 (max then min re-resolution), 8.3/8.4 (percentages against the containing block width, also for vertical margins and paddings), 8.3.1 (sets of adjoining margins threaded through the tree: siblings, parent/first child, parent/last child with auto height, collapsing through empty boxes; collapsed margin = largest positive + most negative) and 10.6.3/10.7 (auto height to the last in-flow child, min/max-height). Compared per box with tolerance 0.01 px: the seven-term sum of the used values, used width and margins, border-box x, paddings, used height, border-box y (y of a box whose margins collapse through it is not compared: CSS 2.1 leaves two readings). " +
			"Non-trivial: at least one collapsing margin pair or one auto / over-constrained / min-max horizontal case.",
		ImportantLabels: []string{"collapse", "parent-first-child", "parent-last-child", "collapse-through", "negative-margin-collapse", "over-constrained", "centred", "margin-left-auto", "width-auto", "max-width-hit", "min-width-hit", "negative-width-clamped", "percent-margin-padding", "border-box", "min-max-height-hit", "wider-than-cb"},
		Assumptions:     []string{"min-/max-height are generated on leaves only (their interplay with parent/last-child collapsing is not settled by CSS 2.1)", "float32 layout arithmetic: tolerance 0.01 px"},
	})
}
