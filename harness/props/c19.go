package props

import (
	"fmt"
	"sort"
	"strings"

	"github.com/benoitkugler/webrender/css/counters"
	pr "github.com/benoitkugler/webrender/css/properties"
	bo "github.com/benoitkugler/webrender/html/boxes"
	"golang.org/x/net/html"
	"pgregory.net/rapid"

	"verif/harness/internal/gen"
	cs "verif/harness/internal/ref/counterstyle"
	sg "verif/harness/internal/selgen"
	"verif/harness/internal/wr"
)

// C19 — Counters count and print as CSS Lists and Counter Styles define.

type C19Op struct {
	Prop string `json:"prop"` // counter-reset counter-increment counter-set
	Name string `json:"name"`
	Val  *int   `json:"val,omitempty"`
}

type C19Elem struct {
	Tag      string    `json:"tag"`
	Ops      []C19Op   `json:"ops,omitempty"`
	Children []C19Elem `json:"ch,omitempty"`
}

type C19Case struct {
	Kind   string      `json:"kind"` // style tree
	Styles []*cs.Style `json:"styles,omitempty"`
	Use    string      `json:"use,omitempty"`
	Values []int64     `json:"values,omitempty"`
	Tree   []C19Elem   `json:"tree,omitempty"`
}

var c19Names = []string{"s0", "s1", "s2"}

func c19GenStyle(t *rapid.T, name string) *cs.Style { return gen.GenCounterStyle(t, name) }

var c19ValuePool = []int64{0, 1, 2, 3, 4, 5, 9, 10, 11, 26, 27, 30, 99, 100, 399, 400, 3999, 4000, -1, -2, -5, -10, -27, -100, -4000, 1000000, -1000000, 2147483647, -2147483648}

func c19GenTree(t *rapid.T, depth int, budget *int) C19Elem {
	*budget--
	e := C19Elem{Tag: rapid.SampledFrom([]string{"div", "div", "section", "ol", "ul", "li", "li", "p"}).Draw(t, "tag")}
	nops := rapid.IntRange(0, 2).Draw(t, "nops")
	used := map[string]bool{}
	for i := 0; i < nops; i++ {
		op := C19Op{Prop: rapid.SampledFrom([]string{"counter-reset", "counter-reset", "counter-increment", "counter-increment", "counter-set"}).Draw(t, "opprop")}
		if used[op.Prop] {
			continue
		}
		used[op.Prop] = true
		op.Name = rapid.SampledFrom([]string{"a", "a", "b", "list-item"}).Draw(t, "cname")
		if op.Prop == "counter-increment" && e.Tag == "li" {
			// whether an explicit counter-increment suppresses the implicit list-item increment is not
			// part of the property; not generated
			op.Prop = "counter-reset"
			if used[op.Prop] {
				continue
			}
			used[op.Prop] = true
		}
		if e.Tag == "li" && op.Name == "list-item" && op.Prop == "counter-set" {
			continue // order of the implicit increment relative to counter-set is not part of the property
		}
		clash := false
		for _, prev := range e.Ops {
			if prev.Name == op.Name && prev.Prop != "counter-reset" && op.Prop != "counter-reset" {
				clash = true // increment and set of one counter on one element: their relative order is not stated
			}
		}
		if clash {
			continue
		}
		if rapid.Bool().Draw(t, "hasval") {
			v := rapid.IntRange(-3, 7).Draw(t, "cval")
			op.Val = &v
		}
		e.Ops = append(e.Ops, op)
	}
	if depth > 0 {
		n := rapid.IntRange(0, 3).Draw(t, "nkids")
		for i := 0; i < n && *budget > 0; i++ {
			e.Children = append(e.Children, c19GenTree(t, depth-1, budget))
		}
	}
	return e
}

func c19Gen(t *rapid.T, tier Tier) interface{} {
	c := &C19Case{}
	if rapid.IntRange(0, 2).Draw(t, "kind") == 0 {
		c.Kind = "tree"
		budget := 15
		n := rapid.IntRange(1, 3).Draw(t, "ntop")
		for i := 0; i < n && budget > 0; i++ {
			c.Tree = append(c.Tree, c19GenTree(t, 3, &budget))
		}
		return c
	}
	c.Kind = "style"
	n := rapid.IntRange(1, 3).Draw(t, "nstyles")
	for i := 0; i < n; i++ {
		c.Styles = append(c.Styles, c19GenStyle(t, c19Names[i]))
	}
	c.Use = "s0"
	if rapid.IntRange(0, 9).Draw(t, "predef") == 0 {
		c.Use = rapid.SampledFrom([]string{"decimal", "lower-roman", "upper-roman", "lower-alpha", "upper-alpha", "lower-greek", "disc", "decimal-leading-zero"}).Draw(t, "predefname")
	}
	nv := rapid.IntRange(1, 6).Draw(t, "nvalues")
	for i := 0; i < nv; i++ {
		if rapid.IntRange(0, 3).Draw(t, "randv") == 0 {
			c.Values = append(c.Values, int64(rapid.IntRange(-500, 5000).Draw(t, "v")))
		} else {
			c.Values = append(c.Values, rapid.SampledFrom(c19ValuePool).Draw(t, "pv"))
		}
	}
	return c
}

// ---- reference counter scoping (CSS 2.1 section 12.4 / CSS Lists 3 section 4)

type c19Inst struct {
	val   int
	level int // identity of the sibling list (or element) that created it
}

type c19Env map[string][]*c19Inst

func (e c19Env) clone() c19Env {
	o := c19Env{}
	for k, v := range e {
		o[k] = append([]*c19Inst(nil), v...)
	}
	return o
}

// c19Expected walks the parsed document (so that any restructuring by the HTML parser is followed)
// and returns the expected ::before text per data-i.
func c19Expected(body *html.Node, ops map[string][]C19Op) map[string]string {
	out := map[string]string{}
	levelSeq := 0
	var visitList func(parent *html.Node, env c19Env)
	visitList = func(parent *html.Node, env c19Env) {
		levelSeq++
		level := levelSeq
		for n := parent.FirstChild; n != nil; n = n.NextSibling {
			if n.Type != html.ElementNode {
				continue
			}
			id := ""
			for _, a := range n.Attr {
				if a.Key == "data-i" {
					id = a.Val
				}
			}
			byProp := map[string][]C19Op{}
			for _, op := range ops[id] {
				byProp[op.Prop] = append(byProp[op.Prop], op)
			}
			resets := byProp["counter-reset"]
			if (n.Data == "ol" || n.Data == "ul") && len(resets) == 0 {
				resets = []C19Op{{Prop: "counter-reset", Name: "list-item"}}
			}
			instantiate := func(name string, v int) {
				st := env[name]
				if k := len(st); k > 0 && st[k-1].level == level {
					st = st[:k-1] // created by an earlier sibling (or this element): replaced
				}
				env[name] = append(append([]*c19Inst(nil), st...), &c19Inst{val: v, level: level})
			}
			for _, op := range resets {
				v := 0
				if op.Val != nil {
					v = *op.Val
				}
				instantiate(op.Name, v)
			}
			incs := byProp["counter-increment"]
			if n.Data == "li" && len(incs) == 0 {
				incs = append(incs, C19Op{Prop: "counter-increment", Name: "list-item"})
			}
			for _, op := range incs {
				v := 1
				if op.Val != nil {
					v = *op.Val
				}
				if len(env[op.Name]) == 0 {
					instantiate(op.Name, 0)
				}
				st := env[op.Name]
				st[len(st)-1].val += v
			}
			for _, op := range byProp["counter-set"] {
				v := 0
				if op.Val != nil {
					v = *op.Val
				}
				if len(env[op.Name]) == 0 {
					instantiate(op.Name, 0)
				}
				st := env[op.Name]
				st[len(st)-1].val = v
			}
			one := func(name string) string {
				st := env[name]
				if len(st) == 0 {
					return "0"
				}
				return fmt.Sprint(st[len(st)-1].val)
			}
			all := func(name, sep string) string {
				st := env[name]
				if len(st) == 0 {
					return "0"
				}
				var parts []string
				for _, i := range st {
					parts = append(parts, fmt.Sprint(i.val))
				}
				return strings.Join(parts, sep)
			}
			if id != "" {
				out[id] = one("a") + "|" + all("a", ".") + "|" + one("b") + "|" + all("b", "-") + "|" + one("list-item")
			}
			visitList(n, env.clone())
		}
	}
	visitList(body, c19Env{})
	return out
}

func c19TreeHTML(tree []C19Elem) string {
	var b strings.Builder
	b.WriteString(`<!DOCTYPE html><html><head><style>[data-i]::before{content: counter(a) "|" counters(a, ".") "|" counter(b) "|" counters(b, "-") "|" counter(list-item)}</style></head><body>`)
	i := 0
	var walk func(list []C19Elem)
	walk = func(list []C19Elem) {
		for _, el := range list {
			var decls []string
			byProp := map[string][]string{}
			var order []string
			for _, op := range el.Ops {
				v := op.Name
				if op.Val != nil {
					v += fmt.Sprintf(" %d", *op.Val)
				}
				if _, ok := byProp[op.Prop]; !ok {
					order = append(order, op.Prop)
				}
				byProp[op.Prop] = append(byProp[op.Prop], v)
			}
			for _, p := range order {
				decls = append(decls, p+":"+strings.Join(byProp[p], " "))
			}
			st := ""
			if len(decls) > 0 {
				st = ` style="` + strings.Join(decls, ";") + `"`
			}
			fmt.Fprintf(&b, `<%s data-i="%d"%s>`, el.Tag, i, st)
			i++
			walk(el.Children)
			fmt.Fprintf(&b, `</%s>`, el.Tag)
		}
	}
	walk(tree)
	b.WriteString("</body></html>")
	return b.String()
}

func boxText(b bo.Box) string {
	var sb strings.Builder
	wr.WalkBoxes(b, func(x bo.Box) bool {
		if tb, ok := x.(*bo.TextBox); ok {
			sb.WriteString(tb.TextS())
		}
		return true
	})
	return sb.String()
}

func c19Tree(c *C19Case) Verdict {
	doc := c19TreeHTML(c.Tree)
	h, err := wr.ParseHTML(doc, wr.Opts{})
	if err != nil {
		return Verdict{Excluded: "html-rejected"}
	}
	// the operations per data-i, in generation order
	ops := map[string][]C19Op{}
	idx := 0
	var number func(list []C19Elem)
	number = func(list []C19Elem) {
		for _, e := range list {
			ops[fmt.Sprint(idx)] = e.Ops
			idx++
			number(e.Children)
		}
	}
	number(c.Tree)
	var body *html.Node
	for _, n := range sg.Elements((*html.Node)(h.Root)) {
		if n.Data == "body" {
			body = n
		}
	}
	if body == nil {
		return Verdict{Excluded: "no-body"}
	}
	want := c19Expected(body, ops)
	root := wr.BuildBoxes(h, nil, false, wr.SharedFC("pango"))
	got := map[string]string{}
	wr.WalkBoxes(root, func(b bo.Box) bool {
		bf := b.Box()
		if bf.PseudoType == "before" && bf.Element != nil {
			for _, a := range bf.Element.Attr {
				if a.Key == "data-i" {
					if _, dup := got[a.Val]; !dup {
						got[a.Val] = boxText(b)
					}
				}
			}
			return false
		}
		return true
	})
	labels := []string{"kind:tree"}
	nested := false
	var depthOf func(list []C19Elem, seen map[string]int)
	depthOf = func(list []C19Elem, seen map[string]int) {
		for _, e := range list {
			s2 := map[string]int{}
			for k, v := range seen {
				s2[k] = v
			}
			for _, op := range e.Ops {
				if op.Prop == "counter-reset" {
					s2[op.Name]++
					if s2[op.Name] >= 2 {
						nested = true
					}
				}
			}
			depthOf(e.Children, s2)
		}
	}
	depthOf(c.Tree, map[string]int{})
	if nested {
		labels = append(labels, "nested-instances")
	}
	if len(got) != len(want) {
		return Viol("scoping:missing-before-box", "%d ::before boxes for %d elements\n%s", len(got), len(want), doc)
	}
	for i := 0; i < len(want); i++ {
		w := want[fmt.Sprint(i)]
		g := got[fmt.Sprint(i)]
		if g != w {
			gs, ws := strings.Split(g, "|"), strings.Split(w, "|")
			field := "?"
			names := []string{"counter(a)", "counters(a)", "counter(b)", "counters(b)", "counter(list-item)"}
			for k := range ws {
				if k >= len(gs) || gs[k] != ws[k] {
					field = names[k]
					break
				}
			}
			cls := "scoping:" + strings.SplitN(field, "(", 2)[0]
			if strings.Contains(field, "list-item") {
				cls = "scoping:list-item"
			}
			return Viol(cls, "element %d: ::before reads %q, CSS counter scoping gives %q (%s)\n%s", i, g, w, field, doc)
		}
	}
	return Verdict{NonTrivial: nested, Labels: labels}
}

func c19Style(c *C19Case) Verdict {
	var b strings.Builder
	for _, s := range c.Styles {
		b.WriteString(s.CSS())
		b.WriteString("\n")
	}
	doc := `<!DOCTYPE html><html><head><style>` + b.String() + `</style></head><body><p>x</p></body></html>`
	h, err := wr.ParseHTML(doc, wr.Opts{})
	if err != nil {
		return Verdict{Excluded: "html-rejected"}
	}
	impl := counters.CounterStyle{}
	wr.Styles(h, nil, false, wr.SharedFC("pango"), impl, nil, nil, false)
	ref := cs.Predefined()
	for _, s := range c.Styles {
		ref[s.Name] = s
	}
	labels := map[string]bool{"kind:style": true}
	for _, s := range c.Styles {
		sys := s.System
		if sys == "" {
			sys = "symbolic(default)"
		}
		labels["system:"+sys] = true
		if s.HasPad {
			labels["pad"] = true
		}
		if s.HasNeg {
			labels["negative"] = true
		}
		if len(s.Range) > 0 {
			labels["range"] = true
		}
		if s.Fallback != "" {
			labels["fallback"] = true
		}
	}
	// an extends cycle through three generated styles (s0 -> .. -> s0): the listed finding C19-F02 is about them
	cycle3 := false
	if len(c.Styles) >= 3 {
		for _, s := range c.Styles {
			cur, steps := s, 0
			for cur.System == "extends" && steps < 4 {
				next, ok := ref[cur.Extends]
				if !ok || next == nil {
					break
				}
				cur = next
				steps++
				if cur.Name == s.Name {
					break
				}
			}
			if cur.Name == s.Name && steps == 3 {
				cycle3 = true
			}
		}
	}
	if cycle3 {
		labels["extends-cycle-of-three"] = true
	}
	mk := func(v Verdict) Verdict {
		if cycle3 && v.Sig != "" {
			v.Sig += ":extends-cycle-of-three"
		}
		for l := range labels {
			v.Labels = append(v.Labels, l)
		}
		sort.Strings(v.Labels)
		return v
	}
	use := ref[c.Use]
	nt := false
	for _, v := range c.Values {
		// bound the size of symbolic / additive representations (the reference refuses enormous strings)
		want, huge := ref.Render(c.Use, v)
		if huge || len(want) > 4096 {
			labels["skipped-huge"] = true
			continue
		}
		if strings.Contains(want, cs.Undefined) {
			labels["skipped-undefined-by-spec"] = true
			continue
		}
		if v < 0 {
			labels["negative-value"] = true
		}
		got := impl.RenderValue(int(v), c.Use)
		if got != want {
			sys := "predefined"
			if use != nil {
				sys = use.System
				if sys == "" {
					sys = "symbolic"
				}
			}
			cls := "render:" + sys
			for _, st := range c.Styles {
				if st.System == "additive" && len(st.Additive) == 1 {
					cls = "render:additive-with-a-single-tuple-is-rejected"
				}
			}
			switch {
			case strings.HasPrefix(cls, "render:additive-with"):
			case use != nil && use.HasPad && strings.TrimLeft(got, use.PadS) == strings.TrimLeft(want, use.PadS):
				cls = "render:pad"
			case v < 0:
				cls += ":negative"
			case v == 0:
				cls += ":zero"
			}
			return mk(Viol(cls, "RenderValue(%d, %q) = %q, Counter Styles 3 gives %q\n%s", v, c.Use, got, want, b.String()))
		}
		wantM, _ := ref.Marker(c.Use, v)
		gotM := impl.RenderMarker(pr.CounterStyleID{Name: c.Use}, int(v))
		if gotM != wantM {
			for _, st := range c.Styles {
				if st.System == "additive" && len(st.Additive) == 1 {
					return mk(Viol("render:additive-with-a-single-tuple-is-rejected", "RenderMarker(%q, %d) = %q, expected %q\n%s", c.Use, v, gotM, wantM, b.String()))
				}
			}
			return mk(Viol("marker", "RenderMarker(%q, %d) = %q, expected %q\n%s", c.Use, v, gotM, wantM, b.String()))
		}
		if v <= 0 || (use != nil && (use.HasPad || use.Fallback != "" || len(use.Range) > 0)) {
			nt = true
		}
	}
	return mk(Verdict{NonTrivial: nt})
}

func c19Check(ci interface{}) Verdict {
	c := ci.(*C19Case)
	if c.Kind == "tree" {
		return c19Tree(c)
	}
	return c19Style(c)
}

func init() {
	Register(&Prop{
		ID:               "C19",
		Gen:              c19Gen,
		New:              func() interface{} { return &C19Case{} },
		Check:            c19Check,
		CrashIsViolation: true,
		QuickN:           60000,
		ThoroughN:        1000000,
		Rule: "Two families. style: 1-3 generated valid @counter-style rules (every system: cyclic, fixed [n], symbolic, alphabetic, numeric, additive with strictly descending weights incl. 0, extends; symbols as strings or identifiers incl. multi-byte; range auto / 1-2 pairs with infinite bounds; pad 0-6 with 1-2 character symbols; negative with 1 or 2 parts; prefix/suffix; fallback and extends graphs over s0-s2, predefined names and a missing name, cycles included) parsed through the style sheet pipeline, " +
			"then RenderValue and RenderMarker of style s0 (10%: a predefined style) for 1-6 integers from {0, +-1.., +-10, 26/27, 99/100, 399/400, 3999/4000, +-10^6, MinInt32, MaxInt32} or random in [-500, 5000]; oracle: a reference implementation of Counter Styles 3 sections 2-3 (range check with per-system auto range, negative handling, pad counted in characters, fallback chain with loop -> decimal, extends resolution with cycle/missing -> decimal). Representations longer than 4096 bytes are skipped (counted). " +
			"tree: element trees (<= 15 elements, depth <= 4, div/section/p/ol/ul/li) with counter-reset / counter-increment / counter-set on counters a, b and list-item (optional values in [-3,7]); every element's ::before prints counter(a)|counters(a,'.')|counter(b)|counters(b,'-')|counter(list-item), read from the box tree; oracle: reference of CSS 2.1 12.4 / CSS Lists 3 scoping (reset instantiates, replacing an instance created by an earlier sibling; increment/set act on the innermost instance, creating one if none; li increments list-item implicitly, ol/ul reset it; counters() outermost first). " +
			"Non-trivial: tree with two nested instances of one name; style case with a value <= 0 or a style using pad, range or fallback.",
		ImportantLabels: []string{"kind:tree", "kind:style", "nested-instances", "system:additive", "system:extends", "system:fixed", "system:cyclic", "system:alphabetic", "system:numeric", "pad", "negative", "range", "fallback", "negative-value"},
		Assumptions:     []string{"pad length is counted in code points excluding combining marks (equal to grapheme clusters on the generated symbols)", "trees that html.Parse restructures (li inside li, p inside p) are excluded and counted"},
	})
}
