package props

import (
	"fmt"
	"math"
	"regexp"
	"sort"
	"strconv"
	"strings"

	bo "github.com/benoitkugler/webrender/html/boxes"
	"pgregory.net/rapid"

	"verif/harness/internal/wr"
)

// C16 — Boxes are painted in CSS stacking order.
//
// Every box of a generated scene has its own background, border and text colour, so each fill and each
// text run of the backend trace names its box and layer. The expected sequence is produced by a
// reference of CSS 2.1 Appendix E.

type C16Box struct {
	Kind      string   `json:"kind"`          // block float iblock
	Pos       string   `json:"pos,omitempty"` // "" relative absolute
	Z         string   `json:"z,omitempty"`   // "" (auto) or an integer
	Opacity   bool     `json:"opacity,omitempty"`
	Transform bool     `json:"transform,omitempty"`
	Overflow  bool     `json:"overflow,omitempty"`
	Outline   bool     `json:"outline,omitempty"`
	Kids      []C16Box `json:"kids,omitempty"`
}

type C16Case struct {
	Boxes []C16Box `json:"boxes"` // children of body
	// backgrounds of the page box (colour 250) and of the root element, which becomes the canvas background (251)
	PageBG bool `json:"page_bg,omitempty"`
	RootBG bool `json:"root_bg,omitempty"`
	// Pages: the several-pages scene (fixed boxes), judged on its own
	Pages *C16Pages `json:"pages,omitempty"`
}

func c16GenBox(t *rapid.T, depth int, budget *int, many bool) C16Box {
	*budget--
	b := C16Box{Kind: rapid.SampledFrom([]string{"block", "block", "block", "float", "iblock", "block", "block", "block", "float", "iblock", "table"}).Draw(t, "kind")}
	pz := rapid.IntRange(0, 9).Draw(t, "pos")
	if many {
		pz = rapid.IntRange(4, 9).Draw(t, "posmany")
	}
	switch {
	case pz >= 4 && pz <= 6:
		b.Pos = "relative"
	case pz >= 7:
		b.Pos = "absolute"
	}
	if b.Pos != "" {
		zs := []string{"", "", "0", "1", "1", "2", "-1", "-1", "-2"}
		if many {
			zs = []string{"1", "1", "2", "2", "3", "-1", "-1", "-2", "0", ""}
		}
		b.Z = rapid.SampledFrom(zs).Draw(t, "z")
	}
	if !many {
		switch rapid.IntRange(0, 11).Draw(t, "fx") {
		case 0:
			b.Opacity = true
		case 1:
			b.Transform = true
		case 2:
			b.Overflow = true
		}
	}
	b.Outline = rapid.IntRange(0, 3).Draw(t, "outline") == 0
	if b.Kind == "table" {
		// a leaf without overflow: overflow does not clip a table like a block container, and the own
		// background of a table that is a stacking context is painted by its table box, a child of the wrapper
		// that is the context (negative z-index descendants come out below it: observed, not judged here)
		b.Overflow = false
		return b
	}
	if depth > 0 && !many {
		for i, n := 0, rapid.IntRange(0, 3).Draw(t, "nkids"); i < n && *budget > 0; i++ {
			b.Kids = append(b.Kids, c16GenBox(t, depth-1, budget, false))
		}
	}
	return b
}

func c16Gen(t *rapid.T, tier Tier) interface{} {
	c := &C16Case{}
	if rapid.IntRange(0, 11).Draw(t, "pages") == 0 {
		c.Pages = c16GenPages(t)
		return c
	}
	if rapid.IntRange(0, 3).Draw(t, "pagedeco") == 0 {
		c.PageBG, c.RootBG = rapid.Bool().Draw(t, "pagebg"), rapid.Bool().Draw(t, "rootbg")
	}
	if rapid.IntRange(0, 7).Draw(t, "many") == 0 {
		// a wide context: many positioned siblings with few distinct z-index values
		n := rapid.IntRange(10, 28).Draw(t, "nmany")
		budget := 1000
		for i := 0; i < n; i++ {
			c.Boxes = append(c.Boxes, c16GenBox(t, 0, &budget, true))
		}
		return c
	}
	budget := rapid.IntRange(2, 9).Draw(t, "budget")
	for budget > 0 {
		c.Boxes = append(c.Boxes, c16GenBox(t, 2, &budget, false))
	}
	return c
}

type c16Node struct {
	id     int
	b      *C16Box
	kids   []*c16Node
	parent *c16Node
}

func c16HTML(c *C16Case) (string, []*c16Node) {
	var nodes []*c16Node
	var sb strings.Builder
	extra := ""
	if c.PageBG {
		extra += "@page{background:rgb(250,10,0)}"
	}
	if c.RootBG {
		extra += "html{background:rgb(251,10,0)}"
	}
	sb.WriteString(`<!DOCTYPE html><html><head><style>@page{size:1000px 2000px;margin:0} html,body{margin:0;padding:0;display:block} body{font:10px/1 Ahem;width:400px} div{margin:0 0 -6px 3px}` + extra + `</style></head><body>`)
	var walk func(b *C16Box, parent *c16Node) *c16Node
	walk = func(b *C16Box, parent *c16Node) *c16Node {
		n := &c16Node{id: len(nodes) + 1, b: b, parent: parent}
		nodes = append(nodes, n)
		st := fmt.Sprintf("background:rgb(%d,10,0);border:2px solid rgb(%d,100,0);color:rgb(%d,200,0);min-height:14px;", n.id, n.id, n.id)
		switch b.Kind {
		case "float":
			st += "float:left;width:60px;"
		case "iblock":
			st += "display:inline-block;width:60px;"
		case "table":
			// (a block-level box whose element generates a wrapper around its principal box)
			st += "display:table;width:120px;"
		}
		if b.Pos != "" {
			st += "position:" + b.Pos + ";"
			if b.Pos == "absolute" {
				st += fmt.Sprintf("left:%dpx;top:%dpx;width:50px;", 5+n.id*3, 5+n.id*2)
			} else {
				st += "left:4px;top:-3px;"
			}
			if b.Z != "" {
				st += "z-index:" + b.Z + ";"
			}
		}
		if b.Opacity {
			st += "opacity:0.5;"
		}
		if b.Transform {
			st += "transform:translate(3px,2px);"
		}
		if b.Overflow {
			st += "overflow:hidden;"
		}
		if b.Outline {
			st += fmt.Sprintf("outline:2px solid rgb(%d,150,0);", n.id)
		}
		fmt.Fprintf(&sb, `<div style="%s">t%d`, st, n.id)
		for i := range b.Kids {
			n.kids = append(n.kids, walk(&b.Kids[i], n))
		}
		sb.WriteString("</div>")
		return n
	}
	for i := range c.Boxes {
		walk(&c.Boxes[i], nil)
	}
	sb.WriteString("</body></html>")
	return sb.String(), nodes
}

// ---- reference: CSS 2.1 Appendix E ----

func (n *c16Node) positioned() bool { return n.b.Pos != "" }

// realContext: the box establishes a stacking context.
func (n *c16Node) realContext() bool {
	return n.positioned() && n.b.Z != "" || n.b.Opacity || n.b.Transform
}

func (n *c16Node) z() int {
	if n.positioned() && n.b.Z != "" {
		v, _ := strconv.Atoi(n.b.Z)
		return v
	}
	return 0
}

// pseudoContext: painted atomically, as if it established a stacking context (floats, inline-blocks,
// positioned boxes with z-index auto); its positioned descendants and real contexts belong to the nearest real context.
func (n *c16Node) pseudoContext() bool {
	return !n.realContext() && (n.positioned() || n.b.Kind == "float" || n.b.Kind == "iblock")
}

type c16Event struct {
	box   int
	layer string // bg border text
}

// c16Obs: an observed paint with where it was drawn
type c16Obs struct {
	ev     c16Event
	canvas int
	clips  int // clips active on that canvas (within the open save/restore frames)
	xforms int // translate(3px, 2px) transforms (the one every transformed box of a scene declares) active on that canvas
}

type c16Lists struct{ neg, zero, pos []*c16Node }

// hoist collects, in tree order, the descendants of n that belong to the enclosing real stacking context.
func c16Hoist(kids []*c16Node, l *c16Lists) {
	for _, k := range kids {
		switch {
		case k.realContext():
			switch z := k.z(); {
			case z < 0:
				l.neg = append(l.neg, k)
			case z > 0:
				l.pos = append(l.pos, k)
			default:
				l.zero = append(l.zero, k)
			}
			// its inside is its own business
		case k.positioned():
			l.zero = append(l.zero, k)
			c16Hoist(k.kids, l)
		default:
			c16Hoist(k.kids, l)
		}
	}
}

type c16Local struct {
	blocks  []*c16Node
	floats  []*c16Node
	inlines []interface{} // *c16Node (atomic inline) or c16Event (text of a block)
}

// local collects the non-positioned content of a (pseudo) context in tree order.
func c16LocalOf(kids []*c16Node, l *c16Local) {
	for _, k := range kids {
		if k.realContext() || k.positioned() {
			continue
		}
		switch k.b.Kind {
		case "float":
			l.floats = append(l.floats, k)
		case "iblock":
			l.inlines = append(l.inlines, k)
		default:
			l.blocks = append(l.blocks, k)
			l.inlines = append(l.inlines, c16Event{k.id, "text"})
			c16LocalOf(k.kids, l)
		}
	}
}

// paint emits the events of the (real or pseudo) context rooted at n; kids are the children of the root when n is nil.
func c16Paint(n *c16Node, kids []*c16Node, real bool, out *[]c16Event) {
	if n != nil {
		*out = append(*out, c16Event{n.id, "bg"}, c16Event{n.id, "border"})
		kids = n.kids
	}
	var lists c16Lists
	if real {
		c16Hoist(kids, &lists)
		sort.SliceStable(lists.neg, func(i, j int) bool { return lists.neg[i].z() < lists.neg[j].z() })
		sort.SliceStable(lists.pos, func(i, j int) bool { return lists.pos[i].z() < lists.pos[j].z() })
		for _, k := range lists.neg {
			c16Paint(k, nil, true, out)
		}
	}
	var loc c16Local
	c16LocalOf(kids, &loc)
	for _, b := range loc.blocks {
		*out = append(*out, c16Event{b.id, "bg"}, c16Event{b.id, "border"})
	}
	for _, f := range loc.floats {
		c16Paint(f, nil, false, out)
	}
	if n != nil {
		*out = append(*out, c16Event{n.id, "text"})
	}
	for _, it := range loc.inlines {
		switch v := it.(type) {
		case c16Event:
			*out = append(*out, v)
		case *c16Node:
			c16Paint(v, nil, false, out)
		}
	}
	if real {
		for _, k := range lists.zero {
			c16Paint(k, nil, k.realContext(), out)
		}
		for _, k := range lists.pos {
			c16Paint(k, nil, true, out)
		}
	}
	// step 10: the outlines of the boxes of this (pseudo) context, in tree order
	if n != nil && n.b.Outline {
		*out = append(*out, c16Event{n.id, "outline"})
	}
	for _, b := range loc.blocks {
		if b.b.Outline {
			*out = append(*out, c16Event{b.id, "outline"})
		}
	}
}

var c16BgRe = regexp.MustCompile(`background:rgb\((\d+),10,0\)`)

// c16LaidOutInSourceOrder tells whether the boxes of the scene appear in the laid-out tree (first
// fragment of each, tree order) in the order of the source.
func c16LaidOutInSourceOrder(r *wr.Rendered) bool {
	last, ok := 0, true
	seen := map[int]bool{}
	for _, p := range r.Pages {
		wr.WalkBoxes(p, func(b bo.Box) bool {
			bf := b.Box()
			if bf.Element == nil || bf.PseudoType != "" {
				return true
			}
			for _, a := range bf.Element.Attr {
				if a.Key != "style" {
					continue
				}
				if m := c16BgRe.FindStringSubmatch(a.Val); m != nil {
					id, _ := strconv.Atoi(m[1])
					if !seen[id] {
						seen[id] = true
						if id < last {
							ok = false
						}
						last = id
					}
				}
			}
			return true
		})
	}
	return ok
}

// c16Observed decodes the paint events of the trace through the colours.
func c16Observed(r *wr.Rendered) []c16Event {
	obs := c16ObservedFull(r)
	out := make([]c16Event, len(obs))
	for i, o := range obs {
		out[i] = o.ev
	}
	return out
}

func c16ObservedFull(r *wr.Rendered) []c16Obs {
	type state struct {
		fill, stroke [3]float32
		clips        int
		xforms       int
	}
	stacks := map[int][]state{}
	var out []c16Obs
	decode := func(col [3]float32) (c16Event, bool) {
		id := int(col[0]*255 + 0.5)
		g := int(col[1]*255 + 0.5)
		bl := int(col[2]*255 + 0.5)
		if id < 1 || bl != 0 {
			return c16Event{}, false
		}
		switch g {
		case 10:
			return c16Event{id, "bg"}, true
		case 100:
			return c16Event{id, "border"}, true
		case 200:
			return c16Event{id, "text"}, true
		case 150:
			return c16Event{id, "outline"}, true
		}
		return c16Event{}, false
	}
	var curCanvas, curClips, curXforms int
	add := func(e c16Event) {
		if len(out) > 0 && out[len(out)-1].ev == e {
			return
		}
		out = append(out, c16Obs{e, curCanvas, curClips, curXforms})
	}
	for _, e := range r.Rec.Events {
		st := stacks[e.Canvas]
		if len(st) == 0 {
			st = []state{{}}
		}
		top := &st[len(st)-1]
		curCanvas, curClips, curXforms = e.Canvas, top.clips, top.xforms
		switch e.Op {
		case "Transform":
			if len(e.F) == 6 && e.F[0] == 1 && e.F[1] == 0 && e.F[2] == 0 && e.F[3] == 1 && math.Abs(float64(e.F[4])-3) < 1e-3 && math.Abs(float64(e.F[5])-2) < 1e-3 {
				top.xforms++
			}
		case "Clip":
			top.clips++
		case "Push":
			st = append(st, *top)
		case "Pop":
			if len(st) > 1 {
				st = st[:len(st)-1]
			}
		case "SetColorRgba":
			col := [3]float32{e.F[0], e.F[1], e.F[2]}
			if e.F[4] != 0 {
				top.stroke = col
			} else {
				top.fill = col
			}
		case "Paint":
			col := top.fill
			if int(e.F[0])&1 != 0 && int(e.F[0])&^1 == 0 { // stroke only
				col = top.stroke
			}
			if ev, ok := decode(col); ok {
				add(ev)
			}
		case "DrawText":
			if ev, ok := decode(top.fill); ok {
				add(ev)
			}
		}
		stacks[e.Canvas] = st
	}
	return out
}

func c16Str(es []c16Event) string {
	var s []string
	for _, e := range es {
		s = append(s, fmt.Sprintf("%d.%s", e.box, e.layer))
	}
	return strings.Join(s, " ")
}

func c16Check(ci interface{}) Verdict {
	c := ci.(*C16Case)
	if c.Pages != nil {
		return c16CheckPages(c)
	}
	html, nodes := c16HTML(c)
	if len(nodes) > 249 {
		return Verdict{Excluded: "too-many-boxes-for-the-colour-code"}
	}
	r, err := wr.Render(html, wr.Opts{Engine: "pango", Zoom: 1})
	if err != nil {
		return Verdict{Excluded: "rejected"}
	}
	if len(r.Pages) != 1 {
		return Verdict{Excluded: "more-than-one-page"}
	}
	var tops []*c16Node
	for _, n := range nodes {
		if n.parent == nil {
			tops = append(tops, n)
		}
	}
	// the page box is the outermost context: its own background first, then the canvas background taken
	// from the root element, then the contexts of the document
	var want []c16Event
	if c.PageBG {
		want = append(want, c16Event{250, "bg"})
	}
	if c.RootBG {
		want = append(want, c16Event{251, "bg"})
	}
	c16Paint(nil, tops, true, &want)
	// consecutive duplicates are merged in the observation: do the same
	var wantM []c16Event
	for _, e := range want {
		if len(wantM) == 0 || wantM[len(wantM)-1] != e {
			wantM = append(wantM, e)
		}
	}
	got := c16Observed(r)
	labels := map[string]bool{}
	nz, ties, overflowStatic := 0, false, false
	seen := map[string]int{}
	for _, n := range nodes {
		if n.positioned() && n.b.Z != "" {
			nz++
			seen[n.b.Z]++
			if seen[n.b.Z] > 1 {
				ties = true
			}
			if n.z() < 0 {
				labels["negative-z"] = true
			}
		}
		if n.b.Opacity {
			labels["opacity"] = true
		}
		if n.b.Transform {
			labels["transform"] = true
		}
		if n.b.Overflow {
			labels["overflow-hidden"] = true
			overflowStatic = true
		}
		if n.b.Kind == "float" {
			labels["float"] = true
		}
		if n.parent != nil && n.parent.realContext() {
			labels["nested-context"] = true
		}
	}
	if ties {
		labels["z-ties"] = true
	}
	if len(nodes) >= 13 {
		labels["wide-context"] = true
	}
	var ls []string
	for l := range labels {
		ls = append(ls, l)
	}
	sort.Strings(ls)
	if c16Str(got) != c16Str(wantM) {
		// first difference
		i := 0
		for i < len(got) && i < len(wantM) && got[i] == wantM[i] {
			i++
		}
		cls := "order"
		if len(got) != len(wantM) {
			// a layer painted twice or not at all?
			cnt := map[c16Event]int{}
			for _, e := range got {
				cnt[e]++
			}
			for _, e := range wantM {
				cnt[e]--
			}
			for _, v := range cnt {
				if v != 0 {
					cls = "missing-or-repeated-layer"
				}
			}
		}
		if overflowStatic {
			cls += ":with-overflow-box"
		}
		var holds func(n *c16Node) bool
		holds = func(n *c16Node) bool {
			if n.positioned() || n.realContext() {
				return true
			}
			for _, k := range n.kids {
				if holds(k) {
					return true
				}
			}
			return false
		}
		// (C16-F02 is about floats that layout moved behind later content: it can only apply when the
		// laid-out tree no longer has the boxes in source order)
		if !c16LaidOutInSourceOrder(r) {
			for _, n := range nodes {
				if n.b.Kind == "float" && holds(n) {
					cls += ":with-float-holding-child-contexts"
					break
				}
			}
		}
		v := Viol("paint-"+cls, "paint sequence (box.layer) differs from CSS 2.1 Appendix E at event %d:\n observed: %s\n expected: %s\n%s", i, c16Str(got), c16Str(wantM), html)
		v.Labels = ls
		return v
	}
	// opacity and overflow apply to the whole sub-tree (order alone does not show it)
	obs := c16ObservedFull(r)
	parentOf := map[int]int{} // canvas -> parent canvas
	for _, cv := range r.Rec.Canvases {
		if cv.Parent != nil {
			parentOf[cv.ID] = cv.Parent.ID
		}
	}
	within := func(c, g int) bool {
		for k := 0; c != 0 && k < 64; k++ {
			if c == g {
				return true
			}
			c = parentOf[c]
		}
		return false
	}
	byID := map[int]*c16Node{}
	for _, n := range nodes {
		byID[n.id] = n
	}
	inSubtree := func(m, n *c16Node) bool {
		for ; m != nil; m = m.parent {
			if m == n {
				return true
			}
		}
		return false
	}
	for _, n := range nodes {
		if n.b.Opacity {
			g := -1
			for _, o := range obs {
				if o.ev.box == n.id && o.ev.layer == "bg" {
					g = o.canvas
				}
			}
			if g < 0 {
				continue
			}
			outer := -1
			for _, o := range obs {
				m := byID[o.ev.box]
				if m == nil {
					continue
				}
				if inSubtree(m, n) {
					if !within(o.canvas, g) {
						v := Viol("opacity:descendant-outside-group", "box %d has opacity but %d.%s of its sub-tree is not drawn into its group (canvas %d, group %d)\n%s", n.id, o.ev.box, o.ev.layer, o.canvas, g, html)
						v.Labels = ls
						return v
					}
				} else if within(o.canvas, g) && !inSubtree(n, m) {
					v := Viol("opacity:foreign-box-in-group", "box %d.%s, outside the sub-tree of box %d, is drawn into that box's opacity group\n%s", o.ev.box, o.ev.layer, n.id, html)
					v.Labels = ls
					return v
				} else if !within(o.canvas, g) {
					outer = o.canvas
				}
			}
			if outer == g {
				v := Viol("opacity:no-group", "box %d has opacity but is drawn on the same canvas as the boxes around it\n%s", n.id, html)
				v.Labels = ls
				return v
			}
			// the group is composited with the opacity
			used := false
			for _, e := range r.Rec.Events {
				if e.Op == "DrawWithOpacity" && e.Ref == g && len(e.F) > 0 && e.F[0] > 0.49 && e.F[0] < 0.51 {
					used = true
				}
			}
			if !used && !overflowStatic {
				v := Viol("opacity:group-not-composited", "the group of box %d is never drawn with opacity 0.5\n%s", n.id, html)
				v.Labels = ls
				return v
			}
		}
		if n.b.Overflow {
			base := -1
			canvas := -1
			// (backgrounds are painted under clips of their own: borders and texts are compared)
			for _, o := range obs {
				if o.ev.box == n.id && o.ev.layer == "border" {
					base, canvas = o.clips, o.canvas
				}
			}
			if base < 0 {
				continue
			}
			for _, o := range obs {
				m := byID[o.ev.box]
				if m == nil || m == n || !inSubtree(m, n) || o.canvas != canvas || o.ev.layer == "bg" || o.ev.layer == "outline" {
					// (outlines are drawn once the content of the context is, outside its clip: not judged)
					continue
				}
				// absolutely positioned boxes whose containing block lies outside the box are not clipped by it
				escapes := false
				for k := m; k != n; k = k.parent {
					if k.b.Pos == "absolute" {
						escapes = true
					}
				}
				if escapes {
					continue
				}
				if o.clips <= base {
					v := Viol("overflow:descendant-not-clipped", "box %d has overflow:hidden but %d.%s of its sub-tree is drawn with no more clip regions active (%d) than the box's own border (%d)\n%s", n.id, o.ev.box, o.ev.layer, o.clips, base, html)
					v.Labels = ls
					return v
				}
			}
		}
	}
	// a transform applies to the whole sub-tree of the box that declares it: every paint of that sub-tree is
	// issued with the transform of the box active (inside the opacity group of the box, when it has one)
	for _, o := range obs {
		m := byID[o.ev.box]
		if m == nil {
			continue
		}
		want := 0
		for k := m; k != nil; k = k.parent {
			if k.b.Transform {
				want++
			}
			if k.b.Opacity {
				break // a group starts a canvas of its own
			}
		}
		if o.xforms != want {
			v := Viol("transform:sub-tree", "%d.%s is painted with %d of the %d transforms declared by it and its ancestors (up to the enclosing opacity group) active\n%s", o.ev.box, o.ev.layer, o.xforms, want, html)
			v.Labels = ls
			return v
		}
	}
	return Verdict{NonTrivial: nz >= 2 || labels["float"], Labels: ls}
}

func init() {
	Register(&Prop{
		ID:               "C16",
		Gen:              c16Gen,
		New:              func() interface{} { return &C16Case{} },
		Check:            c16Check,
		CrashIsViolation: false,
		QuickN:           12000,
		ThoroughN:        400000,
		Rule: "Stacking scenes: 2-9 boxes nested up to 3 deep, each a block, float or inline-block with its own background, border, text and (one in four) outline colour and a text; four in ten relative or absolute positioned with z-index in {auto, 0, 1, 1, 2, -1, -1, -2}, one in four with opacity, transform or overflow:hidden; negative margins and offsets make boxes overlap. One scene in eight is a wide context of 10-28 positioned siblings sharing few z-index values. " +
			"Oracle: a reference of CSS 2.1 Appendix E (stacking context tree; per context: background and border of the root box, negative z-index contexts ascending with ties in tree order, in-flow block backgrounds and borders in tree order, floats atomically, inline content (texts and inline-blocks) in tree order, positioned boxes with z-index auto/0 and z-index-0 contexts in tree order with the hoisting of positioned descendants out of pseudo contexts, positive contexts ascending with ties in tree order) gives the expected sequence of (box, layer) paints; the observed sequence is decoded from the fill colours of Paint and DrawText calls of the backend trace in chronological order (groups are drawn where they are composited); both must be equal. Then: every paint of the sub-tree of an opacity box lies on that box's group canvas, nothing foreign does, and the group is composited with that opacity; borders and texts below an overflow:hidden box are drawn with more clip regions active than the box's own border. " +
			"One scene in twelve spans several pages: fixed-position boxes, relatively positioned blocks and forced breaks in a drawn order; every page paints all fixed boxes and its own blocks in tree order. " +
			"One box in eleven is a table (leaf, positioned or not). " +
			"Non-trivial: >= 2 boxes with explicit z-index, or a float.",
		ImportantLabels: []string{"kind:pages", "z-ties", "negative-z", "nested-context", "opacity", "transform", "overflow-hidden", "float", "wide-context"},
		Assumptions:     []string{"whether overflow:hidden clips the outlines of descendants is not judged (the engine draws the outlines of a context after its clipped content)", "the trace order of group contents is taken as their paint order (a group is composited right after its content is recorded)"},
	})
}
