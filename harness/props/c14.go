package props

import (
	"fmt"
	"math"
	"regexp"
	"sort"
	"strconv"
	"strings"
	"time"

	"github.com/benoitkugler/webrender/backend"
	bo "github.com/benoitkugler/webrender/html/boxes"
	"pgregory.net/rapid"

	"verif/harness/internal/gen"
	"verif/harness/internal/wr"
)

// C14 — The backend receives a well-formed, self-consistent drawing.

type C14Block struct {
	Kind  string `json:"kind"` // h p break
	Level int    `json:"level,omitempty"`
	ID    string `json:"id,omitempty"`
	Text  string `json:"text,omitempty"`
	Href  string `json:"href,omitempty"` // p: a link inside
	// bookmark overrides
	BLevel string `json:"blevel,omitempty"` // "", "none", "1".."6"
	BLabel string `json:"blabel,omitempty"`
	Closed bool   `json:"closed,omitempty"`
	Style  string `json:"style,omitempty"`
}

type C14Case struct {
	Kind     string     `json:"kind"` // links general
	Blocks   []C14Block `json:"blocks,omitempty"`
	Title    string     `json:"title,omitempty"`
	Authors  []string   `json:"authors,omitempty"`
	Desc     string     `json:"desc,omitempty"`
	Keywords string     `json:"keywords,omitempty"`
	Gen      string     `json:"generator,omitempty"`
	Zoom     float32    `json:"zoom,omitempty"`
	PageH    int        `json:"page_h,omitempty"`
	// Wrap: a transform on the element holding all blocks (links of later blocks lie inside two transforms)
	Wrap string `json:"wrap,omitempty"`
	// Bleed: declarations added to @page (bleed / marks): the media box grows around the page box
	Bleed string  `json:"bleed,omitempty"`
	Doc   gen.Doc `json:"doc,omitempty"`
}

func c14Gen(t *rapid.T, tier Tier) interface{} {
	c := &C14Case{}
	if rapid.IntRange(0, 2).Draw(t, "kind") == 0 {
		c.Kind = "general"
		c.Doc = gen.GenDoc(t, 3, false)
		c.Doc.Engine = "pango"
		return c
	}
	c.Kind = "links"
	n := rapid.IntRange(2, 10).Draw(t, "nblocks")
	ids := []string{"a", "b", "c", "d"}
	for i := 0; i < n; i++ {
		b := C14Block{}
		switch rapid.IntRange(0, 5).Draw(t, "bk") {
		case 0, 1:
			b.Kind = "h"
			b.Level = rapid.IntRange(1, 6).Draw(t, "hl")
			b.Text = fmt.Sprintf("H%d", i)
			switch rapid.IntRange(0, 5).Draw(t, "bov") {
			case 0:
				b.BLevel = rapid.SampledFrom([]string{"none", "1", "2", "3", "5"}).Draw(t, "blv")
			case 1:
				b.BLabel = fmt.Sprintf("L%d", i)
			}
			b.Closed = rapid.IntRange(0, 3).Draw(t, "closed") == 0
		case 2:
			b.Kind = "break"
		default:
			b.Kind = "p"
			b.Text = fmt.Sprintf("para%d words", i)
			if rapid.Bool().Draw(t, "link") {
				b.Href = rapid.SampledFrom([]string{"#a", "#b", "#c", "#d", "#missing", "http://example.com/x", "#", ""}).Draw(t, "href")
			}
			if rapid.IntRange(0, 5).Draw(t, "pbm") == 0 {
				b.BLevel = rapid.SampledFrom([]string{"1", "2", "4"}).Draw(t, "pblv")
			}
		}
		if b.Kind != "break" && rapid.Bool().Draw(t, "hasid") {
			b.ID = rapid.SampledFrom(ids).Draw(t, "id")
		}
		if b.Kind != "break" {
			b.Style = rapid.SampledFrom([]string{"", "", "", "transform:rotate(20deg)", "transform:scale(0)", "width:0;height:0;overflow:hidden", "background:linear-gradient(red,blue)", "border:3px dashed;border-radius:4px", "opacity:0.5", "margin-left:50%", "position:relative;left:10px", "float:left"}).Draw(t, "style")
		}
		c.Blocks = append(c.Blocks, b)
	}
	c.Title = rapid.SampledFrom([]string{"", "Title", "A  B", "é t"}).Draw(t, "title")
	if rapid.Bool().Draw(t, "auth") {
		c.Authors = []string{rapid.SampledFrom([]string{"Ann", "Bob B", "é"}).Draw(t, "a1")}
		if rapid.Bool().Draw(t, "auth2") {
			c.Authors = append(c.Authors, "Second")
		}
	}
	c.Desc = rapid.SampledFrom([]string{"", "a description", "x, y"}).Draw(t, "desc")
	c.Keywords = rapid.SampledFrom([]string{"", "k1", "k1, k2", "k1,k2 , k1"}).Draw(t, "kw")
	c.Gen = rapid.SampledFrom([]string{"", "gen 1.0"}).Draw(t, "gen")
	c.Zoom = rapid.SampledFrom([]float32{1, 1, 0.1, 2.5}).Draw(t, "zoom")
	c.PageH = rapid.SampledFrom([]int{60, 100, 200, 1000}).Draw(t, "pageh")
	c.Wrap = rapid.SampledFrom([]string{"", "", "", "transform:scale(0.5)", "transform:rotate(10deg)", "transform:translate(20px,5px)"}).Draw(t, "wrap")
	c.Bleed = rapid.SampledFrom([]string{"", "", "", "bleed:20px", "marks:crop", "bleed:8px;marks:cross crop"}).Draw(t, "bleed")
	return c
}

func c14HTML(c *C14Case) string {
	var b strings.Builder
	b.WriteString("<!DOCTYPE html><html><head>")
	if c.Title != "" {
		b.WriteString("<title>" + c.Title + "</title>")
	}
	for _, a := range c.Authors {
		b.WriteString(`<meta name="author" content="` + a + `">`)
	}
	if c.Desc != "" {
		b.WriteString(`<meta name="description" content="` + c.Desc + `">`)
	}
	if c.Keywords != "" {
		b.WriteString(`<meta name="keywords" content="` + c.Keywords + `">`)
	}
	if c.Gen != "" {
		b.WriteString(`<meta name="generator" content="` + c.Gen + `">`)
	}
	fmt.Fprintf(&b, `<style>@page{size:300px %dpx;margin:10px;`+c.Bleed+`}body{font:10px/1.2 Ahem;margin:0}h1,h2,h3,h4,h5,h6,p{margin:2px 0;font-size:10px}</style></head><body><div style="`+c.Wrap+`">`, c.PageH)
	for bi, bl := range c.Blocks {
		switch bl.Kind {
		case "break":
			b.WriteString(`<div style="break-before:page"></div>`)
			continue
		}
		tag := "p"
		if bl.Kind == "h" {
			tag = fmt.Sprintf("h%d", bl.Level)
		}
		st := bl.Style
		if bl.BLevel != "" {
			st += ";bookmark-level:" + bl.BLevel
		}
		if bl.BLabel != "" {
			st += ";bookmark-label:'" + bl.BLabel + "'"
		}
		if bl.Closed {
			st += ";bookmark-state:closed"
		}
		id := ""
		if bl.ID != "" {
			id = ` id="` + bl.ID + `"`
		}
		fmt.Fprintf(&b, `<%s%s style="%s">%s`, tag, id, st, bl.Text)
		if bl.Kind == "p" && bl.Href != "" || bl.Kind == "p" && bl.Href == "" && strings.Contains(bl.Text, "para") && false {
			fmt.Fprintf(&b, ` <a href="%s" style="background:rgb(%d,20,0)">link</a>`, bl.Href, bi+1)
		}
		fmt.Fprintf(&b, `</%s>`, tag)
	}
	b.WriteString("</div></body></html>")
	return b.String()
}

type c14Bm struct {
	label string
	level int
	open  bool
}

func c14FlattenBookmarks(ns []backend.BookmarkNode, depth int, out *[][2]interface{}) {
	for _, n := range ns {
		*out = append(*out, [2]interface{}{n, depth})
		c14FlattenBookmarks(n.Children, depth+1, out)
	}
}

// c14Protocol checks what holds for any document.
func c14Protocol(r *wr.Rendered) *Verdict {
	if len(r.Rec.Problems) > 0 {
		p := r.Rec.Problems[0]
		class := strings.SplitN(p, ":", 2)[0]
		detail := ""
		if f := strings.Fields(p); len(f) > 1 {
			detail = strings.Trim(f[1], "()")
		}
		v := Viol("backend:"+class+":"+detail, "the call sequence is ill-formed: %s", strings.Join(r.Rec.Problems, "; "))
		return &v
	}
	if r.Rec.NPages != len(r.Pages) {
		v := Viol("backend:addpage-count", "%d AddPage calls for %d laid-out pages", r.Rec.NPages, len(r.Pages))
		return &v
	}
	if r.Rec.AnchorsSet != 1 || len(r.Rec.Anchors) != len(r.Pages) {
		v := Viol("backend:create-anchors", "CreateAnchors called %d times with %d page lists for %d pages", r.Rec.AnchorsSet, len(r.Rec.Anchors), len(r.Pages))
		return &v
	}
	defined := map[string]int{}
	for pi, pa := range r.Rec.Anchors {
		for _, a := range pa {
			if _, dup := defined[a.Name]; dup {
				v := Viol("links:anchor-defined-twice", "anchor %q is defined on page %d and again on page %d", a.Name, defined[a.Name], pi)
				return &v
			}
			defined[a.Name] = pi
		}
	}
	for _, e := range r.Rec.Events {
		if e.Op == "AddInternalLink" {
			if _, ok := defined[e.S]; !ok {
				v := Viol("links:dangling-internal-link", "internal link to %q on page %d but CreateAnchors does not define it", e.S, e.Page)
				return &v
			}
		}
	}
	if r.Rec.BookmarksN != 1 {
		v := Viol("backend:set-bookmarks", "SetBookmarks called %d times", r.Rec.BookmarksN)
		return &v
	}
	var flat [][2]interface{}
	c14FlattenBookmarks(r.Rec.Bookmarks, 0, &flat)
	for _, f := range flat {
		n := f[0].(backend.BookmarkNode)
		if n.PageIndex < 0 || n.PageIndex >= len(r.Pages) {
			v := Viol("bookmarks:page-index", "bookmark %q points to page %d of %d", n.Label, n.PageIndex, len(r.Pages))
			return &v
		}
	}
	return nil
}

var c14NumRe = regexp.MustCompile(`[0-9]*\.?[0-9]+(?:[eE][+-]?[0-9]+)?`)

// c14Astronomic tells whether the style of the document names a number of magnitude 1e18 or more:
// its square is beyond what float32, the type of every length in the engine, can hold.
func c14Astronomic(html string, sheets []string) bool {
	for _, src := range append([]string{html}, sheets...) {
		for _, m := range c14NumRe.FindAllString(src, -1) {
			if f, err := strconv.ParseFloat(m, 64); (err == nil || math.IsInf(f, 0)) && math.Abs(f) >= 1e18 {
				return true
			}
		}
	}
	return false
}

// c14OnlyNonFinite: every recorded problem is a non finite number
func c14OnlyNonFinite(r *wr.Rendered) bool {
	for _, p := range r.Rec.Problems {
		if !strings.HasPrefix(p, "nonfinite:") {
			return false
		}
	}
	return true
}

func c14HasID(b bo.Box, id string) bool {
	if el := b.Box().Element; el != nil {
		for _, a := range el.Attr {
			if a.Key == "id" && a.Val == id {
				return true
			}
		}
	}
	return false
}

func c14Check(ci interface{}) Verdict {
	c := ci.(*C14Case)
	if c.Kind == "general" {
		r, err := wr.Render(c.Doc.HTML, wr.Opts{Engine: "pango", Hints: c.Doc.Hints, UserCSS: c.Doc.UserCSS, Zoom: c.Doc.Zoom})
		if err != nil {
			return Verdict{Excluded: "rejected", Labels: []string{"kind:general"}}
		}
		if v := c14Protocol(r); v != nil {
			v.Labels = []string{"kind:general"}
			if strings.HasPrefix(v.Sig, "backend:nonfinite:") && c14OnlyNonFinite(r) && c14Astronomic(c.Doc.HTML, c.Doc.UserCSS) {
				// lengths that float32 arithmetic cannot hold (C14-F01): honoured only while the ledger lists it
				tv := Verdict{Labels: []string{"kind:general", "astronomic-length"}}
				tv.Tolerate("backend:nonfinite:astronomic-length", "%s", v.Msg)
				return tv
			}
			return *v
		}
		paints := 0
		links := 0
		for _, e := range r.Rec.Events {
			if e.Op == "Paint" {
				paints++
			}
			if e.Op == "AddInternalLink" || e.Op == "Bookmark" {
				links++
			}
		}
		return Verdict{NonTrivial: paints > 0 && links > 0, Labels: []string{"kind:general"}}
	}
	doc := c14HTML(c)
	labels := map[string]bool{"kind:links": true, fmt.Sprintf("zoom:%g", c.Zoom): true}
	mk := func(v Verdict) Verdict {
		for l := range labels {
			v.Labels = append(v.Labels, l)
		}
		sort.Strings(v.Labels)
		return v
	}
	r, err := wr.Render(doc, wr.Opts{Zoom: c.Zoom})
	if err != nil {
		return mk(Verdict{Excluded: "rejected"})
	}
	if v := c14Protocol(r); v != nil {
		return mk(*v)
	}
	if len(r.Pages) > 1 {
		labels["pages>1"] = true
	}
	// ---- anchors: first element (document order) carrying each id
	wantAnchor := map[string]int{}
	for pi, p := range r.Pages {
		wr.WalkBoxes(p, func(b bo.Box) bool {
			if el := b.Box().Element; el != nil {
				for _, a := range el.Attr {
					if a.Key == "id" && a.Val != "" {
						if _, seen := wantAnchor[a.Val]; !seen {
							wantAnchor[a.Val] = pi
						}
					}
				}
			}
			return true
		})
	}
	// an element with display affected styles (scale(0), zero size) still generates a box; every id in the
	// document is expected among the boxes
	idCount := map[string]int{}
	for _, bl := range c.Blocks {
		if bl.ID != "" {
			idCount[bl.ID]++
		}
	}
	for id, n := range idCount {
		if n > 1 {
			labels["duplicate-ids"] = true
		}
		if _, ok := wantAnchor[id]; !ok {
			return mk(Verdict{Excluded: "id-without-box"})
		}
	}
	got := map[string]int{}
	for pi, pa := range r.Rec.Anchors {
		for _, a := range pa {
			got[a.Name] = pi
		}
	}
	for id, pi := range wantAnchor {
		g, ok := got[id]
		if !ok {
			return mk(Viol("links:anchor-missing", "id %q is in the document but CreateAnchors does not define it\n%s", id, doc))
		}
		if g != pi {
			return mk(Viol("links:anchor-on-wrong-page", "anchor %q defined on page %d, the first element with that id is on page %d\n%s", id, g, pi, doc))
		}
	}
	for id := range got {
		if _, ok := wantAnchor[id]; !ok {
			return mk(Viol("links:anchor-invented", "CreateAnchors defines %q, which no element carries\n%s", id, doc))
		}
	}
	// ---- links
	internal, external := map[string]int{}, map[string]int{}
	for _, e := range r.Rec.Events {
		switch e.Op {
		case "AddInternalLink":
			internal[e.S]++
		case "AddExternalLink":
			external[e.S]++
		}
	}
	for _, bl := range c.Blocks {
		if bl.Kind != "p" || bl.Href == "" {
			continue
		}
		invisible := strings.Contains(bl.Style, "scale(0)")
		switch {
		case strings.HasPrefix(bl.Href, "#") && len(bl.Href) > 1:
			id := bl.Href[1:]
			if _, exists := wantAnchor[id]; exists {
				labels["link-to-existing"] = true
				if internal[id] == 0 && !invisible {
					return mk(Viol("links:internal-link-dropped", "the link to #%s (which exists) is not emitted\n%s", id, doc))
				}
			} else {
				labels["link-to-missing"] = true
				if internal[id] != 0 {
					return mk(Viol("links:link-to-missing-anchor-kept", "a link to the missing anchor #%s is emitted\n%s", id, doc))
				}
			}
		case strings.HasPrefix(bl.Href, "http"):
			labels["external-link"] = true
			if external[bl.Href] == 0 && !invisible {
				return mk(Viol("links:external-link-dropped", "the external link %s is not emitted\n%s", bl.Href, doc))
			}
		}
	}
	// ---- a link lies where its box is painted: the rectangle handed to the backend is the bounding box of
	// the background painted for the <a> (same page canvas, whatever the zoom, the transforms and the bleed)
	if v := c14LinkGeometry(c, r, doc, labels); v != nil {
		return mk(*v)
	}
	// ---- bookmarks: reference of the level-stack algorithm (CSS GCPM section 6)
	var want []c14Bm
	for _, bl := range c.Blocks {
		if bl.Kind == "break" {
			continue
		}
		level := 0
		if bl.Kind == "h" {
			level = bl.Level
		}
		switch bl.BLevel {
		case "":
		case "none":
			level = 0
		default:
			fmt.Sscanf(bl.BLevel, "%d", &level)
		}
		if level == 0 {
			continue
		}
		label := bl.Text
		if bl.Kind == "p" && bl.Href != "" {
			label += " link"
		}
		if bl.BLabel != "" {
			label = bl.BLabel
		}
		want = append(want, c14Bm{label: label, level: level, open: !bl.Closed})
	}
	var flat [][2]interface{}
	c14FlattenBookmarks(r.Rec.Bookmarks, 0, &flat)
	if len(flat) != len(want) {
		return mk(Viol("bookmarks:count", "%d bookmark entries, the document declares %d\n%s", len(flat), len(want), doc))
	}
	// expected depth of each entry: number of open ancestors on the level stack
	var stack []int
	for i, w := range want {
		for len(stack) > 0 && stack[len(stack)-1] >= w.level {
			stack = stack[:len(stack)-1]
		}
		depth := len(stack)
		stack = append(stack, w.level)
		n := flat[i][0].(backend.BookmarkNode)
		d := flat[i][1].(int)
		if n.Label != w.label {
			return mk(Viol("bookmarks:label-or-order", "bookmark %d is %q, expected %q (document order)\n%s", i, n.Label, w.label, doc))
		}
		if d != depth {
			return mk(Viol("bookmarks:nesting", "bookmark %q (level %d) is at outline depth %d, the level stack gives %d\n%s", w.label, w.level, d, depth, doc))
		}
		if n.Open != w.open {
			return mk(Viol("bookmarks:state", "bookmark %q open=%v, expected %v\n%s", w.label, n.Open, w.open, doc))
		}
	}
	if len(want) > 1 {
		labels["bookmarks>1"] = true
	}
	// ---- metadata
	meta := r.Rec.Meta
	if g := strings.Join(meta["Title"], "|"); g != c.Title {
		return mk(Viol("meta:title", "SetTitle(%q), the document title is %q", g, c.Title))
	}
	if g := strings.Join(meta["Authors"], "|"); g != strings.Join(c.Authors, "|") {
		return mk(Viol("meta:authors", "SetAuthors(%q), expected %q", g, strings.Join(c.Authors, "|")))
	}
	if g := strings.Join(meta["Description"], "|"); g != c.Desc {
		return mk(Viol("meta:description", "SetDescription(%q), expected %q", g, c.Desc))
	}
	if g := strings.Join(meta["Creator"], "|"); g != c.Gen {
		return mk(Viol("meta:generator", "SetCreator(%q), expected %q", g, c.Gen))
	}
	var wantKw []string
	seen := map[string]bool{}
	if c.Keywords != "" {
		for _, k := range strings.Split(c.Keywords, ",") {
			k = strings.Trim(k, " \t\n\r\f")
			if !seen[k] {
				seen[k] = true
				wantKw = append(wantKw, k)
			}
		}
	}
	if g := strings.Join(meta["Keywords"], "|"); g != strings.Join(wantKw, "|") {
		return mk(Viol("meta:keywords", "SetKeywords(%q), expected %q", g, strings.Join(wantKw, "|")))
	}
	paints := 0
	for _, e := range r.Rec.Events {
		if e.Op == "Paint" {
			paints++
		}
	}
	return mk(Verdict{NonTrivial: paints > 0 && (len(want) > 0 || len(internal) > 0)})
}

func init() {
	Register(&Prop{
		ID:               "C14",
		Gen:              c14Gen,
		New:              func() interface{} { return &C14Case{} },
		Check:            c14Check,
		CrashIsViolation: false,
		CaseTimeout:      12 * time.Second,
		QuickN:           12000,
		ThoroughN:        200000,
		Rule: "Two families, both rendered through a checking backend that records every call and validates the protocol while recording: exactly one AddPage per laid-out page and none after CreateAnchors; every float argument finite; Paint/Clip only after path construction, LineTo/CubicTo/ClosePath only with a current point; DrawText only with fonts passed to AddFont; alpha in [0,1]; CreateAnchors once with one list per page; every anchor name defined once; every internal link names a defined anchor; SetBookmarks once, page indices within range. " +
			"general (one third): documents of the C01 generator (pango engine). links (two thirds): 2-10 blocks (headings h1-h6, paragraphs with an optional link to #a..#d / a missing id / an external URL, forced page breaks) with ids drawn from four names (duplicates on purpose), bookmark-level / bookmark-label / bookmark-state overrides, per-block transforms (incl. singular), zero-size boxes, gradients, dashed rounded borders, opacity, floats; <title>/<meta> author(s), description, keywords, generator; zoom in {0.1, 1, 2.5}; page height in {60,100,200,1000}. " +
			"Independent models: anchors = the first box in page/tree order per id, defined on that page and nothing else; links to existing ids emitted, links to missing ids dropped, external links emitted; bookmark outline = pre-order flattening equals the declared (label, level) sequence in document order, depth given by the level-stack algorithm, open/closed state kept; metadata forwarded (keywords split on commas, stripped, de-duplicated). " +
			"Links family: @page carries bleed / marks in half of the cases, every <a> has a background of its own colour, and the rectangle of each link must be the device-space bounding box of that background (slack 1.5 CSS px). " +
			"The blocks may sit inside a transformed element. " +
			"Non-trivial: at least one Paint and at least one bookmark or internal link.",
		ImportantLabels: []string{"link-geometry", "link-geometry-with-bleed", "kind:general", "kind:links", "pages>1", "duplicate-ids", "link-to-missing", "link-to-existing", "external-link", "bookmarks>1", "zoom:0.1", "zoom:2.5"},
		Assumptions:     []string{"crashes while rendering belong to C01: such cases are excluded here and counted"},
	})
}

// c14LinkGeometry compares every link rectangle with the device-space bounding boxes of the backgrounds
// painted on the page canvases for the links of the same target.
func c14LinkGeometry(c *C14Case, r *wr.Rendered, doc string, labels map[string]bool) *Verdict {
	byHref := map[string][]int{} // target -> colour ids of its <a> elements
	for bi, bl := range c.Blocks {
		if bl.Kind == "p" && bl.Href != "" {
			key := bl.Href
			if strings.HasPrefix(key, "#") {
				key = key[1:]
			}
			byHref[key] = append(byHref[key], bi+1)
		}
	}
	pageCanvas := map[int]bool{}
	type state struct{ fill [3]float32 }
	stacks := map[int][]state{}
	painted := map[int][][4]float64{} // colour id -> device boxes (xmin ymin xmax ymax)
	var pending [][4]float64
	for _, e := range r.Rec.Events {
		st := stacks[e.Canvas]
		if len(st) == 0 {
			st = []state{{}}
		}
		top := &st[len(st)-1]
		switch e.Op {
		case "AddPage":
			pageCanvas[e.Ref] = true
		case "Push":
			st = append(st, *top)
		case "Pop":
			if len(st) > 1 {
				st = st[:len(st)-1]
			}
		case "SetColorRgba":
			if e.F[4] == 0 {
				top.fill = [3]float32{e.F[0], e.F[1], e.F[2]}
			}
		case "Rectangle":
			if pageCanvas[e.Canvas] {
				m := e.CTM
				x, y, w, h := float64(e.F[0]), float64(e.F[1]), float64(e.F[2]), float64(e.F[3])
				bb := [4]float64{math.Inf(1), math.Inf(1), math.Inf(-1), math.Inf(-1)}
				for _, p := range [][2]float64{{x, y}, {x + w, y}, {x, y + h}, {x + w, y + h}} {
					px := float64(m[0])*p[0] + float64(m[2])*p[1] + float64(m[4])
					py := float64(m[1])*p[0] + float64(m[3])*p[1] + float64(m[5])
					bb[0], bb[1], bb[2], bb[3] = math.Min(bb[0], px), math.Min(bb[1], py), math.Max(bb[2], px), math.Max(bb[3], py)
				}
				pending = append(pending, bb)
			}
		case "Paint":
			id, g, bl := int(top.fill[0]*255+0.5), int(top.fill[1]*255+0.5), int(top.fill[2]*255+0.5)
			if g == 20 && bl == 0 && id >= 1 {
				painted[id] = append(painted[id], pending...)
			}
			pending = nil
		case "Clip", "MoveTo":
			pending = nil
		}
		stacks[e.Canvas] = st
	}
	// the rectangle of an inline box is as high as its line (12 px here), its background as high as its font
	// (10 px): one CSS pixel of slack on each side, 1.5 with rounding, in device units
	zoom := float64(c.Zoom)
	if zoom == 0 {
		zoom = 1
	}
	tol := 1.5*0.75*zoom + 0.02
	for _, e := range r.Rec.Events {
		if e.Op != "AddInternalLink" && e.Op != "AddExternalLink" {
			continue
		}
		var boxes [][4]float64
		complete := true
		for _, id := range byHref[e.S] {
			if len(painted[id]) == 0 {
				complete = false // painted inside a group (opacity) or not at all: which link is which is not known
			}
			boxes = append(boxes, painted[id]...)
		}
		if len(boxes) == 0 || !complete {
			continue
		}
		l := [4]float64{math.Min(float64(e.F[0]), float64(e.F[2])), math.Min(float64(e.F[1]), float64(e.F[3])), math.Max(float64(e.F[0]), float64(e.F[2])), math.Max(float64(e.F[1]), float64(e.F[3]))}
		found := false
		for _, b := range boxes {
			ok := true
			for k := 0; k < 4; k++ {
				if math.Abs(b[k]-l[k]) > tol {
					ok = false
				}
			}
			if ok {
				found = true
			}
		}
		labels["link-geometry"] = true
		if c.Bleed != "" {
			labels["link-geometry-with-bleed"] = true
		}
		if !found {
			v := Viol("links:rectangle-away-from-box", "the rectangle of the link to %q is %v, the background of its <a> is painted at %v (device space of the page)\n%s", e.S, l, boxes, doc)
			return &v
		}
	}
	return nil
}
