package props

import (
	"fmt"
	"math"
	"sort"
	"strings"

	"pgregory.net/rapid"

	"verif/harness/internal/wr"
)

// C18 — SVG shapes and paths are drawn with the geometry SVG defines.

type C18Cmd struct {
	Op   string      `json:"op"`   // one letter
	Args [][]float64 `json:"args"` // argument groups (implicit repetition)
}

type C18Case struct {
	Kind string `json:"kind"` // path shape viewbox
	// path
	Cmds []C18Cmd `json:"cmds,omitempty"`
	D    string   `json:"d,omitempty"` // the path data as written (number forms and separators drawn by the generator)
	// shape
	Shape string             `json:"shape,omitempty"`
	Attrs map[string]float64 `json:"attrs,omitempty"`
	Pts   []float64          `json:"pts,omitempty"`
	// viewbox
	VB    [4]float64 `json:"vb,omitempty"`
	W     float64    `json:"w,omitempty"`
	H     float64    `json:"h,omitempty"`
	PAR   string     `json:"par,omitempty"`
	DrawW float64    `json:"draw_w,omitempty"`
	DrawH float64    `json:"draw_h,omitempty"`
	// refs
	Refs *c18RefDoc `json:"refs,omitempty"`
}

var c18Nums = []float64{0, 1, 2, 5, 10, 20, 30, 50, 100, -1, -5, -10, -20, 0.5, 2.5, -0.5, 7.25, 12.75, 0.125, 3}

func c18Num(t *rapid.T) float64 { return rapid.SampledFrom(c18Nums).Draw(t, "num") }

// c18Fmt writes v in one of the legal number forms of the SVG path grammar.
func c18Fmt(t *rapid.T, v float64) string {
	av := math.Abs(v)
	sign := ""
	if v < 0 {
		sign = "-"
	}
	forms := []string{fmt.Sprintf("%g", v)}
	if v == math.Trunc(v) {
		forms = append(forms, fmt.Sprintf("%s%d.", sign, int(av)), fmt.Sprintf("%s%d.0", sign, int(av)), fmt.Sprintf("%s%de0", sign, int(av)), fmt.Sprintf("%s%dE0", sign, int(av)))
		if int(av)%10 == 0 && av >= 10 {
			forms = append(forms, fmt.Sprintf("%s%de1", sign, int(av)/10), fmt.Sprintf("%s%dE+1", sign, int(av)/10))
		}
		if v >= 0 {
			forms = append(forms, fmt.Sprintf("+%d", int(av)))
		}
	} else {
		s := fmt.Sprintf("%g", av)
		if strings.HasPrefix(s, "0.") {
			forms = append(forms, sign+s[1:]) // .5
		}
		forms = append(forms, fmt.Sprintf("%s%ge-1", sign, av*10), fmt.Sprintf("%s%gE-1", sign, av*10))
	}
	return rapid.SampledFrom(forms).Draw(t, "form")
}

var c18ArgCount = map[string]int{"M": 2, "L": 2, "H": 1, "V": 1, "C": 6, "S": 4, "Q": 4, "T": 2, "A": 7, "Z": 0}

func c18GenPath(t *rapid.T) ([]C18Cmd, string) {
	var cmds []C18Cmd
	var d strings.Builder
	n := rapid.IntRange(1, 8).Draw(t, "ncmds")
	lastTok := ""
	write := func(tok string, isNum bool) {
		// separators: none is legal before a sign or a leading dot following a number that cannot absorb it
		sep := rapid.SampledFrom([]string{" ", " ", ",", "  ", " , ", "\n", ""}).Draw(t, "sep")
		prevIsCmd := len(lastTok) == 1 && strings.ContainsAny(lastTok, "MmLlHhVvCcSsQqTtAaZz")
		if lastTok == "" || !isNum || prevIsCmd {
			// a comma only stands between two numbers
			if sep == "," || sep == " , " {
				sep = " "
			}
		}
		if sep == "" && isNum && lastTok != "" {
			ok := prevIsCmd
			if !ok && strings.HasPrefix(tok, "-") {
				ok = true
			}
			if !ok && strings.HasPrefix(tok, "+") {
				ok = true
			}
			if !ok && strings.HasPrefix(tok, ".") && strings.ContainsAny(lastTok, ".eE") {
				ok = true // "1.5.5" reads 1.5 then .5
			}
			if !ok {
				sep = " "
			}
		}
		d.WriteString(sep)
		d.WriteString(tok)
		lastTok = tok
	}
	for i := 0; i < n; i++ {
		ops := "MmLlHhVvCcSsQqTtAaZz"
		op := "M"
		if i > 0 {
			op = string(ops[rapid.IntRange(0, len(ops)-1).Draw(t, "op")])
		} else if rapid.Bool().Draw(t, "relm") {
			op = "m"
		}
		na := c18ArgCount[strings.ToUpper(op)]
		cmd := C18Cmd{Op: op}
		write(op, false)
		groups := 1
		if na > 0 && rapid.IntRange(0, 2).Draw(t, "rep") == 0 {
			groups = rapid.IntRange(2, 3).Draw(t, "groups")
		}
		if na == 0 {
			groups = 0
		}
		for g := 0; g < groups; g++ {
			var args []float64
			for a := 0; a < na; a++ {
				if strings.ToUpper(op) == "A" && (a == 3 || a == 4) {
					f := float64(rapid.IntRange(0, 1).Draw(t, "flag"))
					args = append(args, f)
					// flags may be packed with what follows
					tok := fmt.Sprintf("%d", int(f))
					if rapid.IntRange(0, 2).Draw(t, "packflag") == 0 && lastTok != "" && a == 4 {
						d.WriteString(tok)
						lastTok = "flag"
						continue
					}
					write(tok, true)
					lastTok = "flag"
					continue
				}
				v := c18Num(t)
				if strings.ToUpper(op) == "A" && a < 2 {
					v = math.Abs(v) // radii (negative ones are legal too: absolute value is used)
					if rapid.IntRange(0, 9).Draw(t, "negradius") == 0 {
						v = -v
					}
				}
				args = append(args, v)
				tok := c18Fmt(t, v)
				if lastTok == "flag" {
					// after a flag a number may follow without separator
					if rapid.IntRange(0, 2).Draw(t, "afterflag") == 0 {
						d.WriteString(tok)
						lastTok = tok
						continue
					}
					d.WriteString(" ")
					d.WriteString(tok)
					lastTok = tok
					continue
				}
				write(tok, true)
			}
			cmd.Args = append(cmd.Args, args)
		}
		cmds = append(cmds, cmd)
	}
	return cmds, strings.TrimSpace(d.String())
}

func c18Gen(t *rapid.T, tier Tier) interface{} {
	c := &C18Case{}
	switch rapid.IntRange(0, 9).Draw(t, "family") {
	case 9:
		c.Kind = "refs"
		c.Refs = c18GenRefs(t)
		return c
	case 0:
		c.Kind = "shape"
		c.Shape = rapid.SampledFrom([]string{"rect", "rect", "circle", "ellipse", "line", "polyline", "polygon"}).Draw(t, "shape")
		c.Attrs = map[string]float64{}
		pos := []float64{0, 5, 10, 30, 100, 2.5, -10}
		switch c.Shape {
		case "rect":
			c.Attrs["x"], c.Attrs["y"] = rapid.SampledFrom(pos).Draw(t, "x"), rapid.SampledFrom(pos).Draw(t, "y")
			c.Attrs["width"], c.Attrs["height"] = rapid.SampledFrom([]float64{0, 10, 40, 7.5}).Draw(t, "w"), rapid.SampledFrom([]float64{0, 10, 30}).Draw(t, "h")
			if rapid.Bool().Draw(t, "hasrx") {
				c.Attrs["rx"] = rapid.SampledFrom([]float64{0, 2, 5, 100}).Draw(t, "rx")
			}
			if rapid.Bool().Draw(t, "hasry") {
				c.Attrs["ry"] = rapid.SampledFrom([]float64{0, 3, 5, 100}).Draw(t, "ry")
			}
		case "circle":
			c.Attrs["cx"], c.Attrs["cy"], c.Attrs["r"] = rapid.SampledFrom(pos).Draw(t, "cx"), rapid.SampledFrom(pos).Draw(t, "cy"), rapid.SampledFrom([]float64{0, 1, 10, 25}).Draw(t, "r")
		case "ellipse":
			c.Attrs["cx"], c.Attrs["cy"] = rapid.SampledFrom(pos).Draw(t, "cx"), rapid.SampledFrom(pos).Draw(t, "cy")
			c.Attrs["rx"], c.Attrs["ry"] = rapid.SampledFrom([]float64{0, 1, 10, 25}).Draw(t, "rx"), rapid.SampledFrom([]float64{0, 2, 20}).Draw(t, "ry")
		case "line":
			c.Attrs["x1"], c.Attrs["y1"], c.Attrs["x2"], c.Attrs["y2"] = rapid.SampledFrom(pos).Draw(t, "x1"), rapid.SampledFrom(pos).Draw(t, "y1"), rapid.SampledFrom(pos).Draw(t, "x2"), rapid.SampledFrom(pos).Draw(t, "y2")
		default:
			for i, n := 0, rapid.IntRange(0, 9).Draw(t, "npts"); i < n; i++ {
				c.Pts = append(c.Pts, rapid.SampledFrom(pos).Draw(t, "pt"))
			}
		}
	case 1:
		c.Kind = "viewbox"
		c.VB = [4]float64{rapid.SampledFrom([]float64{0, 0, 10, -20}).Draw(t, "vbx"), rapid.SampledFrom([]float64{0, 0, 5, -10}).Draw(t, "vby"), rapid.SampledFrom([]float64{100, 50, 200, 10}).Draw(t, "vbw"), rapid.SampledFrom([]float64{100, 50, 20, 400}).Draw(t, "vbh")}
		c.W, c.H = rapid.SampledFrom([]float64{100, 200, 50, 300}).Draw(t, "w"), rapid.SampledFrom([]float64{100, 200, 50, 80}).Draw(t, "h")
		al := rapid.SampledFrom([]string{"xMinYMin", "xMidYMin", "xMaxYMin", "xMinYMid", "xMidYMid", "xMaxYMid", "xMinYMax", "xMidYMax", "xMaxYMax", "none", ""}).Draw(t, "align")
		mos := rapid.SampledFrom([]string{"", " meet", " slice"}).Draw(t, "mos")
		if al == "" {
			c.PAR = ""
		} else if al == "none" {
			c.PAR = "none"
		} else {
			c.PAR = al + mos
		}
		c.DrawW, c.DrawH = c.W, c.H
	default:
		c.Kind = "path"
		c.Cmds, c.D = c18GenPath(t)
	}
	return c
}

type c18Seg struct {
	op string // M L C Z R(ectangle)
	p  []float64
}

func (s c18Seg) String() string { return fmt.Sprintf("%s%v", s.op, s.p) }

// arc: the segment list holds a marker that is judged by a validity predicate
type c18Arc struct {
	x0, y0, rx, ry, rot float64
	large, sweep        bool
	x1, y1              float64
}

// c18Interpret: the reference path interpreter (SVG 1.1 8.3, SVG 2 9.3). Arcs are returned as markers.
func c18Interpret(cmds []C18Cmd) []interface{} {
	var out []interface{}
	var cx, cy, sx, sy float64
	var lastC, lastQ [2]float64
	prevFamily := "" // "C" after C/S, "Q" after Q/T
	for _, cmd := range cmds {
		up := strings.ToUpper(cmd.Op)
		rel := cmd.Op != up
		if up == "Z" {
			out = append(out, c18Seg{"Z", nil})
			cx, cy = sx, sy
			prevFamily = ""
			continue
		}
		for gi, a := range cmd.Args {
			ox, oy := 0.0, 0.0
			if rel {
				ox, oy = cx, cy
			}
			switch up {
			case "M":
				x, y := a[0]+ox, a[1]+oy
				if gi == 0 {
					out = append(out, c18Seg{"M", []float64{x, y}})
					sx, sy = x, y
				} else {
					out = append(out, c18Seg{"L", []float64{x, y}})
				}
				cx, cy = x, y
				prevFamily = ""
			case "L":
				cx, cy = a[0]+ox, a[1]+oy
				out = append(out, c18Seg{"L", []float64{cx, cy}})
				prevFamily = ""
			case "H":
				cx = a[0] + ox
				out = append(out, c18Seg{"L", []float64{cx, cy}})
				prevFamily = ""
			case "V":
				cy = a[0] + oy
				out = append(out, c18Seg{"L", []float64{cx, cy}})
				prevFamily = ""
			case "C":
				out = append(out, c18Seg{"C", []float64{a[0] + ox, a[1] + oy, a[2] + ox, a[3] + oy, a[4] + ox, a[5] + oy}})
				lastC = [2]float64{a[2] + ox, a[3] + oy}
				cx, cy = a[4]+ox, a[5]+oy
				prevFamily = "C"
			case "S":
				c1 := [2]float64{cx, cy}
				if prevFamily == "C" {
					c1 = [2]float64{2*cx - lastC[0], 2*cy - lastC[1]}
				}
				out = append(out, c18Seg{"C", []float64{c1[0], c1[1], a[0] + ox, a[1] + oy, a[2] + ox, a[3] + oy}})
				lastC = [2]float64{a[0] + ox, a[1] + oy}
				cx, cy = a[2]+ox, a[3]+oy
				prevFamily = "C"
			case "Q", "T":
				var q [2]float64
				var x, y float64
				if up == "Q" {
					q = [2]float64{a[0] + ox, a[1] + oy}
					x, y = a[2]+ox, a[3]+oy
				} else {
					q = [2]float64{cx, cy}
					if prevFamily == "Q" {
						q = [2]float64{2*cx - lastQ[0], 2*cy - lastQ[1]}
					}
					x, y = a[0]+ox, a[1]+oy
				}
				out = append(out, c18Seg{"C", []float64{cx + 2.0/3*(q[0]-cx), cy + 2.0/3*(q[1]-cy), x + 2.0/3*(q[0]-x), y + 2.0/3*(q[1]-y), x, y}})
				lastQ = q
				cx, cy = x, y
				prevFamily = "Q"
			case "A":
				x, y := a[5]+ox, a[6]+oy
				out = append(out, c18Arc{cx, cy, math.Abs(a[0]), math.Abs(a[1]), a[2], a[3] != 0, a[4] != 0, x, y})
				cx, cy = x, y
				prevFamily = ""
			}
		}
	}
	return out
}

// c18RecordedPath extracts the path operations of the trace between the first MoveTo/Rectangle and the Paint.
func c18RecordedPath(rec *wr.Recorder) []c18Seg {
	var out []c18Seg
	for _, e := range rec.Events {
		f := func() []float64 {
			v := make([]float64, len(e.F))
			for i, x := range e.F {
				v[i] = float64(x)
			}
			return v
		}
		switch e.Op {
		case "MoveTo":
			out = append(out, c18Seg{"M", f()})
		case "LineTo":
			out = append(out, c18Seg{"L", f()})
		case "CubicTo":
			out = append(out, c18Seg{"C", f()})
		case "ClosePath":
			out = append(out, c18Seg{"Z", nil})
		case "Rectangle":
			out = append(out, c18Seg{"R", f()})
		}
	}
	return out
}

func c18Near(a, b []float64, tol float64) bool {
	if len(a) != len(b) {
		return false
	}
	for i := range a {
		if math.Abs(a[i]-b[i]) > tol*(1+math.Abs(b[i])) {
			return false
		}
	}
	return true
}

func c18Draw(svg string, w, h float64) (*wr.Recorder, error) {
	img, err := wr.ParseSVG(svg, "")
	if err != nil {
		return nil, err
	}
	rec := wr.NewRecorder()
	page := rec.AddPage(0, 0, float32(w), float32(h))
	img.Draw(page, float32(w), float32(h), wr.NewTextCtx("pango"))
	return rec, nil
}

// c18CheckArc consumes the cubics of got[i:] that draw arc a; returns the next index.
func c18CheckArc(a c18Arc, got []c18Seg, i int) (int, string) {
	if a.x0 == a.x1 && a.y0 == a.y1 {
		return i, "" // omitted (SVG F.6.2)
	}
	if a.rx == 0 || a.ry == 0 {
		if i < len(got) && got[i].op == "L" && c18Near(got[i].p, []float64{a.x1, a.y1}, 1e-4) {
			return i + 1, ""
		}
		return i, fmt.Sprintf("an arc with a zero radius is a straight line to (%g,%g)", a.x1, a.y1)
	}
	// centre parameterisation (SVG F.6.5, F.6.6)
	phi := a.rot * math.Pi / 180
	cphi, sphi := math.Cos(phi), math.Sin(phi)
	dx, dy := (a.x0-a.x1)/2, (a.y0-a.y1)/2
	x1p, y1p := cphi*dx+sphi*dy, -sphi*dx+cphi*dy
	rx, ry := a.rx, a.ry
	if l := x1p*x1p/(rx*rx) + y1p*y1p/(ry*ry); l > 1 {
		rx, ry = rx*math.Sqrt(l), ry*math.Sqrt(l)
	}
	num := rx*rx*ry*ry - rx*rx*y1p*y1p - ry*ry*x1p*x1p
	den := rx*rx*y1p*y1p + ry*ry*x1p*x1p
	co := 0.0
	if den != 0 && num > 0 {
		co = math.Sqrt(num / den)
	}
	if a.large == a.sweep {
		co = -co
	}
	cxp, cyp := co*rx*y1p/ry, -co*ry*x1p/rx
	cx, cy := cphi*cxp-sphi*cyp+(a.x0+a.x1)/2, sphi*cxp+cphi*cyp+(a.y0+a.y1)/2
	ang := func(x, y float64) float64 { // angle of a point in the normalised (unit circle) space
		ux, uy := x-cx, y-cy
		xx, yy := (cphi*ux+sphi*uy)/rx, (-sphi*ux+cphi*uy)/ry
		return math.Atan2(yy, xx)
	}
	onEllipse := func(x, y float64) float64 {
		ux, uy := x-cx, y-cy
		xx, yy := (cphi*ux+sphi*uy)/rx, (-sphi*ux+cphi*uy)/ry
		return math.Hypot(xx, yy)
	}
	theta1, theta2 := ang(a.x0, a.y0), ang(a.x1, a.y1)
	dtheta := theta2 - theta1
	if a.sweep && dtheta < 0 {
		dtheta += 2 * math.Pi
	}
	if !a.sweep && dtheta > 0 {
		dtheta -= 2 * math.Pi
	}
	// walk the cubics
	px, py := a.x0, a.y0
	total := 0.0
	prev := theta1
	n := 0
	for i < len(got) && got[i].op == "C" {
		p := got[i].p
		for _, t := range []float64{0.25, 0.5, 0.75, 1} {
			mt := 1 - t
			x := mt*mt*mt*px + 3*mt*mt*t*p[0] + 3*mt*t*t*p[2] + t*t*t*p[4]
			y := mt*mt*mt*py + 3*mt*mt*t*p[1] + 3*mt*t*t*p[3] + t*t*t*p[5]
			if r := onEllipse(x, y); math.Abs(r-1) > 2e-2 {
				return i, fmt.Sprintf("a point of cubic %d of the arc lies at %.4f radius of the ellipse (centre %.3f,%.3f radii %.3f,%.3f)", n, r, cx, cy, rx, ry)
			}
			th := ang(x, y)
			d := th - prev
			for d > math.Pi {
				d -= 2 * math.Pi
			}
			for d < -math.Pi {
				d += 2 * math.Pi
			}
			total += d
			prev = th
		}
		px, py = p[4], p[5]
		i++
		n++
		if math.Abs(px-a.x1) <= 1e-3*(1+math.Abs(a.x1)) && math.Abs(py-a.y1) <= 1e-3*(1+math.Abs(a.y1)) && math.Abs(total-dtheta) < 0.05 {
			return i, ""
		}
		if n > 16 {
			break
		}
	}
	if n == 0 {
		return i, fmt.Sprintf("no curve drawn for the arc from (%g,%g) to (%g,%g)", a.x0, a.y0, a.x1, a.y1)
	}
	return i, fmt.Sprintf("the curves of the arc end at (%g,%g) after sweeping %.3f rad; the arc ends at (%g,%g) and sweeps %.3f rad", px, py, total, a.x1, a.y1, dtheta)
}

func c18Check(ci interface{}) Verdict {
	c := ci.(*C18Case)
	switch c.Kind {
	case "refs":
		return c18Refs(c)
	case "path":
		return c18Path(c)
	case "shape":
		return c18Shape(c)
	default:
		return c18ViewBox(c)
	}
}

func c18Path(c *C18Case) Verdict {
	svg := `<svg xmlns="http://www.w3.org/2000/svg" width="200" height="200"><path d="` + c.D + `" fill="red"/></svg>`
	rec, err := c18Draw(svg, 200, 200)
	if err != nil {
		return Verdict{Excluded: "svg-rejected"}
	}
	got := c18RecordedPath(rec)
	want := c18Interpret(c.Cmds)
	{
		// a closepath right after a closepath closes an empty sub-path: drawing it or not is the same outline
		var w2 []interface{}
		for _, w := range want {
			if a, ok := w.(c18Arc); ok && a.x0 == a.x1 && a.y0 == a.y1 {
				continue // an arc between identical points is omitted: it draws nothing between two closepaths
			}
			if s, ok := w.(c18Seg); ok && s.op == "Z" && len(w2) > 0 {
				if p, ok := w2[len(w2)-1].(c18Seg); ok && p.op == "Z" {
					continue
				}
			}
			w2 = append(w2, w)
		}
		want = w2
		var g2 []c18Seg
		for _, g := range got {
			if g.op == "Z" && len(g2) > 0 && g2[len(g2)-1].op == "Z" {
				continue
			}
			g2 = append(g2, g)
		}
		got = g2
	}
	labels := map[string]bool{}
	kinds := map[string]bool{}
	for _, cmd := range c.Cmds {
		labels["cmd:"+cmd.Op] = true
		kinds[strings.ToUpper(cmd.Op)] = true
		if len(cmd.Args) > 1 {
			labels["implicit-repetition"] = true
		}
	}
	if strings.ContainsAny(c.D, "eE") {
		labels["exponent-number"] = true
	}
	var ls []string
	for l := range labels {
		ls = append(ls, l)
	}
	sort.Strings(ls)
	gi := 0
	for wi, w := range want {
		switch s := w.(type) {
		case c18Seg:
			if gi >= len(got) {
				v := Viol("path:missing:"+s.op, "segment %d (%v) of the path is not drawn: d=%q\n drawn: %v\n expected: %v", wi, s, c.D, got, want)
				v.Labels = ls
				return v
			}
			g := got[gi]
			if g.op != s.op || !c18Near(g.p, s.p, 1e-4) {
				cls := s.op
				// which command produced it
				v := Viol("path:segment:"+cls+":"+c18CmdOf(c.Cmds, wi), "segment %d of d=%q is drawn as %v, SVG gives %v\n drawn: %v\n expected: %v", wi, c.D, g, s, got, want)
				v.Labels = ls
				return v
			}
			gi++
		case c18Arc:
			next, msg := c18CheckArc(s, got, gi)
			if msg != "" {
				v := Viol("path:arc", "d=%q: %s\n drawn: %v", c.D, msg, got)
				v.Labels = ls
				return v
			}
			gi = next
		}
	}
	if gi != len(got) {
		v := Viol("path:extra", "d=%q: %d more path operations than the path data describes: %v\n expected: %v", c.D, len(got)-gi, got[gi:], want)
		v.Labels = ls
		return v
	}
	nonTrivial := len(c.Cmds) >= 3 && len(kinds) >= 2
	return Verdict{NonTrivial: nonTrivial, Labels: ls}
}

// c18CmdOf names the command that produced expected segment number wi.
func c18CmdOf(cmds []C18Cmd, wi int) string {
	k := 0
	for _, cmd := range cmds {
		n := len(cmd.Args)
		if strings.ToUpper(cmd.Op) == "Z" {
			n = 1
		}
		for g := 0; g < n; g++ {
			if k == wi {
				s := cmd.Op
				if g > 0 {
					s += "-repeated"
				}
				return s
			}
			k++
		}
	}
	return "?"
}

func c18Shape(c *C18Case) Verdict {
	var attrs []string
	keys := make([]string, 0, len(c.Attrs))
	for k := range c.Attrs {
		keys = append(keys, k)
	}
	sort.Strings(keys)
	for _, k := range keys {
		attrs = append(attrs, fmt.Sprintf(`%s="%g"`, k, c.Attrs[k]))
	}
	if c.Shape == "polyline" || c.Shape == "polygon" {
		var ps []string
		for _, p := range c.Pts {
			ps = append(ps, fmt.Sprintf("%g", p))
		}
		attrs = append(attrs, `points="`+strings.Join(ps, " ")+`"`)
	}
	svg := `<svg xmlns="http://www.w3.org/2000/svg" width="200" height="200"><` + c.Shape + " " + strings.Join(attrs, " ") + ` fill="red" stroke="blue"/></svg>`
	rec, err := c18Draw(svg, 200, 200)
	if err != nil {
		return Verdict{Excluded: "svg-rejected"}
	}
	got := c18RecordedPath(rec)
	labels := []string{"shape:" + c.Shape}
	a := c.Attrs
	fail := func(sig, format string, args ...interface{}) Verdict {
		v := Viol("shape:"+c.Shape+":"+sig, format+"\n%s\n drawn: %v", append(args, svg, got)...)
		v.Labels = labels
		return v
	}
	// every drawn point, with the control polygon of curves
	var pts [][2]float64
	for _, s := range got {
		for i := 0; i+1 < len(s.p); i += 2 {
			if s.op == "R" && i >= 2 {
				break
			}
			pts = append(pts, [2]float64{s.p[i], s.p[i+1]})
		}
	}
	bbox := func() (x0, y0, x1, y1 float64) {
		x0, y0, x1, y1 = math.Inf(1), math.Inf(1), math.Inf(-1), math.Inf(-1)
		for _, s := range got {
			if s.op == "R" {
				x0, y0 = math.Min(x0, s.p[0]), math.Min(y0, s.p[1])
				x1, y1 = math.Max(x1, s.p[0]+s.p[2]), math.Max(y1, s.p[1]+s.p[3])
			}
		}
		for _, p := range pts {
			x0, y0, x1, y1 = math.Min(x0, p[0]), math.Min(y0, p[1]), math.Max(x1, p[0]), math.Max(y1, p[1])
		}
		return
	}
	near := func(u, v float64) bool { return math.Abs(u-v) <= 1e-3*(1+math.Abs(v)) }
	switch c.Shape {
	case "rect":
		if a["width"] == 0 || a["height"] == 0 {
			if len(got) != 0 {
				return fail("zero-size-drawn", "a rect with a zero width or height is not rendered (SVG 9.2)")
			}
			return Verdict{Labels: labels}
		}
		if len(got) == 0 {
			return fail("not-drawn", "nothing is drawn")
		}
		x0, y0, x1, y1 := bbox()
		if !near(x0, a["x"]) || !near(y0, a["y"]) || !near(x1, a["x"]+a["width"]) || !near(y1, a["y"]+a["height"]) {
			return fail("extent", "the outline spans [%g,%g]x[%g,%g], the rect is [%g,%g]x[%g,%g]", x0, x1, y0, y1, a["x"], a["x"]+a["width"], a["y"], a["y"]+a["height"])
		}
		// corner radii: rx/ry default to each other, clamped to half the size (SVG 9.2)
		rx, hasRx := a["rx"]
		ry, hasRy := a["ry"]
		if !hasRx && hasRy {
			rx = ry
		}
		if !hasRy && hasRx {
			ry = rx
		}
		rx, ry = math.Min(rx, a["width"]/2), math.Min(ry, a["height"]/2)
		rounded := rx > 0 && ry > 0
		hasCurve := false
		for _, s := range got {
			if s.op == "C" {
				hasCurve = true
			}
		}
		if rounded != hasCurve {
			return fail("corners", "effective corner radii %g,%g but curves drawn: %v", rx, ry, hasCurve)
		}
		if rounded {
			labels = append(labels, "rounded")
			// the straight part of the top edge starts at x+rx: a drawn point (x+rx, y) exists
			found := false
			for _, p := range pts {
				if near(p[0], a["x"]+rx) && near(p[1], a["y"]) {
					found = true
				}
			}
			if !found {
				return fail("corner-radius", "no outline point at (x+rx, y) = (%g,%g) with the effective rx=%g", a["x"]+rx, a["y"], rx)
			}
		}
	case "circle", "ellipse":
		rx, ry := a["rx"], a["ry"]
		if c.Shape == "circle" {
			rx, ry = a["r"], a["r"]
		}
		if rx == 0 || ry == 0 {
			if len(got) != 0 {
				return fail("zero-radius-drawn", "a zero radius disables rendering (SVG 9.3 / 9.4)")
			}
			return Verdict{Labels: labels}
		}
		if len(got) == 0 {
			return fail("not-drawn", "nothing is drawn")
		}
		// end points of every segment lie on the ellipse
		px, py := 0.0, 0.0
		for _, s := range got {
			var ex, ey float64
			switch s.op {
			case "M", "L":
				ex, ey = s.p[0], s.p[1]
			case "C":
				ex, ey = s.p[4], s.p[5]
				// mid point of the curve
				mx := 0.125*px + 0.375*s.p[0] + 0.375*s.p[2] + 0.125*ex
				my := 0.125*py + 0.375*s.p[1] + 0.375*s.p[3] + 0.125*ey
				if r := math.Hypot((mx-a["cx"])/rx, (my-a["cy"])/ry); math.Abs(r-1) > 1e-2 {
					return fail("off-ellipse", "the middle of a curve lies at %.4f radius of the ellipse", r)
				}
			default:
				continue
			}
			if r := math.Hypot((ex-a["cx"])/rx, (ey-a["cy"])/ry); math.Abs(r-1) > 1e-3 {
				return fail("off-ellipse", "point (%g,%g) lies at %.4f radius of the ellipse", ex, ey, r)
			}
			px, py = ex, ey
		}
		x0, y0, x1, y1 := bbox()
		if x0 > a["cx"]-rx+1e-2 || x1 < a["cx"]+rx-1e-2 || y0 > a["cy"]-ry+1e-2 || y1 < a["cy"]+ry-1e-2 {
			return fail("extent", "the outline does not go round the whole ellipse")
		}
	case "line":
		want := []c18Seg{{"M", []float64{a["x1"], a["y1"]}}, {"L", []float64{a["x2"], a["y2"]}}}
		if len(got) != 2 || got[0].op != "M" || got[1].op != "L" || !c18Near(got[0].p, want[0].p, 1e-4) || !c18Near(got[1].p, want[1].p, 1e-4) {
			return fail("outline", "expected %v", want)
		}
	default: // polyline, polygon
		n := len(c.Pts) / 2 // an odd number of coordinates: the last one is dropped (SVG 9.6 error handling: render up to the error)
		if n == 0 {
			if len(got) != 0 {
				return fail("empty-drawn", "no complete point but something is drawn")
			}
			return Verdict{Labels: labels}
		}
		var want []c18Seg
		for i := 0; i < n; i++ {
			op := "L"
			if i == 0 {
				op = "M"
			}
			want = append(want, c18Seg{op, []float64{c.Pts[2*i], c.Pts[2*i+1]}})
		}
		if c.Shape == "polygon" {
			want = append(want, c18Seg{"Z", nil})
		}
		if len(c.Pts)%2 == 1 {
			labels = append(labels, "odd-coordinate-count")
		}
		if len(got) != len(want) {
			return fail("outline", "expected %v", want)
		}
		for i := range want {
			if got[i].op != want[i].op || !c18Near(got[i].p, want[i].p, 1e-4) {
				return fail("outline", "expected %v", want)
			}
		}
	}
	return Verdict{NonTrivial: true, Labels: labels}
}

func c18ViewBox(c *C18Case) Verdict {
	par := ""
	if c.PAR != "" {
		par = ` preserveAspectRatio="` + c.PAR + `"`
	}
	svg := fmt.Sprintf(`<svg xmlns="http://www.w3.org/2000/svg" width="%g" height="%g" viewBox="%g %g %g %g"%s><path d="M%g %g L%g %g" stroke="red"/></svg>`,
		c.W, c.H, c.VB[0], c.VB[1], c.VB[2], c.VB[3], par, c.VB[0], c.VB[1], c.VB[0]+c.VB[2], c.VB[1]+c.VB[3])
	rec, err := c18Draw(svg, c.DrawW, c.DrawH)
	if err != nil {
		return Verdict{Excluded: "svg-rejected"}
	}
	// expected transform (SVG 7.8, 7.11): the viewBox corners in viewport coordinates
	sx, sy := c.W/c.VB[2], c.H/c.VB[3]
	align, mos := "xMidYMid", "meet"
	if f := strings.Fields(c.PAR); len(f) > 0 {
		align = f[0]
		if len(f) > 1 {
			mos = f[1]
		}
	}
	tx, ty := -c.VB[0]*sx, -c.VB[1]*sy
	if align != "none" {
		s := math.Min(sx, sy)
		if mos == "slice" {
			s = math.Max(sx, sy)
		}
		sx, sy = s, s
		tx, ty = -c.VB[0]*s, -c.VB[1]*s
		switch {
		case strings.Contains(align, "xMid"):
			tx += (c.W - c.VB[2]*s) / 2
		case strings.Contains(align, "xMax"):
			tx += c.W - c.VB[2]*s
		}
		switch {
		case strings.Contains(align, "YMid"):
			ty += (c.H - c.VB[3]*s) / 2
		case strings.Contains(align, "YMax"):
			ty += c.H - c.VB[3]*s
		}
	}
	want := [][2]float64{{c.VB[0]*sx + tx, c.VB[1]*sy + ty}, {(c.VB[0]+c.VB[2])*sx + tx, (c.VB[1]+c.VB[3])*sy + ty}}
	var got [][2]float64
	for _, e := range rec.Events {
		if e.Op == "MoveTo" || e.Op == "LineTo" {
			m := e.CTM
			x, y := float64(e.F[0]), float64(e.F[1])
			got = append(got, [2]float64{float64(m[0])*x + float64(m[2])*y + float64(m[4]), float64(m[1])*x + float64(m[3])*y + float64(m[5])})
		}
	}
	labels := []string{"viewbox", "align:" + align, "mos:" + mos}
	if len(got) != 2 {
		v := Viol("viewbox:probe-not-drawn", "the probe line is not drawn\n%s", svg)
		v.Labels = labels
		return v
	}
	for i := range want {
		if math.Abs(got[i][0]-want[i][0]) > 1e-2 || math.Abs(got[i][1]-want[i][1]) > 1e-2 {
			v := Viol("viewbox:"+align+":"+mos, "the corners of the viewBox are mapped to %v, SVG 7.8 / 7.11 gives %v\n%s", got, want, svg)
			v.Labels = labels
			return v
		}
	}
	return Verdict{NonTrivial: math.Abs(c.W/c.VB[2]-c.H/c.VB[3]) > 1e-9, Labels: labels}
}

func init() {
	Register(&Prop{
		ID:               "C18",
		Gen:              c18Gen,
		New:              func() interface{} { return &C18Case{} },
		Check:            c18Check,
		CrashIsViolation: false,
		QuickN:           60000,
		ThoroughN:        1500000,
		Rule: "Three families. path (80%): 1-8 commands among the 20 of the SVG path grammar (absolute / relative), each with 1-3 argument groups (implicit repetition; extra pairs of a moveto), numbers from a pool of 20 values written in every legal form (integer, trailing or leading dot, exponent e/E with sign, explicit +), separators drawn among space, comma, newline and nothing where the grammar allows it (sign, leading dot after a number holding a dot, after a command letter, packed arc flags). " +
			"Oracle: an independent path interpreter (current point, sub-path start, last cubic / quadratic control point with reflection only after a command of the same family, H/V, quadratic to cubic elevation, closepath returning to the sub-path start) gives the expected MoveTo / LineTo / CubicTo / ClosePath list, compared with the recorded backend operations (1e-4 relative); arcs are judged by a validity predicate: zero radius = straight line, same end point = nothing, else the drawn cubics chain from the current point to the end point, four samples of each lie on the ellipse of the SVG F.6 centre parameterisation (radii scaled up when too small) within 2%, and the swept angle matches the flags. " +
			"shape (10%): rect (rx/ry defaulting and clamping, zero sizes), circle, ellipse, line, polyline, polygon (odd coordinate counts) against the outlines of SVG 9. viewbox (10%): viewBox x width/height x the 9 alignments x meet/slice/none: a probe line along the viewBox diagonal must land where SVG 7.8 / 7.11 place the viewBox corners. " +
			"Reference graphs (one case in ten): 1-3 definitions (clipPath, gradient, pattern, mask, marker, symbol; a definition may reference another one or itself), 1-3 element trees referencing them (also an element and its descendant the same one, also missing ids); pointing one reference at an identical copy of its definition must give the same backend calls, except for definitions on a ring, which only have to return. " +
			"A marker may stand at several vertices of one shape. " +
			"Non-trivial: a path of >= 3 commands of >= 2 kinds; any drawn shape; a viewBox whose aspect ratio differs from the viewport's.",
		ImportantLabels: []string{"kind:refs", "cmd:S", "cmd:s", "cmd:T", "cmd:t", "cmd:A", "cmd:a", "cmd:Z", "cmd:m", "cmd:Q", "cmd:H", "cmd:v", "implicit-repetition", "exponent-number", "shape:rect", "rounded", "shape:polygon", "viewbox", "mos:slice"},
		Assumptions:     []string{"reference graphs among defs (use, gradients, patterns, markers, clip paths, masks; repeated, missing and cyclic ids) are judged by one relation: a reference pointed at an identical copy of its definition draws the same calls (definitions on a ring only have to return); termination on hostile graphs is also exercised by C01 / C07"},
	})
}
