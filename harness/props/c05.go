package props

import (
	"fmt"
	"strings"

	"github.com/benoitkugler/webrender/css/selector"
	"golang.org/x/net/html"
	"pgregory.net/rapid"

	sg "verif/harness/internal/selgen"
)

// C05 — Selectors match and weigh elements as the Selectors spec defines.

type C05Case struct {
	Sel  sg.Group  `json:"selector"`
	Text string    `json:"text"`
	DOM  []sg.Elem `json:"dom"`
}

func c05Gen(t *rapid.T, tier Tier) interface{} {
	c := &C05Case{}
	c.Sel = sg.GenGroup(t, 2)
	c.Text = sg.Printer{T: t}.Group(c.Sel)
	max := 12
	if tier == Thorough {
		max = 18
	}
	c.DOM = sg.GenDOM(t, max)
	return c
}

func c05Labels(c sg.Complex, labels map[string]bool) {
	for _, cb := range c.Combs {
		labels["comb:"+cb] = true
	}
	for _, cp := range c.Compounds {
		for _, s := range cp.Simples {
			k := s.Kind
			if k == "attr" {
				k = "attr" + s.Op
				if s.Flag {
					labels["attr-i"] = true
				}
				if s.Val == "" && s.Op != "" {
					labels["attr-empty-value"] = true
				}
			}
			if k == "nth" {
				if s.OfType {
					k += "-of-type"
				}
				if s.Last {
					k += "-last"
				}
				if s.A < 0 {
					labels["nth-negative-a"] = true
				}
			}
			labels["simple:"+k] = true
			for _, a := range s.Args {
				c05Labels(a, labels)
			}
		}
	}
}

func pathOf(n *html.Node) string {
	var parts []string
	for x := n; x != nil && x.Type == html.ElementNode; x = x.Parent {
		i := 1
		for s := x.PrevSibling; s != nil; s = s.PrevSibling {
			if s.Type == html.ElementNode {
				i++
			}
		}
		parts = append([]string{fmt.Sprintf("%s[%d]", x.Data, i)}, parts...)
	}
	return strings.Join(parts, "/")
}

func c05Check(ci interface{}) Verdict {
	c := ci.(*C05Case)
	labels := map[string]bool{}
	for _, s := range c.Sel {
		c05Labels(s.Complex, labels)
		if s.PseudoElement != "" {
			labels["pseudo-element"] = true
		}
	}
	if len(c.Sel) > 1 {
		labels["selector-list"] = true
	}
	mk := func(v Verdict) Verdict {
		for l := range labels {
			v.Labels = append(v.Labels, l)
		}
		return v
	}
	root, err := html.Parse(strings.NewReader(sg.DocHTML(c.DOM)))
	if err != nil {
		return mk(Verdict{Excluded: "html-parse"})
	}
	elems := sg.Elements(root)
	parsed, err := selector.ParseGroup(c.Text)
	if err != nil {
		return mk(Viol("parse:rejects-valid", "ParseGroup(%q) fails on a valid selector: %v", c.Text, err))
	}
	if len(parsed) != len(c.Sel) {
		return mk(Viol("parse:group-length", "ParseGroup(%q) yields %d selectors, expected %d", c.Text, len(parsed), len(c.Sel)))
	}
	nt := false
	vectors := make([][]bool, len(parsed))
	for i, p := range parsed {
		ref := c.Sel[i]
		scopeSensitive := sg.HasScopeSensitive(ref.Complex)
		matched := 0
		for _, n := range elems {
			want := sg.MatchComplex(ref.Complex, n, nil)
			got := p.Match(n)
			vectors[i] = append(vectors[i], got)
			if got {
				matched++
			}
			if got != want {
				sig := "match:" + c05FirstFeature(ref.Complex)
				if scopeSensitive {
					sig = "match:has-with-combinator"
				} else if c05WhitespaceOnlyAttrClass(c) {
					sig = "match:substring-operator-on-blank-attribute"
				}
				return mk(Viol(sig, "selector %q on element %s of %s: implementation %v, Selectors definition %v", sg.Printer{}.Selector(ref), pathOf(n), sg.DocHTML(c.DOM), got, want))
			}
		}
		if matched > 0 && matched < len(elems) {
			nt = true
			labels["selective-match"] = true
		}
		if got, want := p.Specificity(), sg.SpecSelector(ref); [3]int(got) != [3]int(want) {
			return mk(Viol("specificity", "selector %q: specificity %v, expected %v", sg.Printer{}.Selector(ref), got, want))
		}
		if got := p.PseudoElement(); got != ref.PseudoElement {
			return mk(Viol("pseudo-element", "selector %q: pseudo-element %q, expected %q", c.Text, got, ref.PseudoElement))
		}
	}
	// print back and re-parse
	printed := parsed.String()
	re, err := selector.ParseGroup(printed)
	if err != nil {
		return mk(Viol("roundtrip:reparse-fails", "ParseGroup(%q).String() = %q does not parse: %v", c.Text, printed, err))
	}
	if len(re) != len(parsed) {
		return mk(Viol("roundtrip:group-length", "%q printed as %q: %d selectors vs %d", c.Text, printed, len(re), len(parsed)))
	}
	for i, p := range re {
		for j, n := range elems {
			if p.Match(n) != vectors[i][j] {
				return mk(Viol("roundtrip:match-differs", "%q printed as %q matches %s differently", c.Text, printed, pathOf(n)))
			}
		}
		if p.Specificity() != parsed[i].Specificity() || p.PseudoElement() != parsed[i].PseudoElement() {
			return mk(Viol("roundtrip:specificity-or-pseudo", "%q printed as %q: specificity/pseudo-element changed", c.Text, printed))
		}
	}
	return mk(Verdict{NonTrivial: nt})
}

// c05WhitespaceOnlyAttrClass is the class of a listed finding: the selector holds a ^= $= *=
// test whose (non-empty) value is made of white space only, and the document holds an
// attribute whose value is made of white space only.
func c05WhitespaceOnlyAttrClass(c *C05Case) bool {
	blank := func(s string) bool { return s != "" && strings.TrimSpace(s) == "" }
	selHas := false
	var visit func(c sg.Complex)
	visit = func(c sg.Complex) {
		for _, cp := range c.Compounds {
			for _, s := range cp.Simples {
				if s.Kind == "attr" && (s.Op == "^=" || s.Op == "$=" || s.Op == "*=") && blank(s.Val) {
					selHas = true
				}
				for _, a := range s.Args {
					visit(a)
				}
			}
		}
	}
	for _, s := range c.Sel {
		visit(s.Complex)
	}
	if !selHas {
		return false
	}
	var domHas func(es []sg.Elem) bool
	domHas = func(es []sg.Elem) bool {
		for _, e := range es {
			for _, v := range e.Attrs {
				if blank(v) {
					return true
				}
			}
			if domHas(e.Children) {
				return true
			}
		}
		return false
	}
	return domHas(c.DOM)
}

// c05FirstFeature names the most specific feature class of a selector, for signatures.
func c05FirstFeature(c sg.Complex) string {
	best := "simple"
	rank := 0
	var visit func(c sg.Complex)
	visit = func(c sg.Complex) {
		for _, cp := range c.Compounds {
			for _, s := range cp.Simples {
				r, name := 1, s.Kind
				switch s.Kind {
				case "attr":
					r, name = 3, "attr"+s.Op
					if s.Val == "" && s.Op != "" && s.Op != "=" && s.Op != "|=" {
						r, name = 6, "attr"+s.Op+"-empty-value"
					} else if s.Flag {
						r, name = 4, "attr-i"
					}
				case "nth":
					r, name = 3, "nth"
					if s.OfType {
						name = "nth-of-type"
					}
				case "only", "root", "empty":
					r = 3
				case "not", "is", "has":
					r = 2
				}
				if r > rank {
					rank, best = r, name
				}
				for _, a := range s.Args {
					visit(a)
				}
			}
		}
	}
	visit(c)
	return best
}

func init() {
	Register(&Prop{
		ID:               "C05",
		Gen:              c05Gen,
		New:              func() interface{} { return &C05Case{} },
		Check:            c05Check,
		CrashIsViolation: true,
		QuickN:           80000,
		ThoroughN:        1500000,
		Rule: "Cases: a selector-list AST over exactly the listed grammar (type incl. two unknown custom tags, *, class, id, [a], [a op v] for = ~= |= ^= $= *= with optional i flag and values incl. empty / spaces / hyphens / mixed case / Kelvin sign; combinators descendant > + ~; :nth-(last-)child/of-type(an+b) with a,b in [-4,4] and odd/even/first/last spellings; :only-child/of-type, :root, :empty, :not/:is/:has lists nested to depth 2; optional pseudo-element), " +
			"printed with randomised legal white space, tag/attribute-name case and escapes; and an HTML document (<=12 elements, 18 in thorough; duplicate ids/classes, attribute values from the selector pool, text that is empty / white space / NBSP / real, comments) parsed by html.Parse as the pipeline does. " +
			"Oracle: independent reference evaluator of Selectors 4 over *html.Node applied to every element; reference specificity on the AST (:is/:not/:has = most specific argument, pseudo-element +0,0,1); ParseGroup must accept; printed-back selector must re-parse with the same match vector, specificity and pseudo-element. " +
			"Attribute values include pairs of ASCII characters 0x20 apart that are not letters ([x] {x} a^b a~b EN@ en` a_b). " +
			"Class lists may be joined by NBSP / VT / NEL / ideographic / em space (no separators). " +
			"Non-trivial: some selector of the list matches at least one and not all elements.",
		ImportantLabels: []string{"selective-match", "simple:not", "simple:is", "simple:has", "simple:empty", "simple:root", "simple:nth", "simple:nth-of-type", "comb:+", "comb:~", "comb:>", "attr-empty-value", "attr-i", "pseudo-element", "selector-list"},
		Assumptions:     []string{"documents are in no-quirks mode (DOCTYPE present), where class and id selectors are case-sensitive", ":has(x y) is read as a relative selector anchored at the subject (Selectors 4); disagreements there carry their own signature"},
	})
}
