package props

import (
	"fmt"
	"math"
	"sort"
	"strconv"
	"strings"

	pr "github.com/benoitkugler/webrender/css/properties"
	bo "github.com/benoitkugler/webrender/html/boxes"
	"pgregory.net/rapid"

	"verif/harness/internal/wr"
)

// C13 — Table cells form a consistent grid.

type C13Case struct {
	HTML string `json:"html"`
	// geometry inputs the oracle needs
	HSpacing, VSpacing float64 `json:"-"`
}

func c13Gen(t *rapid.T, tier Tier) interface{} {
	var b strings.Builder
	cw := rapid.SampledFrom([]int{60, 120, 200, 400, 800}).Draw(t, "cw")
	var ts []string
	switch rapid.IntRange(0, 5).Draw(t, "tw") {
	case 0:
		ts = append(ts, "width:"+rapid.SampledFrom([]string{"50px", "150px", "300px", "1000px", "1px"}).Draw(t, "twpx"))
	case 1:
		ts = append(ts, "width:"+rapid.SampledFrom([]string{"50%", "100%", "120%"}).Draw(t, "twpc"))
	}
	if rapid.IntRange(0, 3).Draw(t, "fixed") == 0 {
		ts = append(ts, "table-layout:fixed")
	}
	ts = append(ts, "border-spacing:"+rapid.SampledFrom([]string{"0", "0", "2px", "4px", "3px 5px", "10px 1px"}).Draw(t, "bsp"))
	if rapid.IntRange(0, 4).Draw(t, "collapse") == 0 {
		ts = append(ts, "border-collapse:collapse")
	}
	if rapid.IntRange(0, 2).Draw(t, "tb") == 0 {
		ts = append(ts, "border:"+rapid.SampledFrom([]string{"1px solid", "3px solid", "2px dashed"}).Draw(t, "tborder"))
	}
	if rapid.IntRange(0, 5).Draw(t, "tp") == 0 {
		ts = append(ts, "padding:"+rapid.SampledFrom([]string{"3px", "5px 10px"}).Draw(t, "tpad"))
	}
	if rapid.IntRange(0, 6).Draw(t, "tm") == 0 {
		ts = append(ts, "margin:"+rapid.SampledFrom([]string{"auto", "5px", "0 0 0 20px"}).Draw(t, "tmargin"))
	}
	fmt.Fprintf(&b, `<!DOCTYPE html><html><head><style>@page{size:3000px 100000px;margin:0} html,body{margin:0;padding:0} body{font:10px/1 Ahem} td,th{padding:0;font-weight:normal;text-align:left} x-c{display:block}</style></head><body><x-c style="width:%dpx"><table id="t" style="%s">`, cw, strings.Join(ts, ";"))
	if rapid.IntRange(0, 4).Draw(t, "cap") == 0 {
		b.WriteString(`<caption style="caption-side:` + rapid.SampledFrom([]string{"top", "bottom"}).Draw(t, "capside") + `">cap tion</caption>`)
	}
	if rapid.IntRange(0, 4).Draw(t, "cols") == 0 {
		b.WriteString("<colgroup>")
		for i, n := 0, rapid.IntRange(1, 3).Draw(t, "ncol"); i < n; i++ {
			st := ""
			if rapid.Bool().Draw(t, "colw") {
				st = ` style="width:` + rapid.SampledFrom([]string{"20px", "50px", "30%", "100px"}).Draw(t, "colwidth") + `"`
			}
			sp := ""
			if rapid.IntRange(0, 3).Draw(t, "colspan") == 0 {
				sp = fmt.Sprintf(` span="%d"`, rapid.IntRange(1, 3).Draw(t, "colspanv"))
			}
			b.WriteString("<col" + sp + st + ">")
		}
		b.WriteString("</colgroup>")
	}
	wid := 0
	word := func() string {
		wid++
		return strings.Repeat(string(rune('a'+wid%26)), rapid.SampledFrom([]int{1, 2, 3, 5, 8}).Draw(t, "wl"))
	}
	ng := rapid.IntRange(1, 3).Draw(t, "ngroups")
	for g := 0; g < ng; g++ {
		gt := rapid.SampledFrom([]string{"tbody", "tbody", "thead", "tfoot"}).Draw(t, "gtag")
		b.WriteString("<" + gt + ">")
		for r, nr := 0, rapid.IntRange(1, 5).Draw(t, "nrows"); r < nr; r++ {
			rs := ""
			if rapid.IntRange(0, 6).Draw(t, "rowh") == 0 {
				rs = ` style="height:` + rapid.SampledFrom([]string{"30px", "5px"}).Draw(t, "rowheight") + `"`
			}
			if rapid.IntRange(0, 11).Draw(t, "rowdir") == 0 {
				rs += ` dir="rtl"`
			}
			b.WriteString("<tr" + rs + ">")
			for c, nc := 0, rapid.IntRange(1, 5).Draw(t, "ncells"); c < nc; c++ {
				attrs := ""
				if rapid.IntRange(0, 3).Draw(t, "hascs") == 0 {
					attrs += fmt.Sprintf(` colspan="%s"`, rapid.SampledFrom([]string{"2", "2", "3", "9", "0"}).Draw(t, "cs"))
				}
				if rapid.IntRange(0, 3).Draw(t, "hasrs") == 0 {
					attrs += fmt.Sprintf(` rowspan="%s"`, rapid.SampledFrom([]string{"2", "2", "3", "9", "0"}).Draw(t, "rs"))
				}
				if rapid.IntRange(0, 7).Draw(t, "celldir") == 0 {
					// the direction of a cell is not the direction of its table: the columns stay where they are
					attrs += ` dir="rtl"`
				}
				var st []string
				switch rapid.IntRange(0, 7).Draw(t, "cellw") {
				case 0:
					st = append(st, "width:"+rapid.SampledFrom([]string{"20px", "60px", "200px"}).Draw(t, "cwpx"))
				case 1:
					st = append(st, "width:"+rapid.SampledFrom([]string{"10%", "50%", "90%"}).Draw(t, "cwpc"))
				}
				if rapid.IntRange(0, 3).Draw(t, "cellp") == 0 {
					st = append(st, "padding:"+rapid.SampledFrom([]string{"2px", "1px 4px", "6px"}).Draw(t, "cpad"))
				}
				if rapid.IntRange(0, 3).Draw(t, "cellb") == 0 {
					st = append(st, "border:"+rapid.SampledFrom([]string{"1px solid", "2px solid", "4px double"}).Draw(t, "cborder"))
				}
				if rapid.IntRange(0, 8).Draw(t, "cellh") == 0 {
					st = append(st, "height:"+rapid.SampledFrom([]string{"25px", "3px"}).Draw(t, "cheight"))
				}
				if rapid.IntRange(0, 8).Draw(t, "va") == 0 {
					st = append(st, "vertical-align:"+rapid.SampledFrom([]string{"middle", "bottom", "top"}).Draw(t, "valign"))
				}
				if len(st) > 0 {
					attrs += ` style="` + strings.Join(st, ";") + `"`
				}
				tag := rapid.SampledFrom([]string{"td", "td", "td", "th"}).Draw(t, "ctag")
				b.WriteString("<" + tag + attrs + ">")
				switch rapid.IntRange(0, 5).Draw(t, "content") {
				case 0:
				case 1:
					fmt.Fprintf(&b, `<x-c style="width:%dpx;height:%dpx"></x-c>`, rapid.SampledFrom([]int{5, 30, 100}).Draw(t, "bw"), rapid.SampledFrom([]int{5, 20}).Draw(t, "bh"))
				default:
					for i, n := 0, rapid.IntRange(1, 4).Draw(t, "nw"); i < n; i++ {
						if i > 0 {
							b.WriteString(" ")
						}
						b.WriteString(word())
					}
				}
				b.WriteString("</" + tag + ">")
			}
			b.WriteString("</tr>")
		}
		b.WriteString("</" + gt + ">")
	}
	b.WriteString("</table></x-c></body></html>")
	return &C13Case{HTML: b.String()}
}

func c13ContainerWidth(html string) float64 {
	i := strings.Index(html, `<x-c style="width:`)
	rest := html[i+len(`<x-c style="width:`):]
	j := 0
	for j < len(rest) && rest[j] >= '0' && rest[j] <= '9' {
		j++
	}
	w, _ := strconv.ParseFloat(rest[:j], 64)
	return w
}

func c13Check(ci interface{}) Verdict {
	c := ci.(*C13Case)
	r, err := wr.Render(c.HTML, wr.Opts{Engine: "pango", Zoom: 1})
	if err != nil {
		return Verdict{Excluded: "rejected"}
	}
	if len(r.Pages) != 1 {
		return Verdict{Excluded: "more-than-one-page"}
	}
	var table *bo.TableBox
	wr.WalkBoxes(r.Pages[0], func(b bo.Box) bool {
		if tb, ok := b.(*bo.TableBox); ok && table == nil {
			table = tb
		}
		return table == nil
	})
	if table == nil {
		return Verdict{Excluded: "no-table-box"}
	}
	labels := map[string]bool{}
	collapse := table.Style.GetBorderCollapse() == "collapse"
	hs, vs := 0.0, 0.0
	if !collapse {
		sp := table.Style.GetBorderSpacing()
		hs, vs = float64(sp[0].Value), float64(sp[1].Value)
	} else {
		labels["collapse"] = true
	}
	if table.Style.GetTableLayout() == "fixed" && table.Style.GetWidth().S != "auto" {
		labels["fixed-layout"] = true
	} else {
		labels["auto-layout"] = true
	}
	if hs > 0 || vs > 0 {
		labels["border-spacing"] = true
	}
	const tol = 0.02
	near := func(a, b float64) bool { return math.Abs(a-b) <= tol+1e-5*math.Abs(b) }
	f := func(v pr.MaybeFloat) float64 {
		if v == nil || v == pr.AutoF {
			return math.NaN()
		}
		return float64(v.V())
	}
	cw, cp := table.ColumnWidths, table.ColumnPositions
	n := len(cw)
	if len(cp) != n {
		return Viol("columns:lengths", "%d column widths but %d column positions\n%s", n, len(cp), c.HTML)
	}
	for i, w := range cw {
		if w < -0.01 || math.IsNaN(float64(w)) {
			return Viol("negative:column-width", "column %d has the used width %v (columns %v)\n%s", i, w, cw, c.HTML)
		}
	}
	if tw := f(table.Width); tw < -0.01 {
		return Viol("negative:table-width", "the table has the used width %v\n%s", tw, c.HTML)
	}
	// the used width is never smaller than a specified one (border-box for tables: CSS 2.1 17.5.2 reads
	// 'width' as the table box width; compared with the content width, the weaker reading)
	if w := table.Style.GetWidth(); w.S != "auto" {
		spec := float64(w.Value)
		if w.Unit == pr.Perc {
			spec = float64(w.Value) / 100 * c13ContainerWidth(c.HTML)
		}
		spec -= float64(table.PaddingLeft.V() + table.PaddingRight.V() + table.BorderLeftWidth.V() + table.BorderRightWidth.V())
		for _, m := range []pr.MaybeFloat{table.MarginLeft, table.MarginRight} {
			if v := f(m); !math.IsNaN(v) {
				spec -= v
			}
		}
		if f(table.Width) < spec-tol {
			return Viol("specified-width", "the table's used width %v is smaller than its specified width (%v%v of a %v px container, less its own frame and margins: %v)\n%s", f(table.Width), w.Value, w.Unit, c13ContainerWidth(c.HTML), spec, c.HTML)
		}
		labels["specified-width"] = true
	}
	// columns and spacing. A column in which no cell originates is only there to be spanned: it gets no
	// spacing of its own (CSS Tables 3 track merging; the reading the repository documents for its
	// table width, see the disabled TestLayoutTableAuto49)
	origin := make([]bool, n)
	wr.WalkBoxes(table, func(b bo.Box) bool {
		if bo.TableCellT.IsInstance(b) {
			if x := b.Box().GridX; x >= 0 && x < n {
				origin[x] = true
			}
			return false
		}
		return true
	})
	nOrigin := 0
	for _, o := range origin {
		if o {
			nOrigin++
		} else {
			labels["column-without-originating-cell"] = true
		}
	}
	sp := func(i int) float64 { // spacing in front of column i
		if i < n && origin[i] {
			return hs
		}
		return 0
	}
	for i := 0; i+1 < n; i++ {
		if !near(float64(cp[i+1]-cp[i]), float64(cw[i])+sp(i+1)) {
			return Viol("columns:positions", "column %d starts at %v and is %v wide, column %d starts at %v: they should be separated by the horizontal border-spacing %v\n%s", i, cp[i], cw[i], i+1, cp[i+1], sp(i+1), c.HTML)
		}
	}
	if n > 0 {
		sum := 0.0
		for _, w := range cw {
			sum += float64(w)
		}
		want := sum + float64(nOrigin+1)*hs
		if !near(f(table.Width), want) {
			cls := "separate"
			if collapse {
				cls = "collapse"
			}
			return Viol("table-width:"+cls, "columns %v + %d x spacing %v = %v, but the table's used width is %v\n%s", cw, nOrigin+1, hs, want, f(table.Width), c.HTML)
		}
		if !near(float64(cp[0]), float64(table.ContentBoxX())+sp(0)) {
			return Viol("columns:first-position", "the first column starts at %v, the table content box at %v, horizontal spacing %v\n%s", cp[0], table.ContentBoxX(), hs, c.HTML)
		}
	}
	// cells
	type cellInfo struct {
		b           *bo.BoxFields
		x, y        int // grid column, absolute row
		cs, rs      int
		l, r, t, bt float64 // border box
	}
	var cells []cellInfo
	rowY := 0
	spans := false
	for _, g := range table.Children {
		rows := g.Box().Children
		for ri, row := range rows {
			rb := row.Box()
			if f(rb.Height) < -0.01 {
				return Viol("negative:row-height", "row %d has the used height %v\n%s", rowY+ri, f(rb.Height), c.HTML)
			}
			for _, cell := range row.Box().Children {
				cb := cell.Box()
				if !bo.TableCellT.IsInstance(cell) {
					continue
				}
				ci := cellInfo{b: cb, x: cb.GridX, y: rowY + ri, cs: cb.Colspan, rs: cb.Rowspan,
					l: float64(cb.BorderBoxX()), t: float64(cb.BorderBoxY())}
				ci.r = ci.l + float64(cb.BorderWidth())
				ci.bt = ci.t + float64(cb.BorderHeight())
				if cb.Colspan > 1 || cb.Rowspan > 1 {
					spans = true
				}
				if f(cb.Width) < -0.01 || f(cb.Height) < -0.01 {
					return Viol("negative:cell-size", "cell (row %d, column %d) has the used size %v x %v\n%s", ci.y, ci.x, f(cb.Width), f(cb.Height), c.HTML)
				}
				name := fmt.Sprintf("cell (row %d, column %d, colspan %d, rowspan %d)", ci.y, ci.x, ci.cs, ci.rs)
				if ci.x < 0 || ci.x+ci.cs > n {
					return Viol("grid:outside-columns", "%s lies outside the %d columns of the table\n%s", name, n, c.HTML)
				}
				// left / right edges on the column grid
				if !near(ci.l, float64(cp[ci.x])) {
					return Viol("cell:left-edge", "%s: border box starts at x=%v, its column at %v\n%s", name, ci.l, cp[ci.x], c.HTML)
				}
				wantW := 0.0
				for k := ci.x; k < ci.x+ci.cs; k++ {
					wantW += float64(cw[k])
					if k > ci.x {
						wantW += sp(k)
					}
				}
				if f(cb.Width) == 0 && ci.r-ci.l > wantW {
					// the borders and padding alone are wider than the columns: the cell cannot fit its slots
					labels["cell-frame-wider-than-columns"] = true
				} else if !near(ci.r-ci.l, wantW) {
					return Viol("cell:width", "%s: border box is %v wide, its columns and the spacing between them make %v (columns %v, spacing %v)\n%s", name, ci.r-ci.l, wantW, cw, hs, c.HTML)
				}
				// top edge and height from the rows
				if !near(ci.t, float64(rb.PositionY)) {
					return Viol("cell:top-edge", "%s: border box top at y=%v, its row at %v\n%s", name, ci.t, rb.PositionY, c.HTML)
				}
				if ri+ci.rs > len(rows) {
					return Viol("grid:rowspan-leaves-group", "%s spans beyond its row group of %d rows\n%s", name, len(rows), c.HTML)
				}
				wantH := float64(ci.rs-1) * vs
				for k := ri; k < ri+ci.rs; k++ {
					wantH += f(rows[k].Box().Height)
				}
				if !near(ci.bt-ci.t, wantH) {
					return Viol("cell:height", "%s: border box is %v high, its rows and the spacing between them make %v\n%s", name, ci.bt-ci.t, wantH, c.HTML)
				}
				cells = append(cells, ci)
			}
		}
		rowY += len(rows)
	}
	// slot assignment (HTML / CSS 2.1 17.5): each cell takes the first slot of its row not reserved by a
	// cell spanning rows from above; only then can two cells share a slot (finding C09-F01)
	for _, g := range table.Children {
		rows := g.Box().Children
		reserved := map[[2]int]bool{}
		for y, row := range rows {
			x := 0
			for _, cell := range row.Box().Children {
				cb := cell.Box()
				for reserved[[2]int{x, y}] {
					x++
				}
				if cb.GridX != x {
					return Viol("grid:slot", "cell (row %d of its group, colspan %d, rowspan %d) is on column %d, the first slot of its row not reserved from above is column %d\n%s", y, cb.Colspan, cb.Rowspan, cb.GridX, x, c.HTML)
				}
				for dy := 1; dy < cb.Rowspan; dy++ {
					for dx := 0; dx < cb.Colspan; dx++ {
						reserved[[2]int{x + dx, y + dy}] = true
					}
				}
				x += cb.Colspan
			}
		}
	}
	// row stacking inside a group
	for _, g := range table.Children {
		rows := g.Box().Children
		for i := 0; i+1 < len(rows); i++ {
			a, b := rows[i].Box(), rows[i+1].Box()
			if !near(float64(b.PositionY), float64(a.PositionY)+f(a.Height)+vs) {
				return Viol("rows:stacking", "row at y=%v is %v high, the next one starts at %v (vertical spacing %v)\n%s", a.PositionY, f(a.Height), b.PositionY, vs, c.HTML)
			}
		}
	}
	// cells on disjoint slots do not overlap
	for i := 0; i < len(cells); i++ {
		for j := i + 1; j < len(cells); j++ {
			a, b := cells[i], cells[j]
			if f(a.b.Width) == 0 || f(b.b.Width) == 0 {
				continue // cells whose frame alone is wider than their columns stick out
			}
			slotsOverlap := a.x < b.x+b.cs && b.x < a.x+a.cs && a.y < b.y+b.rs && b.y < a.y+a.rs
			if slotsOverlap {
				labels["slot-overlap"] = true // C09-F01: the boxes overlap too, by construction
				continue
			}
			if a.l < b.r-tol && b.l < a.r-tol && a.t < b.bt-tol && b.t < a.bt-tol {
				return Viol("cells:overlap", "cells (row %d, column %d) and (row %d, column %d) occupy disjoint slots but their border boxes overlap: [%v,%v]x[%v,%v] and [%v,%v]x[%v,%v]\n%s", a.y, a.x, b.y, b.x, a.l, a.r, a.t, a.bt, b.l, b.r, b.t, b.bt, c.HTML)
			}
		}
	}
	// minimum content: an unbreakable word never overflows a cell of an automatic table
	if labels["auto-layout"] {
		for _, ci := range cells {
			over := 0.0
			wr.WalkBoxes(bo.Box(&bo.BlockBox{BoxFields: *ci.b}), func(b bo.Box) bool {
				if tb, ok := b.(*bo.TextBox); ok {
					if e := float64(tb.PositionX) + f(tb.Width) - (float64(ci.b.ContentBoxX()) + f(ci.b.Width)); e > over {
						over = e
					}
				}
				return true
			})
			if over > tol {
				cls := ""
				if strings.Contains(c.HTML, "%") {
					cls += ":with-percentage-widths"
				}
				if strings.Contains(c.HTML, "colspan") {
					cls += ":with-colspan"
				}
				return Viol("min-content"+cls, "cell (row %d, column %d): a word sticks %v px out of the cell's content box in an automatic-layout table\n%s", ci.y, ci.x, over, c.HTML)
			}
		}
	}
	if spans {
		labels["spans"] = true
	}
	var ls []string
	for l := range labels {
		ls = append(ls, l)
	}
	sort.Strings(ls)
	nrows := rowY
	return Verdict{NonTrivial: nrows >= 2 && n >= 2 && spans, Labels: ls}
}

func init() {
	Register(&Prop{
		ID:               "C13",
		Gen:              c13Gen,
		New:              func() interface{} { return &C13Case{} },
		Check:            c13Check,
		CrashIsViolation: false,
		QuickN:           20000,
		ThoroughN:        600000,
		Rule: "One table in a container 60-800 px wide on a single huge page: 1-3 row groups (tbody/thead/tfoot) of 1-5 rows of 1-5 cells; colspan in {2,3,9,0} and rowspan in {2,3,9,0} on one cell in four each; optional colgroup/col with span and widths, caption top/bottom; cell content: Ahem words (1-8 letters), fixed-size blocks, nothing; cell width (px, %), padding, border, height, vertical-align; row height; table width (auto, px incl. 1px and 1000px, % incl. 120%), table-layout auto/fixed, border-spacing (0, one or two values), border-collapse, table border/padding/margin. " +
			"Oracle: a relational validity predicate on the laid-out TableBox, straight from the statement: column positions advance by width + horizontal spacing; columns + (n+1) x spacing = table used width; every cell's border box starts at its column, is as wide as its columns plus inner spacing, starts at its row's top and is as high as its rows plus inner spacing; rows of a group stack with the vertical spacing; no negative column / row / cell / table size; cells on disjoint slots have disjoint border boxes (pairs whose slots overlap, finding C09-F01, are skipped); in automatic layout no unbreakable word sticks out of its cell. " +
			"Non-trivial: >= 2 rows, >= 2 columns and at least one spanning cell.",
		ImportantLabels: []string{"spans", "border-spacing", "collapse", "fixed-layout", "auto-layout", "slot-overlap"},
		Assumptions:     []string{"geometric tolerance 0.02 px", "left-to-right tables; pagination of tables belongs to C02 / C12"},
	})
}
