package props

import (
	"fmt"
	"strings"

	"pgregory.net/rapid"

	"verif/harness/internal/wr"
)

// C16 over several pages: a fixed-position box is painted on every page, at its place in the tree order of
// the positioned layer (Appendix E step 8), also on the pages that follow the one it is declared on.

type C16Pages struct {
	// Items: "fixed", "rel" (position:relative block in flow) or "break" (forced page break), in tree order
	Items []string `json:"items"`
	Z     []string `json:"z,omitempty"` // z-index of the positioned items ("" auto, "0")
}

func c16GenPages(t *rapid.T) *C16Pages {
	p := &C16Pages{}
	n := rapid.IntRange(3, 9).Draw(t, "nitems")
	for i := 0; i < n; i++ {
		p.Items = append(p.Items, rapid.SampledFrom([]string{"fixed", "rel", "rel", "break"}).Draw(t, "item"))
		p.Z = append(p.Z, rapid.SampledFrom([]string{"", "", "0"}).Draw(t, "z"))
	}
	return p
}

func c16PagesHTML(p *C16Pages) string {
	var b strings.Builder
	b.WriteString(`<!DOCTYPE html><html><head><style>@page{size:200px 200px;margin:0}html,body{margin:0;padding:0}div{width:80px;height:30px}</style></head><body>`)
	for i, it := range p.Items {
		z := ""
		if p.Z[i] != "" {
			z = ";z-index:" + p.Z[i]
		}
		switch it {
		case "fixed":
			fmt.Fprintf(&b, `<div style="position:fixed;top:%dpx;left:%dpx;background:rgb(%d,10,0)%s"></div>`, 5*(i%4), 10*(i%3), i+1, z)
		case "rel":
			fmt.Fprintf(&b, `<div style="position:relative;top:-5px;background:rgb(%d,10,0)%s"></div>`, i+1, z)
		default:
			b.WriteString(`<p style="break-before:page;margin:0;height:1px"></p>`)
		}
	}
	b.WriteString(`</body></html>`)
	return b.String()
}

// c16FillsPerPage: ids of the coloured backgrounds in painting order, page by page
func c16FillsPerPage(r *wr.Rendered) [][]int {
	var out [][]int
	type state struct{ fill [3]float32 }
	stacks := map[int][]state{}
	for _, e := range r.Rec.Events {
		st := stacks[e.Canvas]
		if len(st) == 0 {
			st = []state{{}}
		}
		top := &st[len(st)-1]
		switch e.Op {
		case "AddPage":
			out = append(out, nil)
		case "Push":
			st = append(st, *top)
		case "Pop":
			if len(st) > 1 {
				st = st[:len(st)-1]
			}
		case "SetColorRgba":
			if e.F[4] == 0 {
				top.fill = [3]float32{e.F[0], e.F[1], e.F[2]}
			}
		case "Paint":
			id, g, bl := int(top.fill[0]*255+0.5), int(top.fill[1]*255+0.5), int(top.fill[2]*255+0.5)
			if id >= 1 && g == 10 && bl == 0 && len(out) > 0 {
				if l := out[len(out)-1]; len(l) == 0 || l[len(l)-1] != id {
					out[len(out)-1] = append(out[len(out)-1], id)
				}
			}
		}
		stacks[e.Canvas] = st
	}
	return out
}

func c16CheckPages(c *C16Case) Verdict {
	p := c.Pages
	html := c16PagesHTML(p)
	labels := []string{"kind:pages"}
	r, err := wr.Render(html, wr.Opts{Engine: "pango", Zoom: 1})
	if err != nil {
		return Verdict{Excluded: "rejected", Labels: labels}
	}
	// the page of every item: breaks start a new page
	page, nFixed := 0, 0
	pageOf := make([]int, len(p.Items))
	seenContent := false
	for i, it := range p.Items {
		switch it {
		case "break":
			if seenContent {
				page++
			}
			seenContent = true // (the breaking paragraph itself is content of the new page)
		case "rel":
			seenContent = true
		case "fixed":
			nFixed++
		}
		pageOf[i] = page
	}
	if len(r.Pages) != page+1 {
		return Verdict{Excluded: "unexpected-page-count", Labels: labels}
	}
	got := c16FillsPerPage(r)
	if len(got) != len(r.Pages) {
		return Viol("pages:count", "%d pages laid out, %d drawn\n%s", len(r.Pages), len(got), html)
	}
	for pi := range r.Pages {
		var want []int
		for i, it := range p.Items {
			if it == "fixed" || (it == "rel" && pageOf[i] == pi) {
				want = append(want, i+1)
			}
		}
		if fmt.Sprint(want) != fmt.Sprint(got[pi]) {
			sig := "pages:order"
			if len(want) != len(got[pi]) {
				sig = "pages:boxes"
			}
			return Viol(sig, "page %d paints the positioned boxes in the order %v, the tree order is %v (fixed boxes are part of every page)\n%s", pi, got[pi], want, html)
		}
	}
	if len(r.Pages) > 1 && nFixed > 0 {
		labels = append(labels, "fixed-box-over-pages")
	}
	return Verdict{NonTrivial: len(r.Pages) > 1 && nFixed > 0, Labels: labels}
}
