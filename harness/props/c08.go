package props

import (
	"fmt"
	"reflect"
	"sort"
	"strings"

	"github.com/benoitkugler/webrender/css/parser"
	pr "github.com/benoitkugler/webrender/css/properties"
	"github.com/benoitkugler/webrender/css/validation"
	"github.com/benoitkugler/webrender/utils"
	"golang.org/x/net/html"
	"pgregory.net/rapid"

	"verif/harness/internal/gen"
	"verif/harness/internal/wr"
)

// C08 — Declarations mean the same however they are spelled; bad ones are dropped alone.

type C08Case struct {
	Kind      string        `json:"kind"` // variant shorthand var interleave
	Decl      gen.ValidDecl `json:"decl"`
	Important bool          `json:"important,omitempty"`
	Canon     string        `json:"canonical"`
	Variant   string        `json:"variant,omitempty"`
	Block     []string      `json:"block,omitempty"`     // interleave: the valid declarations
	Bad       []string      `json:"bad,omitempty"`       // interleave: invalid declarations
	BadAt     []int         `json:"bad_at,omitempty"`    // positions (index into Block before which the bad one is inserted)
	VarForm   string        `json:"var_form,omitempty"`  // direct chain fallback undefined illtyped cycle
	Longhands [][2]string   `json:"longhands,omitempty"` // shorthand: expected (name, value text; "" = initial)
	Prefix    string        `json:"prefix,omitempty"`    // shorthand: longhand declared before the shorthand
	// var form "repeat": one custom property used twice by the value
	RepName    string   `json:"rep_name,omitempty"`
	RepPattern string   `json:"rep_pattern,omitempty"` // the value, U standing for the repeated component
	RepU       string   `json:"rep_u,omitempty"`
	RepWiring  string   `json:"rep_wiring,omitempty"` // toplevel nested diamond
	RepNames   []string `json:"rep_names,omitempty"`  // longhands observed
	// kind "layers": the comma separated layers of a background shorthand
	Layers []string `json:"layers,omitempty"`
}

var c08LayerNames = []string{"background-image", "background-position", "background-size", "background-repeat", "background-attachment", "background-origin", "background-clip"}

// c08GenLayer draws one layer of the background shorthand: <bg-image> || <position> [ / <size> ]? || <repeat> || <attachment> || <box> || <box>
func c08GenLayer(t *rapid.T) string {
	var parts []string
	if rapid.Bool().Draw(t, "limg") {
		parts = append(parts, rapid.SampledFrom([]string{"none", "linear-gradient(red, blue)", "url(x.png)", "radial-gradient(lime, teal)"}).Draw(t, "img"))
	}
	if rapid.Bool().Draw(t, "lpos") {
		p := rapid.SampledFrom([]string{"5px 5px", "center", "left top", "10% 20%", "right 3px bottom 4px"}).Draw(t, "pos")
		if rapid.Bool().Draw(t, "lsize") {
			p += " / " + rapid.SampledFrom([]string{"10px 20px", "cover", "contain", "auto 50%", "30px"}).Draw(t, "size")
		}
		parts = append(parts, p)
	}
	if rapid.Bool().Draw(t, "lrep") {
		parts = append(parts, rapid.SampledFrom([]string{"no-repeat", "repeat-x", "space", "round repeat", "repeat-y"}).Draw(t, "rep"))
	}
	if rapid.Bool().Draw(t, "latt") {
		parts = append(parts, rapid.SampledFrom([]string{"fixed", "scroll", "local"}).Draw(t, "att"))
	}
	switch rapid.IntRange(0, 3).Draw(t, "lbox") {
	case 0:
		parts = append(parts, rapid.SampledFrom([]string{"content-box", "padding-box", "border-box"}).Draw(t, "box1"))
	case 1:
		// (kept adjacent: the validator does not read two box keywords separated by another component)
		parts = append(parts, rapid.SampledFrom([]string{"content-box", "padding-box", "border-box"}).Draw(t, "box1")+" "+rapid.SampledFrom([]string{"content-box", "padding-box", "border-box"}).Draw(t, "box2"))
	}
	if len(parts) == 0 {
		parts = []string{"none"}
	}
	// the components of a layer come in any order
	for i := len(parts) - 1; i > 0; i-- {
		j := rapid.IntRange(0, i).Draw(t, "shuffle")
		parts[i], parts[j] = parts[j], parts[i]
	}
	return strings.Join(parts, " ")
}

// values naming the same component twice
var c08Repeat = []struct {
	name, pattern, kind string
	names               []string
}{
	{"margin", "U 0 0 U", "len", []string{"margin-top", "margin-right", "margin-bottom", "margin-left"}},
	{"margin", "U U 3px", "len", []string{"margin-top", "margin-right", "margin-bottom", "margin-left"}},
	{"padding", "1px U 2px U", "len", []string{"padding-top", "padding-right", "padding-bottom", "padding-left"}},
	{"border-spacing", "U U", "len", []string{"border-spacing"}},
	{"background-position", "U U", "len", []string{"background-position"}},
	{"background-size", "U U", "len", []string{"background-size"}},
	{"border-top-left-radius", "U U", "len", []string{"border-top-left-radius"}},
	{"transform", "translate(U, U)", "len", []string{"transform"}},
	{"transform", "scale(U) rotate(10deg) scale(U)", "num", []string{"transform"}},
	{"color", "rgb(U, 0, U)", "byte", []string{"color"}},
	{"background-color", "rgba(U, U, 7, 0.5)", "byte", []string{"background-color"}},
	{"text-shadow", "U U red", "len", []string{"text-shadow"}},
	{"font-family", "U, serif, U", "family", []string{"font-family"}},
	{"grid-template-columns", "U 1fr U", "len", []string{"grid-template-columns"}},
}

var c08Invalid = []string{"unknown-prop: 1px", "-webkit-foo: bar", "color: 12px", "width: red", "margin-left:", "color: {}", "display: blocky", "width: 10 px", "colour: red", "margin: 1px 2px 3px 4px 5px", "color", ": red", "width: 10pxx", "z-index: 1.5", "opacity: red", "tab-size: red", "width: 10PXX", "float: middle", "border-top-style: 2px", "font-size: -1px", "padding-left: -2px", "@foo bar",
	// shorthands whose first components are valid and a later one is not: nothing of them may apply
	"margin: 1px 2px bogus", "padding: 3px 4px 5px -1px", "border-width: 1px 2px red", "border-color: red blue 3px", "border-style: solid dashed 2px", "border-radius: 1px 2px 3px 4px 5px", "border: 1px solid red blue",
	"flex: 1 1 1px 1", "list-style: square inside bogus", "columns: 2 2", "outline: 1px solid red 2px", "border-top: 1px 2px", "flex-flow: row wrap bogus", "text-decoration: underline 2", "background: red blue", "font: bold 12px", "gap: 1px 2px 3px", "overflow: hidden bogus"}

// reference expansion of the box-model and border-side shorthands (CSS 2.1 8.3, 8.4, 8.5)
func c08ExpandSides(prefix, suffix string, vals []string) [][2]string {
	var t, r, b, l string
	switch len(vals) {
	case 1:
		t, r, b, l = vals[0], vals[0], vals[0], vals[0]
	case 2:
		t, r, b, l = vals[0], vals[1], vals[0], vals[1]
	case 3:
		t, r, b, l = vals[0], vals[1], vals[2], vals[1]
	default:
		t, r, b, l = vals[0], vals[1], vals[2], vals[3]
	}
	return [][2]string{{prefix + "top" + suffix, t}, {prefix + "right" + suffix, r}, {prefix + "bottom" + suffix, b}, {prefix + "left" + suffix, l}}
}

func partTexts(parts []gen.Part) []string {
	var out []string
	for _, p := range parts {
		out = append(out, gen.ValidDecl{Parts: []gen.Part{p}}.Text(nil, false)[1:]) // strip the ":" of an empty name
	}
	return out
}

func c08IsColorPart(p gen.Part) bool {
	if p.Kind == "hash" {
		return true
	}
	if p.Kind == "fn" {
		switch p.Text {
		case "rgb", "rgba", "hsl", "hsla":
			return true
		}
	}
	if p.Kind == "kw" {
		switch p.Text {
		case "red", "blue", "transparent", "currentcolor", "rebeccapurple", "black":
			return true
		}
	}
	return false
}

func c08IsStylePart(p gen.Part) bool {
	if p.Kind != "kw" {
		return false
	}
	switch p.Text {
	case "none", "hidden", "dotted", "dashed", "solid", "double", "groove", "ridge", "inset", "outset":
		return true
	}
	return false
}

// c08Longhands returns the reference expansion of a shorthand declaration, or nil when the
// shorthand is not modelled.
func c08Longhands(d gen.ValidDecl) [][2]string {
	vals := partTexts(d.Parts)
	switch d.Name {
	case "margin":
		return c08ExpandSides("margin-", "", vals)
	case "padding":
		return c08ExpandSides("padding-", "", vals)
	case "border-width":
		return c08ExpandSides("border-", "-width", vals)
	case "border-style":
		return c08ExpandSides("border-", "-style", vals)
	case "border-color":
		return c08ExpandSides("border-", "-color", vals)
	case "border-top", "border-right", "border-bottom", "border-left", "border", "outline", "column-rule":
		w, st, col := "", "", ""
		for i, p := range d.Parts {
			switch {
			case c08IsColorPart(p):
				col = vals[i]
			case c08IsStylePart(p):
				st = vals[i]
			default:
				w = vals[i]
			}
		}
		var out [][2]string
		add := func(prefix string) {
			out = append(out, [2]string{prefix + "-width", w}, [2]string{prefix + "-style", st}, [2]string{prefix + "-color", col})
		}
		if d.Name == "border" {
			for _, s := range []string{"top", "right", "bottom", "left"} {
				add("border-" + s)
			}
		} else {
			add(d.Name)
		}
		return out
	case "flex-flow":
		dir, wrap := "", ""
		for i, p := range d.Parts {
			if p.Text == "wrap" || p.Text == "nowrap" || p.Text == "wrap-reverse" {
				wrap = vals[i]
			} else {
				dir = vals[i]
			}
		}
		return [][2]string{{"flex-direction", dir}, {"flex-wrap", wrap}}
	case "gap":
		row, col := vals[0], vals[0]
		if len(vals) > 1 {
			col = vals[1]
		}
		return [][2]string{{"row-gap", row}, {"column-gap", col}}
	}
	return nil
}

func c08Gen(t *rapid.T, tier Tier) interface{} {
	c := &C08Case{}
	c.Kind = rapid.SampledFrom([]string{"variant", "variant", "variant", "shorthand", "var", "var", "interleave", "interleave", "layers"}).Draw(t, "kind")
	switch c.Kind {
	case "layers":
		for i, n := 0, rapid.IntRange(2, 4).Draw(t, "nlayers"); i < n; i++ {
			c.Layers = append(c.Layers, c08GenLayer(t))
		}
		c.Canon = "background:" + strings.Join(c.Layers, ", ")
	case "variant":
		c.Decl = gen.GenValidDecl(t)
		c.Important = rapid.IntRange(0, 3).Draw(t, "imp") == 0
		c.Canon = c.Decl.Text(nil, c.Important)
		c.Variant = c.Decl.Text(t, c.Important)
	case "shorthand":
		for i := 0; i < 20; i++ {
			d := gen.GenValidDecl(t)
			if lh := c08Longhands(d); lh != nil {
				c.Decl, c.Longhands = d, lh
				break
			}
		}
		if c.Longhands == nil {
			c.Decl = gen.ValidDecl{Name: "margin", Parts: []gen.Part{{Text: "1", Kind: "dim", Unit: "px"}, {Text: "2", Kind: "dim", Unit: "em"}}}
			c.Longhands = c08Longhands(c.Decl)
		}
		c.Canon = c.Decl.Text(nil, false)
		if rapid.Bool().Draw(t, "prefix") {
			// an earlier longhand that the shorthand must reset
			lh := c.Longhands[rapid.IntRange(0, len(c.Longhands)-1).Draw(t, "which")]
			switch {
			case strings.HasSuffix(lh[0], "-color"):
				c.Prefix = lh[0] + ": rgb(9, 9, 9)"
			case strings.HasSuffix(lh[0], "-style"):
				c.Prefix = lh[0] + ": dotted"
			case lh[0] == "flex-direction":
				c.Prefix = lh[0] + ": column-reverse"
			case lh[0] == "flex-wrap":
				c.Prefix = lh[0] + ": wrap-reverse"
			default:
				c.Prefix = lh[0] + ": 77px"
			}
		}
	case "var":
		c.Decl = gen.GenValidDecl(t)
		c.Canon = c.Decl.Text(nil, false)
		c.VarForm = rapid.SampledFrom([]string{"direct", "chain", "fallback", "undefined", "illtyped", "cycle", "partial", "repeat"}).Draw(t, "vf")
		if c.VarForm == "repeat" {
			r := rapid.SampledFrom(c08Repeat).Draw(t, "rep")
			c.RepName, c.RepPattern, c.RepNames = r.name, r.pattern, r.names
			switch r.kind {
			case "len":
				c.RepU = fmt.Sprintf("%d%s", rapid.IntRange(1, 40).Draw(t, "ulen"), rapid.SampledFrom([]string{"px", "em", "pt", "%"}).Draw(t, "uunit"))
				if c.RepU[len(c.RepU)-1] == '%' && (r.name == "border-spacing" || r.name == "text-shadow") {
					c.RepU = c.RepU[:len(c.RepU)-1] + "px"
				}
			case "num":
				c.RepU = fmt.Sprintf("%d", rapid.IntRange(1, 9).Draw(t, "unum"))
			case "byte":
				c.RepU = fmt.Sprintf("%d", rapid.IntRange(0, 255).Draw(t, "ubyte"))
			case "family":
				c.RepU = rapid.SampledFrom([]string{"Ahem", "\"My Font\"", "monospace"}).Draw(t, "ufam")
			}
			c.RepWiring = rapid.SampledFrom([]string{"toplevel", "nested", "nested", "diamond", "diamond"}).Draw(t, "wiring")
			c.Canon = c.RepName + ":" + strings.ReplaceAll(c.RepPattern, "U", c.RepU)
		}
	case "interleave":
		n := rapid.IntRange(1, 5).Draw(t, "nblock")
		for i := 0; i < n; i++ {
			d := gen.GenValidDecl(t)
			c.Block = append(c.Block, d.Text(nil, rapid.IntRange(0, 4).Draw(t, "bimp") == 0))
		}
		m := rapid.IntRange(1, 3).Draw(t, "nbad")
		for i := 0; i < m; i++ {
			c.Bad = append(c.Bad, rapid.SampledFrom(c08Invalid).Draw(t, "bad"))
			c.BadAt = append(c.BadAt, rapid.IntRange(0, n).Draw(t, "badat"))
		}
	}
	return c
}

func c08Preprocess(block string) []validation.Declaration {
	return validation.PreprocessDeclarations("http://base/", parser.ParseBlocksContentsString(block))
}

func c08DeclsString(ds []validation.Declaration) string {
	var parts []string
	for _, d := range ds {
		parts = append(parts, fmt.Sprintf("%s=%v imp=%v sh=%v", d.Name, d.Value, d.Important, d.Shortand))
	}
	return strings.Join(parts, "; ")
}

// c08Computed returns the computed values of the named properties on a probe element carrying the block.
func c08Computed(parentBlock, block string, names []string) (map[string]pr.CssProperty, error) {
	doc := `<!DOCTYPE html><html><body><div style="` + html.EscapeString(parentBlock) + `"><p id="probe" style="` + html.EscapeString(block) + `">x</p></div></body></html>`
	h, err := wr.ParseHTML(doc, wr.Opts{})
	if err != nil {
		return nil, err
	}
	sf := wr.Styles(h, nil, false, wr.SharedFC("pango"), nil, nil, nil, true)
	var probe *utils.HTMLNode
	it := h.Root.Iter()
	for it.HasNext() {
		e := it.Next()
		if e.Get("id") == "probe" {
			probe = e
		}
	}
	if probe == nil {
		return nil, fmt.Errorf("no probe")
	}
	st := sf.Get(probe, "")
	out := map[string]pr.CssProperty{}
	for _, n := range names {
		kp, ok := pr.PropsFromNames[n]
		if !ok {
			return nil, fmt.Errorf("unknown longhand %s", n)
		}
		out[n] = st.Get(pr.PropKey{KnownProp: kp})
	}
	return out, nil
}

func c08Check(ci interface{}) Verdict {
	c := ci.(*C08Case)
	labels := []string{"kind:" + c.Kind}
	switch c.Kind {
	case "variant":
		labels = append(labels, "prop:"+c.Decl.Name)
		a := c08Preprocess(c.Canon)
		if len(a) == 0 {
			return Verdict{Excluded: "generator-rejected", Labels: append(labels, "generator-rejected")}
		}
		b := c08Preprocess(c.Variant)
		if !reflect.DeepEqual(a, b) {
			class := "variant:differs"
			if len(b) == 0 {
				class = "variant:dropped"
			}
			// name the spelling feature that differs
			feat := c08SpellingFeature(c.Canon, c.Variant)
			return Verdict{Sig: "C08:" + class + ":" + feat, Msg: fmt.Sprintf("%q is accepted as [%s] but its spelling variant %q gives [%s]", c.Canon, c08DeclsString(a), c.Variant, c08DeclsString(b)), Labels: labels}
		}
		return Verdict{NonTrivial: c.Canon != c.Variant, Labels: append(labels, "feat:"+c08SpellingFeature(c.Canon, c.Variant))}
	case "layers":
		// a shorthand of several layers assigns to each list-valued longhand, layer by layer, what the
		// shorthand of that layer alone assigns
		if len(c08Preprocess(c.Canon)) == 0 {
			return Verdict{Excluded: "generator-rejected", Labels: append(labels, "generator-rejected")}
		}
		for _, l := range c.Layers {
			if len(c08Preprocess("background:"+l)) == 0 {
				return Verdict{Excluded: "generator-rejected", Labels: append(labels, "generator-rejected")}
			}
		}
		whole, err := c08Computed("", c.Canon, c08LayerNames)
		if err != nil {
			return Verdict{Excluded: "infra:" + err.Error(), Labels: labels}
		}
		want := map[string]reflect.Value{}
		for _, l := range c.Layers {
			one, err := c08Computed("", "background:"+l, c08LayerNames)
			if err != nil {
				return Verdict{Excluded: "infra:" + err.Error(), Labels: labels}
			}
			for _, n := range c08LayerNames {
				v := reflect.ValueOf(one[n])
				if v.Kind() != reflect.Slice || v.Len() != 1 {
					return Verdict{Excluded: "single-layer-not-a-list-of-one", Labels: labels}
				}
				if w, ok := want[n]; ok {
					want[n] = reflect.AppendSlice(w, v)
				} else {
					want[n] = reflect.AppendSlice(reflect.MakeSlice(v.Type(), 0, 4), v)
				}
			}
		}
		for _, n := range c08LayerNames {
			if got := whole[n]; !reflect.DeepEqual(got, want[n].Interface()) {
				return Verdict{Sig: "C08:layers:" + n, Msg: fmt.Sprintf("%q: computed %s = %v; the layers taken one by one give %v", c.Canon, n, got, want[n].Interface()), Labels: labels}
			}
		}
		return Verdict{NonTrivial: true, Labels: append(labels, fmt.Sprintf("layers:%d", len(c.Layers)))}
	case "interleave":
		clean := strings.Join(c.Block, ";")
		var mixed []string
		for i := 0; i <= len(c.Block); i++ {
			for k, at := range c.BadAt {
				if at == i {
					mixed = append(mixed, c.Bad[k])
				}
			}
			if i < len(c.Block) {
				mixed = append(mixed, c.Block[i])
			}
		}
		a := c08Preprocess(clean)
		b := c08Preprocess(strings.Join(mixed, ";"))
		if !reflect.DeepEqual(a, b) {
			return Verdict{Sig: "C08:interleave", Msg: fmt.Sprintf("block %q gives [%s] but with invalid declarations interleaved, %q gives [%s]", clean, c08DeclsString(a), strings.Join(mixed, ";"), c08DeclsString(b)), Labels: labels}
		}
		return Verdict{NonTrivial: len(a) > 0, Labels: labels}
	case "shorthand":
		labels = append(labels, "shorthand:"+c.Decl.Name)
		if len(c08Preprocess(c.Canon)) == 0 {
			return Verdict{Excluded: "generator-rejected", Labels: append(labels, "generator-rejected")}
		}
		var names []string
		var explicit []string
		omitted := false
		for _, lh := range c.Longhands {
			names = append(names, lh[0])
			if lh[1] != "" {
				explicit = append(explicit, lh[0]+":"+lh[1])
			} else {
				omitted = true
			}
		}
		block := c.Canon
		if c.Prefix != "" {
			block = c.Prefix + ";" + c.Canon
			labels = append(labels, "resets-earlier-longhand")
		}
		got, err := c08Computed("", block, names)
		if err != nil {
			return Verdict{Excluded: "infra:" + err.Error(), Labels: labels}
		}
		want, err := c08Computed("", strings.Join(explicit, ";"), names)
		if err != nil {
			return Verdict{Excluded: "infra:" + err.Error(), Labels: labels}
		}
		for _, n := range names {
			if !reflect.DeepEqual(got[n], want[n]) {
				return Verdict{Sig: "C08:shorthand:" + c.Decl.Name, Msg: fmt.Sprintf("%q: computed %s = %v, but the longhands %q give %v", block, n, got[n], strings.Join(explicit, ";"), want[n]), Labels: labels}
			}
		}
		if omitted {
			labels = append(labels, "omitted-part")
		}
		return Verdict{NonTrivial: omitted || c.Prefix != "", Labels: labels}
	case "var":
		labels = append(labels, "var:"+c.VarForm)
		if len(c08Preprocess(c.Canon)) == 0 {
			return Verdict{Excluded: "generator-rejected", Labels: append(labels, "generator-rejected")}
		}
		name := c.Decl.Name
		value := c.Canon[strings.Index(c.Canon, ":")+1:]
		// longhand names to observe
		var names []string
		if c.VarForm == "repeat" {
			name, names = c.RepName, c.RepNames
			labels = append(labels, "repeat:"+c.RepWiring)
		} else if _, ok := pr.PropsFromNames[name]; ok {
			names = []string{name}
		} else if lh := c08Longhands(c.Decl); lh != nil {
			for _, l := range lh {
				names = append(names, l[0])
			}
		} else {
			return Verdict{Excluded: "shorthand-not-modelled", Labels: labels}
		}
		var block, equiv string
		switch c.VarForm {
		case "direct":
			block, equiv = "--x:"+value+";"+name+":var(--x)", c.Canon
		case "chain":
			block, equiv = "--y:"+value+";--x:var(--y);"+name+":var(--x)", c.Canon
		case "fallback":
			block, equiv = name+":var(--undef,"+value+")", c.Canon
		case "partial":
			// the variable holds the last component value only
			if len(c.Decl.Parts) < 2 || c.Decl.Parts[len(c.Decl.Parts)-1].Kind == "sep" || c.Decl.Parts[len(c.Decl.Parts)-2].Kind == "sep" {
				block, equiv = "--x:"+value+";"+name+":var(--x)", c.Canon
			} else {
				head := gen.ValidDecl{Name: name, Parts: c.Decl.Parts[:len(c.Decl.Parts)-1]}.Text(nil, false)
				last := gen.ValidDecl{Parts: c.Decl.Parts[len(c.Decl.Parts)-1:]}.Text(nil, false)[1:]
				block, equiv = "--x:"+last+";"+head+" var(--x)", c.Canon
			}
		case "repeat":
			// substitution does not depend on how often, or through which path, a custom property is named
			switch c.RepWiring {
			case "toplevel":
				block = "--u:" + c.RepU + ";" + name + ":" + strings.ReplaceAll(c.RepPattern, "U", "var(--u)")
			case "nested":
				block = "--u:" + c.RepU + ";--x:" + strings.ReplaceAll(c.RepPattern, "U", "var(--u)") + ";" + name + ":var(--x)"
			default: // diamond
				pat := strings.Replace(c.RepPattern, "U", "var(--a)", 1)
				pat = strings.ReplaceAll(pat, "U", "var(--b)")
				block = "--u:" + c.RepU + ";--a:var(--u);--b:var(--u);--x:" + pat + ";" + name + ":var(--x)"
			}
			equiv = c.Canon
		case "undefined":
			block, equiv = name+":var(--undef)", "IACVT"
		case "illtyped":
			block, equiv = "--x:\"not a value\" 3 {};"+name+":var(--x)", "IACVT"
		case "cycle":
			block, equiv = "--x:var(--y);--y:var(--x);"+name+":var(--x)", "IACVT"
		}
		if equiv == "IACVT" {
			// invalid at computed-value time: every longhand behaves as 'unset' (inherit if inherited, else initial)
			var parts []string
			for _, n := range names {
				if pr.Inherited.Has(pr.PropsFromNames[n]) {
					parts = append(parts, n+":inherit")
				} else {
					parts = append(parts, n+":initial")
				}
			}
			equiv = strings.Join(parts, ";")
		}
		parent := "color: rgb(1, 2, 3); font-size: 20px"
		got, err := c08Computed(parent, block, names)
		if err != nil {
			return Verdict{Excluded: "infra:" + err.Error(), Labels: labels}
		}
		want, err := c08Computed(parent, equiv, names)
		if err != nil {
			return Verdict{Excluded: "infra:" + err.Error(), Labels: labels}
		}
		for _, n := range names {
			if !reflect.DeepEqual(got[n], want[n]) {
				return Verdict{Sig: "C08:var:" + c.VarForm, Msg: fmt.Sprintf("%q: computed %s = %v, expected the same as %q: %v", block, n, got[n], equiv, want[n]), Labels: labels}
			}
		}
		return Verdict{NonTrivial: true, Labels: labels}
	}
	return Verdict{Excluded: "unknown-kind"}
}

// c08SpellingFeature names what differs between the canonical text and the variant.
func c08SpellingFeature(canon, variant string) string {
	if canon == variant {
		return "identical"
	}
	var feats []string
	if strings.Contains(variant, "/*") {
		feats = append(feats, "comment")
	}
	strip := func(s string) string {
		s = strings.ReplaceAll(s, "/**/", " ")
		s = strings.ReplaceAll(s, "/* c */", " ")
		return strings.Join(strings.Fields(s), "")
	}
	cs, vs := strip(canon), strip(variant)
	if cs != vs {
		if strings.EqualFold(cs, vs) {
			// which part: name or value
			ci, vi := strings.Index(cs, ":"), strings.Index(vs, ":")
			if ci > 0 && vi > 0 && cs[:ci] != vs[:vi] {
				feats = append(feats, "name-case")
			}
			if ci > 0 && vi > 0 && cs[ci:] != vs[vi:] {
				feats = append(feats, "value-case")
			}
		} else {
			feats = append(feats, "whitespace")
		}
	} else if !strings.Contains(variant, "/*") {
		feats = append(feats, "whitespace")
	}
	sort.Strings(feats)
	return strings.Join(feats, "+")
}

func init() {
	Register(&Prop{
		ID:               "C08",
		Gen:              c08Gen,
		New:              func() interface{} { return &C08Case{} },
		Check:            c08Check,
		CrashIsViolation: false,
		QuickN:           60000,
		ThoroughN:        800000,
		Rule: "Valid declarations are generated from a value grammar transcribed for ~120 properties and shorthands (keywords, lengths in every unit, percentages, numbers, colours in every syntax, gradients, transforms, 1-4 value box model, border sides in any order, font, flex, columns, list-style, text-decoration...); a declaration only enters a case when PreprocessDeclarations accepts its canonical spelling (others are counted as generator-rejected). " +
			"Four metamorphic relations: variant - ASCII case of property name, keywords, units, function names, hex digits and 'important' (never of strings / custom identifiers / family names), comments and white space incl. newlines between component values, around ':' and in '!important': PreprocessDeclarations output must be deep-equal; " +
			"shorthand - computed longhands of 'short: V' (optionally after an earlier longhand it must reset) equal those of the explicit longhands given by a reference expansion (box model 1-4 values, border/border-side/outline/column-rule in any order with omitted parts initial, flex-flow, gap); " +
			"var - '--x:V; p:var(--x)', a two-step chain, 'var(--undef, V)' and a variable holding only the last component all compute like 'p:V'; undefined, ill-typed and cyclic references compute like no declaration (inherited / initial); " +
			"interleave - a block of 1-5 valid declarations with 1-3 invalid ones (unknown property, vendor prefix, invalid value, missing value, {} block, at-rule...) inserted at drawn positions gives the same PreprocessDeclarations output as the block without them. " +
			"The invalid neighbours include shorthands whose first components are valid and a later one is not. " +
			"Non-trivial: the variant differs from the canonical text; shorthand with an omitted part or a reset; any var case; interleave with >= 1 surviving declaration.",
		ImportantLabels: []string{"kind:variant", "kind:shorthand", "kind:var", "kind:interleave", "omitted-part", "resets-earlier-longhand", "var:cycle", "var:illtyped", "var:fallback"},
		Assumptions:     []string{"positions the grammar marks as strings, custom identifiers, counter or family names are never case-flipped"},
	})
}
