package props

import (
	"strings"

	"github.com/benoitkugler/webrender/css/parser"
	"pgregory.net/rapid"

	"verif/harness/internal/gen"
	"verif/harness/internal/tok"
)

// C20 — Serialized CSS re-parses to the same component values.

type C20Case struct {
	Src  string `json:"src"`
	Skip bool   `json:"skip_comments"`
	Mode string `json:"mode"` // tokens | rules | decls
	Gen  string `json:"gen"`
}

func c20Gen(t *rapid.T, tier Tier) interface{} {
	c := &C20Case{}
	switch rapid.IntRange(0, 9).Draw(t, "mode") {
	case 0:
		c.Mode = "rules"
	case 1:
		c.Mode = "decls"
	default:
		c.Mode = "tokens"
	}
	if c.Mode == "tokens" && rapid.IntRange(0, 2).Draw(t, "adj") == 0 {
		// adjacency-focused: short sequences of tokens separated by nothing or by a comment
		n := rapid.IntRange(2, 4).Draw(t, "n")
		var b strings.Builder
		for i := 0; i < n; i++ {
			if i > 0 && rapid.Bool().Draw(t, "cm") {
				b.WriteString("/**/")
			}
			b.WriteString(gen.CSSHostile(t, 1))
		}
		if rapid.IntRange(0, 3).Draw(t, "tail") == 0 {
			// the last token of the list is not the end of the source
			b.WriteString(rapid.SampledFrom([]string{"/**/", "/* c */", " /**/"}).Draw(t, "tailc"))
		}
		c.Src, c.Gen = b.String(), "adjacent"
	} else {
		c.Src, c.Gen = gen.CSSText(t)
	}
	c.Skip = rapid.Bool().Draw(t, "skip")
	return c
}

func c20NeedsEscape(l []tok.Tok) bool {
	for _, t := range l {
		switch t.Kind {
		case "ident", "at-keyword", "hash", "function", "string", "url":
			for _, r := range t.Value {
				if !(r >= 'a' && r <= 'z' || r >= 'A' && r <= 'Z' || r == '-' || r == '_' || r > 0x7f || (r >= '0' && r <= '9')) {
					return true
				}
			}
			if len(t.Value) > 0 && (t.Value[0] >= '0' && t.Value[0] <= '9' || t.Value[0] == '-') {
				return true
			}
		case "dimension":
			if strings.HasPrefix(strings.ToLower(t.Unit), "e") || strings.HasPrefix(t.Unit, "-") {
				return true
			}
		}
		if c20NeedsEscape(t.Args) {
			return true
		}
	}
	return false
}

func c20Adjacent(l []tok.Tok) bool {
	for i := 1; i < len(l); i++ {
		if l[i].Kind != "whitespace" && l[i-1].Kind != "whitespace" {
			return true
		}
	}
	for _, t := range l {
		if c20Adjacent(t.Args) {
			return true
		}
	}
	return false
}

func c20RoundTrip(orig []parser.Token, skip bool, what string) Verdict {
	a := tok.FromParser(orig)
	if tok.HasError(a) {
		return Verdict{Excluded: "has-parse-error", Labels: []string{"excluded-error"}}
	}
	ser := parser.Serialize(orig)
	back := parser.Tokenize([]byte(ser), skip)
	b := tok.FromParser(back)
	na, nb := tok.Normalize(a), tok.Normalize(b)
	labels := []string{"mode:" + what}
	nt := c20Adjacent(na) || c20NeedsEscape(na)
	if c20Adjacent(na) {
		labels = append(labels, "adjacent-tokens")
	}
	if c20NeedsEscape(na) {
		labels = append(labels, "needs-escape")
	}
	if tok.HasError(b) {
		return Viol("roundtrip:error-appears", "serialization %q of %s re-tokenizes with a parse error: %s", ser, tok.ListString(na), tok.ListString(nb))
	}
	if d := tok.Diff(na, nb, false); d != "" {
		return Viol("roundtrip:"+tok.Class(na, nb), "serialization %q does not tokenize back: %s", ser, d)
	}
	return Verdict{NonTrivial: nt, Labels: labels}
}

func c20Check(ci interface{}) Verdict {
	c := ci.(*C20Case)
	switch c.Mode {
	case "tokens":
		return c20RoundTrip(parser.Tokenize([]byte(c.Src), c.Skip), c.Skip, "tokens")
	case "rules":
		rules := parser.ParseStylesheetBytes([]byte(c.Src), c.Skip, false)
		var out Verdict
		n := 0
		for _, r := range rules {
			var parts [][]parser.Token
			switch r := r.(type) {
			case parser.QualifiedRule:
				parts = [][]parser.Token{r.Prelude, r.Content}
			case parser.AtRule:
				parts = [][]parser.Token{r.Prelude, r.Content}
			}
			for _, p := range parts {
				if len(p) == 0 {
					continue
				}
				v := c20RoundTrip(p, c.Skip, "rules")
				if v.Sig != "" {
					return v
				}
				if v.Excluded == "" {
					n++
					out.NonTrivial = out.NonTrivial || v.NonTrivial
					out.Labels = v.Labels
				}
			}
		}
		if n == 0 {
			return Verdict{Excluded: "no-error-free-rule", Labels: []string{"excluded-error"}}
		}
		return out
	default:
		decls := parser.ParseDeclarationListString(c.Src, c.Skip, false)
		var out Verdict
		n := 0
		for _, d := range decls {
			if d, ok := d.(parser.Declaration); ok && len(d.Value) > 0 {
				v := c20RoundTrip(d.Value, c.Skip, "decls")
				if v.Sig != "" {
					return v
				}
				if v.Excluded == "" {
					n++
					out.NonTrivial = out.NonTrivial || v.NonTrivial
					out.Labels = v.Labels
				}
			}
		}
		if n == 0 {
			return Verdict{Excluded: "no-error-free-declaration", Labels: []string{"excluded-error"}}
		}
		return out
	}
}

func init() {
	Register(&Prop{
		ID:               "C20",
		Gen:              c20Gen,
		New:              func() interface{} { return &C20Case{} },
		Check:            c20Check,
		CrashIsViolation: true,
		QuickN:           160000,
		ThoroughN:        3000000,
		Rule: "Cases: valid UTF-8 CSS text from (a) concatenations of hostile fragments (every delimiter, escapes, url( forms, numbers with signs/exponents, units starting with e/E/-, u+ ranges, control and non-ASCII characters), " +
			"(b) short adjacency sequences of 2-4 such tokens separated by nothing or by a comment, (c) generated style sheets / declaration lists with an injected error or a spliced fragment; tokenized with comments kept or skipped. " +
			"Lists containing a parse-error token or an error-flagged string/url are excluded (counted). Oracle: Tokenize(Serialize(T)) equals T on type, unescaped value, numeric repr+value+integer flag, unit, hash id flag, unicode range and nesting, " +
			"after dropping comments and merging adjacent white space; no parse error may appear. Modes 'rules'/'decls' apply the same relation to prelude/content/value lists of parsed rules and declarations. " +
			"Unicode ranges with one-digit ends; adjacency lists may end with a comment. " +
			"Non-trivial: the list has two adjacent non-white-space tokens or a token whose value needs escaping; distinct = distinct case JSON.",
		ImportantLabels: []string{"adjacent-tokens", "needs-escape", "mode:rules", "mode:decls"},
		Assumptions: []string{"adjacent white-space tokens (only possible after comment removal) are allowed to merge: the property ignores comments and white space carries no value",
			"the hash id flag and string/url error flags are read through the build-tag guarded accessors in css/parser/verif_hooks.go"},
	})
}
