package props

import (
	"fmt"
	"math"
	"regexp"
	"sort"
	"strconv"
	"strings"

	bo "github.com/benoitkugler/webrender/html/boxes"
	"pgregory.net/rapid"

	"verif/harness/internal/wr"
)

// C12 — Pages have the declared geometry and break where CSS allows.
//
// Flat flows of paragraphs whose lines are known by construction (Ahem 10px/1, one word per line,
// line j of block i reads "i.j"), so the fragments of every page can be read back exactly.

type C12Block struct {
	Lines   int    `json:"lines"`
	PadT    int    `json:"pad_t,omitempty"` // padding-top + border-top (px)
	PadB    int    `json:"pad_b,omitempty"`
	Orphans int    `json:"orphans"`
	Widows  int    `json:"widows"`
	BB      string `json:"bb,omitempty"` // break-before
	BA      string `json:"ba,omitempty"` // break-after
	Avoid   bool   `json:"avoid_inside,omitempty"`
	Page    string `json:"page,omitempty"` // named page
}

type C12Rule struct {
	Name   string `json:"name,omitempty"`
	Pseudo string `json:"pseudo,omitempty"` // first left right blank
	W, H   int    `json:"-"`
	Size   [2]int `json:"size,omitempty"` // 0,0 = not declared
	Margin int    `json:"margin"`         // -1 = not declared
	// a second selector of the rule ("name:pseudo, name2:pseudo2"), when Two is set
	Two     bool   `json:"two,omitempty"`
	Name2   string `json:"name2,omitempty"`
	Pseudo2 string `json:"pseudo2,omitempty"`
	// the rule also holds a margin at-rule with declarations of its own (a margin among them)
	MarginBox bool `json:"margin_box,omitempty"`
}

type C12Case struct {
	Blocks []C12Block `json:"blocks"`
	Rules  []C12Rule  `json:"rules"` // rule 0 is the bare @page rule declaring size and margin
	// padding and bottom border of the page box (bare @page rule)
	// WrapFrom > 0: the blocks from that index to the end sit in a plain <div> (no margin, border or padding,
	// no style); each of them names its page, so that the first and the last content of the div differ
	WrapFrom    int `json:"wrap_from,omitempty"`
	PagePadT    int `json:"page_pad_t,omitempty"`
	PagePadB    int `json:"page_pad_b,omitempty"`
	PageBorderB int `json:"page_border_b,omitempty"`
}

var c12Side = map[string]bool{"left": true, "right": true, "recto": true, "verso": true}

var c12Forced = map[string]bool{"page": true, "left": true, "right": true, "always": true, "recto": true, "verso": true}

func c12Gen(t *rapid.T, tier Tier) interface{} {
	c := &C12Case{}
	c.Rules = append(c.Rules, C12Rule{Size: [2]int{rapid.SampledFrom([]int{100, 150}).Draw(t, "pw"), rapid.SampledFrom([]int{50, 60, 65, 80, 100, 125}).Draw(t, "ph")}, Margin: rapid.SampledFrom([]int{0, 5, 10}).Draw(t, "pm")})
	for i, n := 0, rapid.IntRange(0, 3).Draw(t, "nrules"); i < n; i++ {
		r := C12Rule{Margin: -1}
		r.Name = rapid.SampledFrom([]string{"", "", "a", "b"}).Draw(t, "rname")
		r.Pseudo = rapid.SampledFrom([]string{"", "first", "left", "right", "blank", "nth(2)", "nth(2n+1)", "nth(n+3)", "nth(-n+2)", "nth(-2n+5)", "nth(even)"}).Draw(t, "rpseudo")
		if r.Name == "" && r.Pseudo == "" {
			r.Pseudo = "first"
		}
		if rapid.Bool().Draw(t, "rsize") {
			r.Size = [2]int{rapid.SampledFrom([]int{100, 120}).Draw(t, "rw"), rapid.SampledFrom([]int{60, 90, 110}).Draw(t, "rh")}
		}
		if r.Size == [2]int{} || rapid.Bool().Draw(t, "rmargin") {
			r.Margin = rapid.SampledFrom([]int{0, 8, 15}).Draw(t, "rm")
		}
		if rapid.IntRange(0, 2).Draw(t, "rtwo") == 0 {
			r.Two = true
			r.Name2 = rapid.SampledFrom([]string{"", "a", "b"}).Draw(t, "rname2")
			r.Pseudo2 = rapid.SampledFrom([]string{"", "first", "left", "right", "blank", "nth(-n+3)", "nth(3n)"}).Draw(t, "rpseudo2")
			if r.Name2 == "" && r.Pseudo2 == "" {
				r.Pseudo2 = "left"
			}
		}
		r.MarginBox = rapid.IntRange(0, 2).Draw(t, "rmbox") == 0
		c.Rules = append(c.Rules, r)
	}
	if c.Rules[0].Size[1] >= 65 && rapid.IntRange(0, 3).Draw(t, "pagedeco") == 0 {
		c.PagePadT = rapid.SampledFrom([]int{0, 3, 5}).Draw(t, "ppt")
		c.PagePadB = rapid.SampledFrom([]int{0, 4, 10}).Draw(t, "ppb")
		c.PageBorderB = rapid.SampledFrom([]int{0, 2, 5}).Draw(t, "pbb")
	}
	nb := rapid.IntRange(1, 8).Draw(t, "nblocks")
	for i := 0; i < nb; i++ {
		b := C12Block{Lines: rapid.SampledFrom([]int{1, 2, 3, 4, 4, 5, 6, 9, 14}).Draw(t, "lines"), Orphans: 2, Widows: 2}
		if rapid.IntRange(0, 2).Draw(t, "ow") == 0 {
			b.Orphans, b.Widows = rapid.IntRange(1, 4).Draw(t, "orphans"), rapid.IntRange(1, 4).Draw(t, "widows")
		}
		if rapid.IntRange(0, 3).Draw(t, "deco") == 0 {
			b.PadT, b.PadB = rapid.SampledFrom([]int{0, 3, 5}).Draw(t, "padt"), rapid.SampledFrom([]int{0, 3, 5}).Draw(t, "padb")
		}
		if i > 0 {
			b.BB = rapid.SampledFrom([]string{"", "", "", "", "", "avoid", "avoid", "page", "left", "right", "always", "recto", "verso"}).Draw(t, "bb")
		}
		if i < nb-1 && b.BB != "avoid" {
			b.BA = rapid.SampledFrom([]string{"", "", "", "", "", "", "avoid", "avoid", "page", "right", "left"}).Draw(t, "ba")
		}
		b.Avoid = rapid.IntRange(0, 5).Draw(t, "avoid") == 0
		if rapid.IntRange(0, 7).Draw(t, "named") == 0 {
			b.Page = rapid.SampledFrom([]string{"a", "b"}).Draw(t, "pagename")
		}
		c.Blocks = append(c.Blocks, b)
	}
	if nb >= 3 && rapid.IntRange(0, 5).Draw(t, "wrap") == 0 {
		c.WrapFrom = rapid.IntRange(1, nb-2).Draw(t, "wrapfrom")
		for i := c.WrapFrom; i < nb; i++ {
			if c.Blocks[i].Page == "" {
				c.Blocks[i].Page = rapid.SampledFrom([]string{"a", "b"}).Draw(t, "wrappage")
			}
		}
	}
	// a forced break-after and a forced break-before on the same boundary: keep one
	for i := 1; i < len(c.Blocks); i++ {
		if c12Forced[c.Blocks[i-1].BA] && c.Blocks[i].BB != "" {
			// (two requests for a side on one break point are kept: the later one in the flow wins)
			if !(c12Side[c.Blocks[i-1].BA] && c12Side[c.Blocks[i].BB]) {
				c.Blocks[i].BB = ""
			}
		}
		if c.Blocks[i-1].BA == "avoid" && c12Forced[c.Blocks[i].BB] {
			c.Blocks[i-1].BA = ""
		}
	}
	return c
}

func c12HTML(c *C12Case) string {
	var b strings.Builder
	b.WriteString(`<!DOCTYPE html><html><head><style>html,body{margin:0;padding:0;display:block} body{font:10px/1 Ahem} p{display:block;margin:0}`)
	for _, r := range c.Rules {
		sel := "@page"
		if r.Name != "" {
			sel += " " + r.Name
		}
		if r.Pseudo != "" {
			sel += ":" + r.Pseudo
		}
		if r.Two {
			sel += ", "
			if r.Name2 != "" {
				sel += r.Name2
			}
			if r.Pseudo2 != "" {
				sel += ":" + r.Pseudo2
			}
		}
		b.WriteString(sel + "{")
		if r.Size != [2]int{} {
			fmt.Fprintf(&b, "size:%dpx %dpx;", r.Size[0], r.Size[1])
		}
		if r.Margin >= 0 {
			fmt.Fprintf(&b, "margin:%dpx;", r.Margin)
		}
		if r.MarginBox {
			// declarations of a margin box: they style that box, not the page
			b.WriteString(`@top-left{content:"";margin:3px;width:7px}`)
		}
		b.WriteString("}")
	}
	if c.PagePadT+c.PagePadB+c.PageBorderB > 0 {
		fmt.Fprintf(&b, "@page{padding:%dpx 0 %dpx;border-bottom:%dpx solid}", c.PagePadT, c.PagePadB, c.PageBorderB)
	}
	b.WriteString(`@page{@bottom-center{content:counter(page) "/" counter(pages);font:4px/1 Ahem;height:4px}}</style></head><body>`)
	for i, bl := range c.Blocks {
		st := fmt.Sprintf("orphans:%d;widows:%d;", bl.Orphans, bl.Widows)
		if bl.PadT > 0 {
			st += fmt.Sprintf("padding-top:%dpx;", bl.PadT)
		}
		if bl.PadB > 0 {
			st += fmt.Sprintf("padding-bottom:%dpx;", bl.PadB)
		}
		if bl.BB != "" {
			st += "break-before:" + bl.BB + ";"
		}
		if bl.BA != "" {
			st += "break-after:" + bl.BA + ";"
		}
		if bl.Avoid {
			st += "break-inside:avoid;"
		}
		if bl.Page != "" {
			st += "page:" + bl.Page + ";"
		}
		if c.WrapFrom > 0 && i == c.WrapFrom {
			b.WriteString(`<div>`)
		}
		fmt.Fprintf(&b, `<p id="b%d" style="%s">`, i, st)
		for j := 0; j < bl.Lines; j++ {
			if j > 0 {
				b.WriteString("<br>")
			}
			fmt.Fprintf(&b, "%d.%d", i, j)
		}
		b.WriteString("</p>")
	}
	if c.WrapFrom > 0 {
		b.WriteString(`</div>`)
	}
	b.WriteString("</body></html>")
	return b.String()
}

type c12Frag struct {
	block      int
	from, to   int     // lines [from, to)
	top, bot   float64 // border box, page coordinates
	lineBottom float64 // bottom of the last line
	firstTop   float64 // top of the first line
}

type c12Page struct {
	frags                  []c12Frag
	contentTop, contentBot float64
	w, h                   float64 // page box (margin box) size
	ml, mr, mt, mb         float64
	side, name             string
	blank, first           bool
	index                  int
	marginText             string
}

var c12Line = regexp.MustCompile(`^(\d+)\.(\d+)$`)

func c12Observe(r *wr.Rendered) ([]c12Page, string) {
	var pages []c12Page
	for _, p := range r.Pages {
		pg := c12Page{contentTop: float64(p.ContentBoxY()), w: float64(p.MarginWidth()), h: float64(p.MarginHeight()),
			ml: float64(p.MarginLeft.V()), mr: float64(p.MarginRight.V()), mt: float64(p.MarginTop.V()), mb: float64(p.MarginBottom.V()),
			side: p.PageType.Side, name: p.PageType.Name, blank: p.PageType.Blank, first: p.PageType.First, index: p.PageType.Index}
		pg.contentBot = pg.contentTop + float64(p.Height.V())
		for _, ch := range p.Children {
			if mb, ok := ch.(*bo.MarginBox); ok {
				wr.WalkBoxes(mb, func(b bo.Box) bool {
					if tb, ok := b.(*bo.TextBox); ok {
						pg.marginText += tb.TextS()
					}
					return true
				})
				continue
			}
			wr.WalkBoxes(ch, func(b bo.Box) bool {
				bf := b.Box()
				if bf.Element == nil || bf.PseudoType != "" || bf.Element.Data != "p" {
					return true
				}
				id := ""
				for _, a := range bf.Element.Attr {
					if a.Key == "id" {
						id = a.Val
					}
				}
				if !strings.HasPrefix(id, "b") {
					return true
				}
				bi, _ := strconv.Atoi(id[1:])
				fr := c12Frag{block: bi, from: -1, top: float64(bf.BorderBoxY()), bot: float64(bf.BorderBoxY() + bf.BorderHeight())}
				for _, l := range bf.Children {
					lb, ok := l.(*bo.LineBox)
					if !ok {
						continue
					}
					txt := ""
					wr.WalkBoxes(lb, func(x bo.Box) bool {
						if tb, ok := x.(*bo.TextBox); ok {
							txt += tb.TextS()
						}
						return true
					})
					m := c12Line.FindStringSubmatch(strings.TrimSpace(txt))
					if m == nil {
						continue
					}
					j, _ := strconv.Atoi(m[2])
					if fr.from < 0 {
						fr.from = j
						fr.firstTop = float64(lb.PositionY)
					}
					fr.to = j + 1
					fr.lineBottom = float64(lb.PositionY + lb.Height.V())
				}
				if fr.from >= 0 {
					pg.frags = append(pg.frags, fr)
				}
				return false
			})
		}
		pages = append(pages, pg)
	}
	return pages, ""
}

// :nth() page selectors of the generator: a, b of an+b
var c12Nth = map[string][2]int{"nth(2)": {0, 2}, "nth(2n+1)": {2, 1}, "nth(n+3)": {1, 3}, "nth(-n+2)": {-1, 2}, "nth(-2n+5)": {-2, 5}, "nth(even)": {2, 0}, "nth(-n+3)": {-1, 3}, "nth(3n)": {3, 0}}

// c12Expected geometry: the @page cascade (css-page-3 section 5: specificity (name, :first/:blank, :left/:right), then order).
func c12Geometry(c *C12Case, pg c12Page) (w, h, m int) {
	type cand struct {
		spec [3]int
		ord  int
		r    C12Rule
	}
	var cs []cand
	match := func(name, pseudo string) (bool, [3]int) {
		if name != "" && name != pg.name {
			return false, [3]int{}
		}
		switch pseudo {
		case "first":
			if !pg.first {
				return false, [3]int{}
			}
		case "blank":
			if !pg.blank {
				return false, [3]int{}
			}
		case "left", "right":
			if pg.side != pseudo {
				return false, [3]int{}
			}
		}
		if a, b, ok := c12Nth[pseudo][0], c12Nth[pseudo][1], strings.HasPrefix(pseudo, "nth("); ok {
			// the page number (from 1) is a*n + b for some n >= 0
			hit := false
			for n := 0; n <= 200 && !hit; n++ {
				hit = a*n+b == pg.index+1
			}
			if !hit {
				return false, [3]int{}
			}
		}
		sp := [3]int{}
		if name != "" {
			sp[0] = 1
		}
		if pseudo == "first" || pseudo == "blank" || strings.HasPrefix(pseudo, "nth(") {
			sp[1] = 1
		}
		if pseudo == "left" || pseudo == "right" {
			sp[2] = 1
		}
		return true, sp
	}
	for i, r := range c.Rules {
		// each selector of a list stands for a rule of its own with the same declarations
		if ok, sp := match(r.Name, r.Pseudo); ok {
			cs = append(cs, cand{sp, i, r})
		}
		if r.Two {
			if ok, sp := match(r.Name2, r.Pseudo2); ok {
				cs = append(cs, cand{sp, i, r})
			}
		}
	}
	sort.SliceStable(cs, func(i, j int) bool {
		if cs[i].spec != cs[j].spec {
			for k := 0; k < 3; k++ {
				if cs[i].spec[k] != cs[j].spec[k] {
					return cs[i].spec[k] < cs[j].spec[k]
				}
			}
		}
		return cs[i].ord < cs[j].ord
	})
	for _, cd := range cs { // later (stronger) candidates override
		if cd.r.Size != [2]int{} {
			w, h = cd.r.Size[0], cd.r.Size[1]
		}
		if cd.r.Margin >= 0 {
			m = cd.r.Margin
		}
	}
	return
}

func c12Eff(c *C12Case, i int) string {
	for ; i >= 0; i-- {
		if c.Blocks[i].Page != "" {
			return c.Blocks[i].Page
		}
	}
	return ""
}

func c12Check(ci interface{}) Verdict {
	c := ci.(*C12Case)
	html := c12HTML(c)
	r, err := wr.Render(html, wr.Opts{Engine: "pango", Zoom: 1})
	if err != nil {
		return Verdict{Excluded: "rejected"}
	}
	pages, _ := c12Observe(r)
	labels := map[string]bool{}
	fail := func(sig, format string, args ...interface{}) Verdict {
		var desc []string
		for i, p := range pages {
			var fs []string
			for _, f := range p.frags {
				fs = append(fs, fmt.Sprintf("b%d[%d:%d]@%.0f-%.0f", f.block, f.from, f.to, f.top, f.bot))
			}
			desc = append(desc, fmt.Sprintf("page %d (%s%s%s, name %q, content %.0f-%.0f): %s", i, p.side, map[bool]string{true: " blank"}[p.blank], map[bool]string{true: " first"}[p.first], p.name, p.contentTop, p.contentBot, strings.Join(fs, " ")))
		}
		v := Viol(sig, format+"\n%s\n%s", append(args, strings.Join(desc, "\n"), html)...)
		return v
	}
	const tol = 0.02
	n := len(pages)
	if n > 1 {
		labels["pages>1"] = true
	}
	// (a) page types and geometry
	for i, p := range pages {
		wantSide := "right"
		if i%2 == 1 {
			wantSide = "left"
		}
		if p.index != i || p.first != (i == 0) || p.side != wantSide {
			return fail("page-type", "page %d has type index=%d first=%v side=%s; expected index %d, first %v, side %s (left-to-right document: the first page is a right page)", i, p.index, p.first, p.side, i, i == 0, wantSide)
		}
		if p.blank && len(p.frags) > 0 {
			return fail("blank-page-with-content", "page %d is blank but holds content", i)
		}
		if !p.blank && len(p.frags) > 0 {
			// (judged only for a first block that names its page: what page:auto means after a named
			// block is read differently by css-page-3 and by the repository's TestPageNames4)
			if want := c.Blocks[p.frags[0].block].Page; want != "" && p.name != want {
				return fail("page-name", "page %d is named %q, its first content belongs to the named page %q", i, p.name, want)
			}
		}
		w, h, m := c12Geometry(c, p)
		if math.Abs(p.w-float64(w)) > tol || math.Abs(p.h-float64(h)) > tol {
			return fail("geometry:size", "page %d is %gx%g, the matching @page rules give %dx%d", i, p.w, p.h, w, h)
		}
		for _, mg := range []float64{p.ml, p.mr, p.mt, p.mb} {
			if math.Abs(mg-float64(m)) > tol {
				return fail("geometry:margin", "page %d has margins %g %g %g %g, the matching @page rules give %d", i, p.mt, p.mr, p.mb, p.ml, m)
			}
		}
		// the content box is what the margins, the padding and the border of the page box leave
		if wantTop, wantBot := float64(m+c.PagePadT), float64(h-m-c.PagePadB-c.PageBorderB); math.Abs(p.contentTop-wantTop) > tol || math.Abs(p.contentBot-wantBot) > tol {
			return fail("geometry:content-box", "the content box of page %d spans y=%g-%g, the @page rules give %g-%g", i, p.contentTop, p.contentBot, wantTop, wantBot)
		}
		if c.PagePadT+c.PagePadB+c.PageBorderB > 0 {
			labels["page-padding-border"] = true
		}
		if len(c.Rules) > 1 {
			labels["several-page-rules"] = true
		}
		// (f) counters
		if want := fmt.Sprintf("%d/%d", i+1, n); strings.TrimSpace(p.marginText) != want {
			return fail("page-counter", "the margin box of page %d reads %q, expected %q", i, p.marginText, want)
		}
	}
	// content conservation is C02's; the checks below need complete fragments
	next := make([]int, len(c.Blocks))
	for _, p := range pages {
		for _, f := range p.frags {
			if f.from != next[f.block] {
				return Verdict{Excluded: "lines-lost-or-duplicated-(C02)"}
			}
			next[f.block] = f.to
		}
	}
	for i, b := range c.Blocks {
		if next[i] != b.Lines {
			return Verdict{Excluded: "lines-lost-or-duplicated-(C02)"}
		}
	}
	// effective page name: the repository's own TestPageNames4 (taken from the original test suite) pins
	// that a block with page:auto following a named block stays on that named page, so the name in
	// force only changes at a block that declares another one
	boundaryForced := func(i int) (bool, string) { // between block i-1 and i
		if i == 0 {
			return false, ""
		}
		side := ""
		// (css-break-3 3.1: of several forced break values on one break point, the one latest in the flow wins)
		for _, v := range []string{c.Blocks[i-1].BA, c.Blocks[i].BB} {
			switch v {
			case "left", "verso":
				side = "left"
			case "right", "recto":
				side = "right"
			}
		}
		f := c12Forced[c.Blocks[i].BB] || c12Forced[c.Blocks[i-1].BA] || (c.Blocks[i].Page != "" && c.Blocks[i].Page != c.Blocks[i-1].Page)
		return f, side
	}
	boundaryAvoid := func(i int) bool {
		if i == 0 {
			return false
		}
		if f, _ := boundaryForced(i); f {
			return false
		}
		return c.Blocks[i].BB == "avoid" || c.Blocks[i-1].BA == "avoid"
	}
	// (b) forced breaks
	for pi, p := range pages {
		for fi, f := range p.frags {
			if f.from != 0 {
				continue
			}
			forced, side := boundaryForced(f.block)
			if forced {
				labels["forced-break"] = true
				if fi != 0 {
					return fail("forced-break:not-honoured", "block b%d must start a new page (forced break or change of named page) but follows b%d on page %d", f.block, p.frags[fi-1].block, pi)
				}
				if side != "" && p.side != side {
					return fail("forced-break:side", "block b%d must start on a %s page, page %d is a %s page", f.block, side, pi, p.side)
				}
				if side != "" {
					labels["forced-side"] = true
				}
			}
		}
		if p.blank {
			labels["blank-page"] = true
			// a blank page is only inserted to reach the side a forced break asks for
			if pi+1 >= n || len(pages[pi+1].frags) == 0 || pages[pi+1].frags[0].from != 0 {
				return fail("blank-page:unexpected", "page %d is blank but the next page does not start with a block", pi)
			}
			if _, side := boundaryForced(pages[pi+1].frags[0].block); side == "" {
				return fail("blank-page:unexpected", "page %d is blank but b%d, which starts the next page, does not ask for a left or right page", pi, pages[pi+1].frags[0].block)
			}
		} else if len(p.frags) == 0 {
			return fail("empty-page", "page %d holds no content and is not a blank page", pi)
		}
	}
	// (c) fit
	for pi, p := range pages {
		for fi, f := range p.frags {
			if f.lineBottom > p.contentBot+tol && !(fi == 0 && f.to-f.from == 1) {
				// the last line overflows although it is not the only line that had to be placed
				if fi == 0 && f.firstTop >= p.contentBot-tol {
					continue
				}
				return fail("overflow", "on page %d lines of b%d reach y=%g, below the page content box (%g), although an earlier break was possible", pi, f.block, f.lineBottom, p.contentBot)
			}
		}
	}
	unit := func(bi, from int) (need float64, whole bool) { // smallest piece of block bi that may be placed, from line `from`
		b := c.Blocks[bi]
		rest := b.Lines - from
		k := 1
		if from == 0 {
			k = b.Orphans
		}
		// what stays after the piece must satisfy widows, else everything goes
		if b.Avoid || k >= rest || rest-k < b.Widows {
			k = rest
			// (a piece that leaves fewer than `widows` lines is not allowed: take all, unless more lines make it allowed)
			if !b.Avoid && from > 0 && rest-1 >= b.Widows {
				k = 1
			}
		}
		need = float64(10 * k)
		if from == 0 {
			need += float64(b.PadT)
		}
		if k == rest {
			need += float64(b.PadB)
			whole = true
		}
		return
	}
	// (d) no early break
	for pi := 0; pi+1 < n; pi++ {
		p, q := pages[pi], pages[pi+1]
		if p.blank || q.blank || len(p.frags) == 0 || len(q.frags) == 0 {
			continue
		}
		last, nf := p.frags[len(p.frags)-1], q.frags[0]
		room := p.contentBot - last.lineBottom
		if nf.from == 0 {
			room = p.contentBot - last.bot
			if f, _ := boundaryForced(nf.block); f {
				continue
			}
		}
		need, whole := unit(nf.block, nf.from)
		// a chain of avoided breaks keeps the following blocks together
		bi := nf.block
		for whole && bi+1 < len(c.Blocks) && boundaryAvoid(bi+1) {
			more, w2 := unit(bi+1, 0)
			need += more
			whole = w2
			bi++
		}
		if need <= room-tol {
			// excuses: the break inside the previous block was moved up for its widows
			if nf.from > 0 {
				b := c.Blocks[nf.block]
				if (b.Lines-nf.from)-1 < b.Widows {
					continue // one more line on the previous page would leave too few lines here
				}
			}
			// an avoided break right here means the content before it was pushed along
			if nf.from == 0 && boundaryAvoid(nf.block) {
				continue
			}
			labels["early-break-candidate"] = true
			return fail("early-break", "page %d ends with %g px free although the next piece of b%d (%g px with what must stay with it) fits and the break is not forced", pi, room, nf.block, need)
		}
		labels["page-filled"] = true
	}
	// (e) constraints honoured when possible
	for pi, p := range pages {
		for fi, f := range p.frags {
			b := c.Blocks[f.block]
			firstOnPage := fi == 0
			split := f.to < b.Lines
			if b.Avoid && split && !(firstOnPage && f.from == 0) && !(firstOnPage) {
				return fail("avoid-inside:split", "b%d has break-inside:avoid but is split on page %d where it is not the first content", f.block, pi)
			}
			if split && f.from == 0 && f.to-f.from < b.Orphans && !firstOnPage {
				return fail("orphans", "b%d leaves %d lines at the bottom of page %d (orphans: %d) although it could have been moved to the next page", f.block, f.to-f.from, pi, b.Orphans)
			}
			if !split && f.from > 0 && f.to-f.from < b.Widows {
				// lines could have been taken from the previous fragment unless that breaks its orphans
				prevLines := f.from
				if pi > 0 {
					for _, pf := range pages[pi-1].frags {
						if pf.block == f.block {
							prevLines = pf.to - pf.from
							needMove := b.Widows - (f.to - f.from)
							// orphans is the minimum left at the bottom of any page of the block
							minKeep := b.Orphans
							if prevLines-needMove >= minKeep {
								return fail("widows", "b%d has %d lines at the top of page %d (widows: %d) although the previous page could spare %d more", f.block, f.to-f.from, pi, b.Widows, needMove)
							}
						}
					}
				}
			}
			if f.from == 0 && firstOnPage && pi > 0 && boundaryAvoid(f.block) {
				// the avoided break was taken: accepted only if no earlier legal break existed on the previous page
				prev := pages[pi-1]
				if len(prev.frags) == 0 {
					continue
				}
				labels["avoid-violated-candidate"] = true
				lf := prev.frags[len(prev.frags)-1]
				lb := c.Blocks[lf.block]
				// inside the last block of the previous page
				minKeep := lb.Orphans
				keepable := (lf.to - lf.from) - lb.Widows // lines that may stay when `widows` lines move on
				inside := !lb.Avoid && lf.to == lb.Lines && keepable >= minKeep
				if inside && len(prev.frags) == 1 && lf.from > 0 && keepable < 1 {
					inside = false
				}
				// between earlier siblings of the previous page
				between := false
				for k := 1; k < len(prev.frags); k++ {
					if prev.frags[k].from == 0 && !boundaryAvoid(prev.frags[k].block) {
						between = true
					}
				}
				if inside || between {
					// the moved content must fit on one page with b: else no conforming break exists
					return fail("avoid:ignored", "the break between b%d and b%d is avoided (break-before/after: avoid) but page %d starts with b%d although an earlier legal break existed on page %d (inside b%d: %v, between earlier blocks: %v)", lf.block, f.block, pi, f.block, pi-1, lf.block, inside, between)
				}
			}
		}
	}
	var ls []string
	for l := range labels {
		ls = append(ls, l)
	}
	sort.Strings(ls)
	return Verdict{NonTrivial: n >= 2, Labels: ls}
}

func init() {
	Register(&Prop{
		ID:               "C12",
		Gen:              c12Gen,
		New:              func() interface{} { return &C12Case{} },
		Check:            c12Check,
		CrashIsViolation: false,
		QuickN:           12000,
		ThoroughN:        400000,
		Rule: "Flat flows of 1-8 paragraphs of 1-14 lines (Ahem 10px/1, one word per line that names block and line), each with orphans/widows 1-4, optional top/bottom padding, break-before / break-after in {auto, avoid, page, left, right, always, recto, verso}, break-inside:avoid, named page a/b; 1-4 @page rules: a bare one (size 100-150 x 50-125, margin 0-10) plus rules selected by name and/or :first/:left/:right/:blank declaring size and/or margin; a bottom-center margin box printing counter(page)/counter(pages). " +
			"Oracle: (a) page types: index, first, side alternate from a right first page; the page name is the named page of its first content; size and margins are those of a reference @page cascade (specificity name > :first/:blank > :left/:right, then order). (b) a block after a forced break or a change of named page is the first content of its page, on the requested side; blank pages appear only before a page whose first block asks for a side, and hold nothing. (c) no line lies below the page content box unless it is the only first line of the page. (d) a page that is left with room ends at a forced break, or the next unbreakable unit (next line, orphans group, whole avoid-inside or short block, plus the blocks an avoided break ties to it) does not fit, or widows moved the break up. (e) break-inside:avoid, orphans, widows and break-*: avoid are violated only when no conforming break existed on that page. (f) the margin box reads i/n. " +
			"Non-trivial: at least two pages.",
		ImportantLabels: []string{"pages>1", "forced-break", "forced-side", "blank-page", "several-page-rules", "page-filled", "avoid-violated-candidate"},
		Assumptions:     []string{"cases where C02 loses or duplicates lines are excluded here", "margins between blocks are zero (margin collapsing at page breaks is not modelled)"},
	})
}
