package props

import (
	"bytes"
	"crypto/sha256"
	"encoding/hex"
	"encoding/json"
	"fmt"
	"os"
	"os/exec"
	"strconv"
	"strings"
	"sync"
	"testing"
	"time"

	"pgregory.net/rapid"

	"verif/harness/internal/gen"
	"verif/harness/internal/wr"
)

// C15 — Rendering is deterministic and renders do not interfere.

type C15Case struct {
	Kind   string    `json:"kind"` // repeat process concurrent
	Docs   []gen.Doc `json:"docs"`
	Order  []int     `json:"order,omitempty"` // repeat: sequence of document indices to render
	Procs  int       `json:"procs,omitempty"`
	Jitter []int     `json:"jitter_us,omitempty"`
}

const c15PNG = "data:image/png;base64,iVBORw0KGgoAAAANSUhEUgAAAAEAAAABCAYAAAAfFcSJAAAADUlEQVR42mP8z8BQDwAEhQGAhKmMIQAAAABJRU5ErkJggg=="

var c15Extra = []string{
	// raster images: the backend identifies them by a number derived from their URL
	`<img src="` + c15PNG + `" style="width:10px;height:10px"><img src="` + c15PNG + `" style="width:5px;height:5px">`,
	`<div style="width:20px;height:20px;background:url(` + c15PNG + `)"></div>`,
	// one family name bound by @font-face to different font files in different documents; lengths in ex / ch
	// depend on which file the name stands for in the document at hand
	`<style>@font-face{font-family:shared;src:url(verif-font:AHEM____.TTF)}</style><p style="font:20px shared;width:10ex;height:3ch;background:red">Aex</p>`,
	`<style>@font-face{font-family:shared;src:url(verif-font:DejaVuSans.ttf)}</style><p style="font:20px shared;width:10ex;height:3ch;background:blue">Dex</p>`,
	`<style>@font-face{font-family:shared;src:url(verif-font:weasyprint.otf)}</style><p style="font:20px shared;width:10ex;margin-left:2ch;background:lime">Wex</p>`,
	`<p lang="hu" style="hyphens:auto;width:6em;font-family:Ahem">asszonyság hosszú vissza</p>`,
	`<p lang="en" style="hyphens:auto;width:5em">extraordinary hyphenation characteristics</p>`,
	`<p lang="fr" style="hyphens:auto;width:5em">anticonstitutionnellement</p>`,
	`<ol style="list-style-type:lower-roman"><li>a<li>b<li>c</ol>`,
	`<p id="x1">a</p><p id="x2">b</p><p id="x3">c</p><a href="#x2">l</a><a href="#x3">m</a><a href="#x1">n</a>`,
	`<h1>T1</h1><h2>T2</h2><h3 id="z">T3</h3><a href="#z">z</a>`,
	`<img src="data:image/svg+xml,%3Csvg xmlns='http://www.w3.org/2000/svg' width='10' height='10'%3E%3Crect width='5' height='5'/%3E%3C/svg%3E">`,
	`<p style="font-family:weasyprint">liga</p><p style="font-family:DejaVu Sans">text with kerning AVA</p>`,
	`<style>@counter-style cc{system:cyclic;symbols:'x' 'y'} ul{list-style-type:cc}</style><ul><li>1<li>2<li>3</ul>`,
	`<div style="float:left" id="f1">f</div><div style="position:absolute" id="a1">a</div><span id="s1">s</span><span id="s2">s</span><span id="s3">s</span><span id="s4">s</span>`,
}

func c15Doc(t *rapid.T) gen.Doc {
	d := gen.GenDoc(t, 3, false)
	d.Engine = "pango"
	d.Zoom = 1
	// documents touching the process-wide tables: hyphenation dictionaries, counter styles, fonts, anchors
	n := rapid.IntRange(0, 3).Draw(t, "nextra")
	extra := ""
	for i := 0; i < n; i++ {
		extra += rapid.SampledFrom(c15Extra).Draw(t, "extra")
	}
	// a user style sheet (parsed on its own, outside any document) defining counter styles: its rules belong to
	// the renders that are given this sheet, and to no other
	if rapid.IntRange(0, 5).Draw(t, "usercs") == 0 {
		d.UserCSS = append(d.UserCSS, rapid.SampledFrom([]string{
			`@counter-style lower-roman{system:cyclic;symbols:"*"}`,
			`@counter-style cc{system:cyclic;symbols:"u"}`,
			`@counter-style upper-alpha{system:fixed;symbols:"one" "two"} @counter-style undefined-elsewhere{system:cyclic;symbols:"?"}`,
		}).Draw(t, "usercsrule"))
	}
	if rapid.IntRange(0, 5).Draw(t, "uselist") == 0 {
		extra += rapid.SampledFrom([]string{`<ol style="list-style-type:upper-alpha"><li>a<li>b<li>c</ol>`, `<ul style="list-style-type:undefined-elsewhere"><li>a<li>b</ul>`, `<ol style="list-style-type:lower-roman"><li>i<li>ii</ol>`}).Draw(t, "listuse")
	}
	if i := strings.LastIndex(d.HTML, "</body>"); i >= 0 {
		d.HTML = d.HTML[:i] + extra + d.HTML[i:]
	} else {
		d.HTML += extra
	}
	return d
}

func c15Gen(t *rapid.T, tier Tier) interface{} {
	c := &C15Case{}
	switch rapid.IntRange(0, 9).Draw(t, "kind") {
	case 0:
		c.Kind = "process"
		c.Docs = []gen.Doc{c15Doc(t)}
	case 9:
		// one rendered document, drawn several times (two targets, a preview then the final output)
		c.Kind = "redraw"
		c.Docs = []gen.Doc{c15Doc(t)}
	case 1, 2, 3, 4:
		c.Kind = "repeat"
		n := rapid.IntRange(1, 3).Draw(t, "ndocs")
		for i := 0; i < n; i++ {
			c.Docs = append(c.Docs, c15Doc(t))
		}
		k := rapid.IntRange(3, 7).Draw(t, "norder")
		for i := 0; i < k; i++ {
			c.Order = append(c.Order, rapid.IntRange(0, n-1).Draw(t, "oi"))
		}
		c.Order = append(c.Order, 0, 0) // the first document at least twice
	default:
		c.Kind = "concurrent"
		n := rapid.IntRange(2, 6).Draw(t, "nconc")
		for i := 0; i < n; i++ {
			c.Docs = append(c.Docs, c15Doc(t))
			c.Jitter = append(c.Jitter, rapid.IntRange(0, 2000).Draw(t, "jit"))
		}
	}
	return c
}

// c15Trace renders with a fresh font configuration and returns the canonical trace.
func c15Trace(d gen.Doc) (trace string, ok bool) {
	defer func() {
		if r := recover(); r != nil {
			trace, ok = fmt.Sprint("panic: ", r), false
		}
	}()
	r, err := wr.RenderWith(d.HTML, wr.Opts{Engine: "pango", Hints: d.Hints, UserCSS: d.UserCSS, Zoom: 1}, wr.FreshFC("pango"))
	if err != nil {
		return "rejected", false
	}
	return r.Rec.Trace(), true
}

func traceDigest(s string) string {
	h := sha256.Sum256([]byte(s))
	return hex.EncodeToString(h[:8])
}

func firstDiff(a, b string) string {
	la, lb := strings.Split(a, "\n"), strings.Split(b, "\n")
	for i := 0; i < len(la) && i < len(lb); i++ {
		if la[i] != lb[i] {
			return fmt.Sprintf("call %d: %q vs %q", i, la[i], lb[i])
		}
	}
	return fmt.Sprintf("%d calls vs %d calls", len(la), len(lb))
}

func c15Class(a, b string) string {
	la, lb := strings.Split(a, "\n"), strings.Split(b, "\n")
	for i := 0; i < len(la) && i < len(lb); i++ {
		if la[i] != lb[i] {
			fa, fb := strings.Fields(la[i]), strings.Fields(lb[i])
			if len(fa) > 3 && len(fb) > 3 {
				if fa[3] == fb[3] {
					return fa[3]
				}
				return fa[3] + "/" + fb[3]
			}
		}
	}
	return "length"
}

func c15Check(ci interface{}) Verdict {
	c := ci.(*C15Case)
	labels := []string{"kind:" + c.Kind}
	for _, d := range c.Docs {
		if strings.Contains(d.HTML, "hyphens:auto") {
			labels = append(labels, "hyphenation")
		}
		if strings.Contains(d.HTML, "counter-style") {
			labels = append(labels, "counter-style")
		}
		if strings.Contains(d.HTML, "href=\"#") {
			labels = append(labels, "internal-links")
		}
	}
	// reference traces, sequentially
	refs := make([]string, len(c.Docs))
	nt := false
	for i, d := range c.Docs {
		start := time.Now()
		tr, ok := c15Trace(d)
		if time.Since(start) > 4*time.Second {
			// (race-instrumented build) rendering it again several times would hit the case deadline
			return Verdict{Excluded: "slow-document", Labels: labels}
		}
		if !ok {
			if strings.HasPrefix(tr, "panic") {
				return Verdict{Excluded: "crash-belongs-to-C01", Labels: labels}
			}
			return Verdict{Excluded: "rejected", Labels: labels}
		}
		refs[i] = tr
		if strings.Count(tr, "\n") >= 50 {
			nt = true
		}
	}
	switch c.Kind {
	case "redraw":
		d := c.Docs[0]
		r, err := wr.RenderWith(d.HTML, wr.Opts{Engine: "pango", Hints: d.Hints, UserCSS: d.UserCSS, Zoom: 1}, wr.FreshFC("pango"))
		if err != nil {
			return Verdict{Excluded: "rejected", Labels: labels}
		}
		first := r.Rec.Trace()
		for k := 2; k <= 3; k++ {
			rec := wr.NewRecorder()
			r.Doc.Write(rec, 1, nil)
			if tr := rec.Trace(); tr != first {
				return Viol("redraw:"+c15Class(first, tr), "drawing the same rendered document for the %d. time gives another call sequence: %s\n%s", k, firstDiff(first, tr), d.HTML)
			}
		}
		if first != refs[0] {
			return Viol("repeat:"+c15Class(refs[0], first), "document rendered again gives another call sequence: %s\n%s", firstDiff(refs[0], first), d.HTML)
		}
	case "repeat":
		for step, i := range c.Order {
			tr, ok := c15Trace(c.Docs[i])
			if !ok {
				return Viol("repeat:later-render-fails", "render %d of document %d fails (%s) although its first render succeeded", step, i, firstLines(tr, 1))
			}
			if tr != refs[i] {
				return Viol("repeat:"+c15Class(refs[i], tr), "document %d rendered again (step %d, after other renders) gives another call sequence: %s\n%s", i, step, firstDiff(refs[i], tr), c.Docs[i].HTML)
			}
		}
	case "process":
		// the same document in a new process (other map seeds, nothing rendered before)
		f, err := os.CreateTemp("", "c15-*.json")
		if err != nil {
			return Verdict{Excluded: "infra-tempfile", Labels: labels}
		}
		defer os.Remove(f.Name())
		json.NewEncoder(f).Encode(c.Docs[0])
		f.Close()
		for k := 0; k < 2; k++ {
			cmd := exec.Command(os.Args[0], "-test.run", "^TestTraceOf$", "-vdoc", f.Name())
			cmd.Env = os.Environ()
			var out bytes.Buffer
			cmd.Stdout = &out
			cmd.Stderr = &out
			done := make(chan error, 1)
			if err := cmd.Start(); err != nil {
				return Verdict{Excluded: "infra-exec", Labels: labels}
			}
			go func() { done <- cmd.Wait() }()
			select {
			case <-done:
			case <-time.After(60 * time.Second):
				cmd.Process.Kill()
				return Verdict{Excluded: "child-timeout", Labels: labels}
			}
			digest := ""
			for _, l := range strings.Split(out.String(), "\n") {
				if strings.HasPrefix(l, "TRACE ") {
					digest = strings.TrimSpace(l[6:])
				}
			}
			if digest == "" {
				return Verdict{Excluded: "child-no-trace", Msg: tail(out.String(), 300), Labels: labels}
			}
			if digest != traceDigest(refs[0]) {
				return Viol("process:differs", "the document rendered in a new process gives another call sequence (digest %s vs %s)\n%s", digest, traceDigest(refs[0]), c.Docs[0].HTML)
			}
		}
		// a new process again, where four renders of the document start together before anything else
		// was rendered (cold dictionaries and caches)
		{
			cmd := exec.Command(os.Args[0], "-test.run", "^TestTraceOf$", "-vdoc", f.Name())
			cmd.Env = append(os.Environ(), "VERIF_C15_CONC=4")
			var out bytes.Buffer
			cmd.Stdout = &out
			cmd.Stderr = &out
			done := make(chan error, 1)
			if err := cmd.Start(); err != nil {
				return Verdict{Excluded: "infra-exec", Labels: labels}
			}
			go func() { done <- cmd.Wait() }()
			select {
			case <-done:
			case <-time.After(90 * time.Second):
				cmd.Process.Kill()
				return Verdict{Excluded: "child-timeout", Labels: labels}
			}
			var digests []string
			for _, l := range strings.Split(out.String(), "\n") {
				if strings.HasPrefix(l, "TRACES ") {
					digests = strings.Fields(l[7:])
				}
			}
			if len(digests) == 0 {
				return Verdict{Excluded: "child-no-trace", Msg: tail(out.String(), 300), Labels: labels}
			}
			for i, dg := range digests {
				if dg != traceDigest(refs[0]) {
					return Viol("process:cold-concurrent", "render %d of 4 started together in a new process gives another call sequence than the document rendered alone (digest %s vs %s)\n%s", i, dg, traceDigest(refs[0]), c.Docs[0].HTML)
				}
			}
			labels = append(labels, "cold-concurrent")
		}
	case "concurrent":
		got := make([]string, len(c.Docs))
		oks := make([]bool, len(c.Docs))
		var wg sync.WaitGroup
		for i := range c.Docs {
			wg.Add(1)
			go func(i int) {
				defer wg.Done()
				time.Sleep(time.Duration(c.Jitter[i]) * time.Microsecond)
				got[i], oks[i] = c15Trace(c.Docs[i])
			}(i)
		}
		wg.Wait()
		for i := range c.Docs {
			if !oks[i] {
				return Viol("concurrent:render-fails", "document %d fails when rendered concurrently (%s) although it renders alone", i, firstLines(got[i], 2))
			}
			if got[i] != refs[i] {
				return Viol("concurrent:"+c15Class(refs[i], got[i]), "document %d rendered concurrently with %d others gives another call sequence: %s\n%s", i, len(c.Docs)-1, firstDiff(refs[i], got[i]), c.Docs[i].HTML)
			}
		}
	}
	return Verdict{NonTrivial: nt, Labels: labels}
}

func tail(s string, n int) string {
	if len(s) > n {
		return s[len(s)-n:]
	}
	return s
}

func firstLines(s string, n int) string {
	l := strings.Split(s, "\n")
	if len(l) > n {
		l = l[:n]
	}
	return strings.Join(l, "\n")
}

// c15TraceOf is called by TestTraceOf in a child process.
func c15TraceOf(t *testing.T, file string) {
	b, err := os.ReadFile(file)
	if err != nil {
		t.Fatal(err)
	}
	var d gen.Doc
	if err := json.Unmarshal(b, &d); err != nil {
		t.Fatal(err)
	}
	if n, _ := strconv.Atoi(os.Getenv("VERIF_C15_CONC")); n > 1 {
		// nothing has been rendered in this process yet: the renders start together, on cold process-wide caches
		digests := make([]string, n)
		var wg sync.WaitGroup
		for i := 0; i < n; i++ {
			wg.Add(1)
			go func(i int) {
				defer wg.Done()
				tr, ok := c15Trace(d)
				if !ok {
					digests[i] = "failed:" + firstLines(tr, 1)
					return
				}
				digests[i] = traceDigest(tr)
			}(i)
		}
		wg.Wait()
		fmt.Println("TRACES " + strings.Join(digests, " "))
		return
	}
	tr, ok := c15Trace(d)
	if !ok {
		fmt.Println("TRACE failed:" + firstLines(tr, 1))
		return
	}
	fmt.Println("TRACE " + traceDigest(tr))
}

func init() {
	Register(&Prop{
		ID:               "C15",
		Gen:              c15Gen,
		New:              func() interface{} { return &C15Case{} },
		Check:            c15Check,
		CrashIsViolation: false,
		Race:             true,
		CaseTimeout:      90 * time.Second,
		QuickN:           320,
		ThoroughN:        4000,
		Rule: "Documents of the C01 generator (pango engine) enriched with content touching every process-wide table or cache (hyphenation dictionaries for hu/en/fr with hyphens:auto, predefined and author counter styles, three fonts, SVG images, several ids and internal links per page, floats / absolutely positioned boxes). Histories: repeat (50%) - 1-3 documents rendered 5-9 times in a drawn interleaved order in one process, each with a fresh font configuration; process (10%) - the same document rendered twice in new processes (other map seeds, no earlier render); " +
			"redraw (10%) - one rendered Document written three times to new backends; concurrent (30%) - 2-6 documents rendered at once, one goroutine and one font configuration each, with drawn start offsets, against the same documents rendered one after the other. Oracle: the canonical serialisation of the full backend trace (every call, every argument, float32 bit patterns) must be identical; the worker is built with -race and GORACE=halt_on_error, so a data race on an executed access kills the worker and is reported with the racing functions as signature. " +
			"Non-trivial: some trace has >= 50 calls.",
		ImportantLabels: []string{"kind:repeat", "kind:concurrent", "kind:process", "kind:redraw", "hyphenation", "counter-style", "internal-links"},
		Assumptions:     []string{"goroutine interleavings are sampled (start jitter, 16 cores, race detector happens-before analysis on executed accesses), not enumerated", "documents that crash belong to C01 and are excluded"},
	})
}
