package props

import (
	"fmt"
	"math"
	"sort"
	"strings"

	bo "github.com/benoitkugler/webrender/html/boxes"
	"pgregory.net/rapid"

	"verif/harness/internal/wr"
)

// C11 — Lines are broken greedily and fit their container.
//
// Paragraphs in Ahem (every glyph, the space included, is 1em wide): widths are exact, so the lines a
// greedy breaker must produce, and the position of every word, are known.

type C11Item struct {
	Kind string `json:"k"` // w (word) ib (inline-block) open close
	Len  int    `json:"n,omitempty"`
	L    int    `json:"l,omitempty"`   // open: left margin+border+padding of the inline box; ib: side margin
	R    int    `json:"r,omitempty"`   // open: right margin+border+padding
	How  int    `json:"how,omitempty"` // open: which of margin / border / padding carry L and R
	P    int    `json:"p,omitempty"`   // ib: bottom padding (the box reaches below the strut of its line)
	// Sep: what follows the item: "" (a space before the next unit), "br", "nl" (newline character)
	Sep string `json:"sep,omitempty"`
}

type C11Case struct {
	Items      []C11Item `json:"items"`
	Width      int       `json:"width"`
	FontSize   int       `json:"fs"`
	LineHeight string    `json:"lh"`
	WhiteSpace string    `json:"ws"`
	Align      string    `json:"align"`
	Indent     int       `json:"indent"`
	Anywhere   bool      `json:"anywhere,omitempty"` // overflow-wrap:anywhere (or break-word: the same for line breaking)
	BreakWord  bool      `json:"break_word,omitempty"`
	BareSpans  bool      `json:"bare_spans,omitempty"` // simple paragraph whose words are wrapped in spans without decoration
	// SplitWords: inside such a span, a word is cut in two by "</span><span>": a joint between two inline boxes
	// where the text offers no break opportunity
	SplitWords bool   `json:"split_words,omitempty"`
	Engine     string `json:"engine"`
}

func c11Gen(t *rapid.T, tier Tier) interface{} {
	c := &C11Case{FontSize: rapid.SampledFrom([]int{10, 10, 10, 20}).Draw(t, "fs")}
	c.LineHeight = rapid.SampledFrom([]string{"1", "normal", "1.5", "25px", "2"}).Draw(t, "lh")
	c.WhiteSpace = rapid.SampledFrom([]string{"normal", "normal", "normal", "nowrap", "pre", "pre-wrap", "pre-line"}).Draw(t, "ws")
	c.Align = rapid.SampledFrom([]string{"left", "left", "right", "center", "justify", "start", "end"}).Draw(t, "align")
	c.Indent = rapid.SampledFrom([]int{0, 0, 0, 20, 50, -10}).Draw(t, "indent")
	c.Engine = rapid.SampledFrom([]string{"pango", "pango", "gotext"}).Draw(t, "engine")
	n := rapid.IntRange(1, 25).Draw(t, "nwords")
	depth := 0
	simple := rapid.IntRange(0, 4).Draw(t, "simple") < 2
	if simple && rapid.Bool().Draw(t, "anywhere") {
		c.Anywhere = true
		c.BreakWord = rapid.Bool().Draw(t, "breakword")
	}
	if simple {
		// spans without margin, border or padding change nothing to the lines
		c.BareSpans = rapid.IntRange(0, 2).Draw(t, "bare") == 0
		// (not with overflow-wrap:anywhere: a word cut by a joint is then not broken at or after the joint -
		// observed on the unchanged tree, see DESIGN.md 0.3)
		c.SplitWords = c.BareSpans && !c.Anywhere && rapid.Bool().Draw(t, "splitwords")
	}
	total := 0
	for i := 0; i < n; i++ {
		if !simple {
			switch rapid.IntRange(0, 11).Draw(t, "deco") {
			case 0, 1:
				if depth < 2 {
					it := C11Item{Kind: "open", L: rapid.SampledFrom([]int{0, 3, 5, 12}).Draw(t, "ol"), R: rapid.SampledFrom([]int{0, 3, 5, 12}).Draw(t, "or"), How: rapid.IntRange(0, 15).Draw(t, "how")}
					c.Items = append(c.Items, it)
					total += it.L + it.R
					depth++
				}
			case 2:
				it := C11Item{Kind: "ib", Len: rapid.IntRange(1, 4).Draw(t, "iblen"), L: rapid.SampledFrom([]int{0, 0, 4}).Draw(t, "ibm"), P: rapid.SampledFrom([]int{0, 0, 0, 6, 14}).Draw(t, "ibp")}
				c.Items = append(c.Items, it)
				total += (it.Len+1)*c.FontSize + 2*it.L
				continue
			}
		}
		if c.BareSpans && depth < 1 && rapid.IntRange(0, 2).Draw(t, "bareopen") == 0 { // (flat: nested inline boxes have listed findings of their own)
			c.Items = append(c.Items, C11Item{Kind: "open"})
			depth++
		}
		it := C11Item{Kind: "w", Len: rapid.SampledFrom([]int{1, 2, 2, 3, 3, 4, 5, 7, 12}).Draw(t, "wlen")}
		total += (it.Len + 1) * c.FontSize
		closes := 0
		for depth-closes > 0 && rapid.IntRange(0, 2).Draw(t, "close") == 0 {
			closes++
		}
		if depth-closes == 0 {
			switch rapid.IntRange(0, 11).Draw(t, "brk") {
			case 0:
				it.Sep = "br"
			case 1:
				it.Sep = "nl"
			}
		}
		if closes > 0 {
			sep := it.Sep
			it.Sep = "none"
			c.Items = append(c.Items, it)
			for ; closes > 0; closes-- {
				ci := C11Item{Kind: "close", Sep: "none"}
				if closes == 1 {
					ci.Sep = sep
				}
				c.Items = append(c.Items, ci)
				depth--
			}
		} else {
			c.Items = append(c.Items, it)
		}
	}
	for ; depth > 0; depth-- {
		c.Items = append(c.Items, C11Item{Kind: "close"})
	}
	// every multiple of 5 px from 0 to the width of the whole text + 20: "exactly fits" and "one step short" are reached
	c.Width = 5 * rapid.IntRange(0, (total+20)/5).Draw(t, "width")
	return c
}

type c11Unit struct {
	text   string // the word, or the inline-block's letters
	ib     bool
	left   float64 // decorations carried before / after the text
	right  float64
	w      float64 // text or box width (without decorations)
	forced bool    // a forced break follows
	padB   float64 // ib: bottom padding
}

func (u c11Unit) width() float64 { return u.left + u.w + u.right }

// c11Build returns the document and the expected units.
func c11Build(c *C11Case) (string, []c11Unit) {
	var b strings.Builder
	fs := float64(c.FontSize)
	fmt.Fprintf(&b, `<!DOCTYPE html><html><head><style>@page{size:9000px 100000px;margin:0} html,body{margin:0;padding:0;display:block} p{display:block;margin:0} span{display:inline}</style></head><body><p id="t" style="font:%dpx/%s Ahem;width:%dpx;white-space:%s;text-align:%s;text-indent:%dpx`, c.FontSize, c.LineHeight, c.Width, c.WhiteSpace, c.Align, c.Indent)
	if c.BreakWord {
		b.WriteString(";overflow-wrap:break-word")
	} else if c.Anywhere {
		b.WriteString(";overflow-wrap:anywhere")
	}
	b.WriteString(`">`)
	var units []c11Unit
	var rights []int // right decorations of the open inline boxes
	pendingLeft := 0.0
	sep := "" // separator to write before the next unit: "" at start, " ", "\n"
	wi := 0
	preserveNL := c.WhiteSpace == "pre" || c.WhiteSpace == "pre-wrap" || c.WhiteSpace == "pre-line"
	after := func(s string) {
		switch s {
		case "br":
			b.WriteString("<br>")
			units[len(units)-1].forced = true
			sep = ""
		case "nl":
			sep = "\n"
			if preserveNL {
				units[len(units)-1].forced = true
			}
		case "none":
		default:
			sep = " "
		}
	}
	for _, it := range c.Items {
		switch it.Kind {
		case "open":
			b.WriteString(sep)
			sep = ""
			side := func(name string, v, how int) string {
				switch how % 4 {
				case 0:
					return fmt.Sprintf("padding-%s:%dpx;", name, v)
				case 1:
					return fmt.Sprintf("margin-%s:%dpx;", name, v)
				case 2:
					return fmt.Sprintf("border-%s:%dpx solid;", name, v)
				default:
					return fmt.Sprintf("margin-%s:%dpx;border-%s:%dpx solid;padding-%s:%dpx;", name, v/3, name, v/3, name, v-2*(v/3))
				}
			}
			fmt.Fprintf(&b, `<span style="%s%s">`, side("left", it.L, it.How), side("right", it.R, it.How/4))
			pendingLeft += float64(it.L)
			rights = append(rights, it.R)
		case "close":
			b.WriteString("</span>")
			units[len(units)-1].right += float64(rights[len(rights)-1])
			rights = rights[:len(rights)-1]
			after(it.Sep)
		case "w":
			b.WriteString(sep)
			w := strings.Repeat(string(rune('a'+wi%26)), it.Len)
			wi++
			if c.SplitWords && len(rights) > 0 && it.Len >= 2 {
				b.WriteString(w[:it.Len/2] + "</span><span>" + w[it.Len/2:])
			} else {
				b.WriteString(w)
			}
			units = append(units, c11Unit{text: w, left: pendingLeft, w: fs * float64(it.Len)})
			pendingLeft = 0
			after(it.Sep)
		case "ib":
			b.WriteString(sep)
			w := strings.Repeat("I", it.Len)
			fmt.Fprintf(&b, `<span style="display:inline-block;width:%dpx;margin:0 %dpx;padding-bottom:%dpx;text-indent:0">%s</span>`, it.Len*c.FontSize, it.L, it.P, w)
			units = append(units, c11Unit{text: w, ib: true, left: pendingLeft, w: fs*float64(it.Len) + 2*float64(it.L), padB: float64(it.P)})
			pendingLeft = 0
			after(it.Sep)
		}
	}
	b.WriteString("</p></body></html>")
	return b.String(), units
}

type c11Line struct {
	units  []c11Unit
	forced bool // ends with a forced break (or is the last line)
	// chunk: the line is a piece of a word broken by overflow-wrap:anywhere
	chunk bool
}

// c11Break: the greedy reference breaker.
func c11Break(c *C11Case, units []c11Unit) []c11Line { return c11BreakHang(c, units, true) }

// c11BreakHang: hang tells whether the space a line is broken at may hang out of the available width
// (always so for collapsible spaces; for the preserved spaces of pre-wrap, CSS Text 3 says yes, CSS 2.1 is silent).
func c11BreakHang(c *C11Case, units []c11Unit, hang bool) []c11Line {
	fs := float64(c.FontSize)
	wrap := c.WhiteSpace == "normal" || c.WhiteSpace == "pre-wrap" || c.WhiteSpace == "pre-line"
	var lines []c11Line
	var cur c11Line
	curW := 0.0
	avail := func() float64 {
		a := float64(c.Width)
		if len(lines) == 0 {
			a -= float64(c.Indent)
		}
		return a
	}
	flush := func(forced bool) {
		cur.forced = forced
		lines = append(lines, cur)
		cur, curW = c11Line{}, 0
	}
	for _, u := range units {
		for {
			w := u.width()
			if len(cur.units) > 0 {
				w += fs // the space before it
			}
			need := curW + w
			if !hang && !u.forced {
				need += fs // the preserved space after the unit must fit too
			}
			if !wrap || len(cur.units) == 0 || need <= avail()+1e-6 {
				break
			}
			flush(false)
		}
		if wrap && c.Anywhere && !u.ib && len(cur.units) == 0 && u.width() > avail() {
			// the word alone is too wide: it may be broken anywhere, each line taking the letters that fit (at least one)
			rest := u.text
			for {
				k := int(math.Floor((avail() + 1e-6) / fs))
				if k < 1 {
					k = 1
				}
				if k >= len(rest) {
					break
				}
				cur.units = []c11Unit{{text: rest[:k], w: fs * float64(k)}}
				cur.chunk = true
				flush(false)
				rest = rest[k:]
			}
			u = c11Unit{text: rest, w: fs * float64(len(rest)), forced: u.forced}
			cur.chunk = true
		}
		if len(cur.units) > 0 {
			curW += fs
		}
		cur.units = append(cur.units, u)
		curW += u.width()
		if u.forced {
			flush(true)
		}
	}
	if len(cur.units) > 0 {
		flush(true)
	}
	if len(lines) > 0 {
		lines[len(lines)-1].forced = true
	}
	return lines
}

type c11GotUnit struct {
	text string
	x, w float64 // text start and width (Ahem: letters * font size), or the margin box of an inline-block
	ib   bool
}

type c11GotLine struct {
	y, h  float64
	units []c11GotUnit
	right float64 // right edge of the rightmost text box / inline-block of the line
}

func c11Check(ci interface{}) Verdict {
	c := ci.(*C11Case)
	html, units := c11Build(c)
	if len(units) == 0 {
		return Verdict{Excluded: "no-unit"}
	}
	r, err := wr.Render(html, wr.Opts{Engine: c.Engine, Zoom: 1})
	if err != nil {
		return Verdict{Excluded: "rejected"}
	}
	var para *bo.BoxFields
	for _, p := range r.Pages {
		wr.WalkBoxes(p, func(b bo.Box) bool {
			if el := b.Box().Element; el != nil && b.Box().PseudoType == "" && para == nil {
				for _, a := range el.Attr {
					if a.Key == "id" && a.Val == "t" {
						para = b.Box()
					}
				}
			}
			return para == nil
		})
	}
	if para == nil || len(r.Pages) != 1 {
		return Verdict{Excluded: "no-paragraph-box"}
	}
	fs := float64(c.FontSize)
	x0 := float64(para.ContentBoxX())
	var got []c11GotLine
	ibOutside := ""
	for _, ch := range para.Children {
		lb, ok := ch.(*bo.LineBox)
		if !ok {
			return Viol("structure", "the paragraph holds a %s next to its line boxes\n%s", ch.Type(), html)
		}
		gl := c11GotLine{y: float64(lb.PositionY), h: float64(lb.Height.V())}
		glued := false // the previous text box of the line ended inside a word
		var walk func(b bo.Box)
		walk = func(b bo.Box) {
			switch v := b.(type) {
			case *bo.TextBox:
				txt := v.TextS()
				if e := float64(v.PositionX) - x0 + float64(v.Width.V()); e > gl.right && strings.TrimSpace(txt) != "" {
					gl.right = e
				}
				// words of the run with their offsets (Ahem: one em per character)
				off := 0
				for k, f := range strings.Fields(txt) {
					i := strings.Index(txt[off:], f) + off
					if n := len(gl.units); k == 0 && i == 0 && glued && n > 0 && !gl.units[n-1].ib {
						// the word goes on from the previous text box (a joint between two inline boxes inside a word)
						gl.units[n-1].text += f
						gl.units[n-1].w += fs * float64(len(f))
					} else {
						gl.units = append(gl.units, c11GotUnit{text: f, x: float64(v.PositionX) - x0 + fs*float64(len([]rune(txt[:i]))), w: fs * float64(len(f))})
					}
					off = i + len(f)
				}
				if txt != "" {
					glued = !strings.ContainsAny(txt[len(txt)-1:], " \n\t")
				}
			case *bo.InlineBlockBox:
				glued = false
				t := ""
				wr.WalkBoxes(v, func(bb bo.Box) bool {
					if tb, ok := bb.(*bo.TextBox); ok {
						t += tb.TextS()
						// the lines of the inline-block lie inside it, wherever its line put it
						l, r := float64(tb.PositionX), float64(tb.PositionX)+float64(tb.Width.V())
						cl, cr := float64(v.ContentBoxX()), float64(v.ContentBoxX())+float64(v.Width.V())
						top, cTop, cBot := float64(tb.PositionY), float64(v.ContentBoxY()), float64(v.ContentBoxY())+float64(v.Height.V())
						if strings.TrimSpace(tb.TextS()) != "" && (l < cl-0.01 || r > cr+0.01 || top < cTop-0.01 || top > cBot+0.01) && ibOutside == "" {
							ibOutside = fmt.Sprintf("the text %q of an inline-block spans x=%g-%g, y=%g; the content box of the inline-block is x=%g-%g, y=%g-%g", tb.TextS(), l, r, top, cl, cr, cTop, cBot)
						}
					}
					return true
				})
				gl.units = append(gl.units, c11GotUnit{text: strings.TrimSpace(t), x: float64(v.PositionX) - x0, w: float64(v.MarginWidth()), ib: true})
				if e := float64(v.PositionX) - x0 + float64(v.MarginWidth()); e > gl.right {
					gl.right = e
				}
			default:
				for _, k := range b.Box().Children {
					walk(k)
				}
			}
		}
		for _, k := range lb.Children {
			walk(k)
		}
		got = append(got, gl)
	}
	if c.Anywhere && (float64(c.Width) < fs || float64(c.Width-c.Indent) < fs) {
		return Verdict{Excluded: "anywhere-narrower-than-a-glyph"}
	}
	if ibOutside != "" {
		return Viol("inline-block:content-outside:"+c.Align, "%s\n%s", ibOutside, html)
	}
	want := c11Break(c, units)
	if c.WhiteSpace == "pre-wrap" {
		// between two boxes the library makes the preserved space fit, inside one text run it lets it hang
		alt := c11BreakHang(c, units, false)
		same := len(alt) == len(want)
		for i := 0; same && i < len(alt); i++ {
			same = len(alt[i].units) == len(want[i].units)
		}
		if !same {
			return Verdict{Excluded: "pre-wrap-hanging-space-decides"}
		}
	}
	labels := map[string]bool{"engine:" + c.Engine: true, "ws:" + c.WhiteSpace: true, "align:" + c.Align: true}
	ctx := fmt.Sprintf("width %d, font-size %d, white-space %s, engine %s", c.Width, c.FontSize, c.WhiteSpace, c.Engine)
	lineText := func(us []string) string { return strings.Join(us, " ") }
	var wantT, gotT []string
	for _, l := range want {
		var ws []string
		for _, u := range l.units {
			ws = append(ws, u.text)
		}
		wantT = append(wantT, lineText(ws))
	}
	for _, l := range got {
		var ws []string
		for _, u := range l.units {
			ws = append(ws, u.text)
		}
		gotT = append(gotT, lineText(ws))
	}
	// drop phantom empty lines the library may keep (no unit, zero height)
	var gotLines []c11GotLine
	var gotTexts []string
	for i, l := range got {
		if len(l.units) == 0 && l.h == 0 {
			continue
		}
		gotLines = append(gotLines, l)
		gotTexts = append(gotTexts, gotT[i])
	}
	pctx := "plain"
	depthNow := 0
	for _, it := range c.Items {
		switch it.Kind {
		case "ib":
			if pctx == "plain" {
				pctx = "inline-blocks"
			}
			if depthNow > 0 {
				pctx = "nested-inline-boxes" // an atomic inline inside an inline box
			}
		case "open":
			if pctx != "nested-inline-boxes" {
				pctx = "inline-boxes"
			}
			if depthNow > 0 {
				pctx = "nested-inline-boxes"
			}
			depthNow++
		case "close":
			depthNow--
		}
	}
	labels["paragraph:"+pctx] = true
	kind := "greedy"
	if c.Anywhere {
		kind = "anywhere"
		labels["overflow-wrap:anywhere"] = true
	}
	if strings.Join(gotTexts, "\n") != strings.Join(wantT, "\n") {
		// classify: broke too early, too late (overflow), or at a forbidden place
		cls := "other"
		for i := 0; i < len(gotTexts) && i < len(wantT); i++ {
			if gotTexts[i] != wantT[i] {
				switch {
				case strings.HasPrefix(wantT[i], gotTexts[i]):
					cls = "breaks-too-early"
				case strings.HasPrefix(gotTexts[i], wantT[i]):
					cls = "breaks-too-late"
				}
				break
			}
		}
		return Viol(c.Engine+":"+pctx+":lines:"+kind+":"+cls+":"+c.WhiteSpace, "lines %q, a greedy breaker gives %q (%s)\n%s", gotTexts, wantT, ctx, html)
	}
	if len(want) >= 2 {
		labels["lines>=2"] = true
	}
	// geometry
	lh := fs
	switch c.LineHeight {
	case "1", "normal":
	case "1.5":
		lh = 1.5 * fs
	case "2":
		lh = 2 * fs
	case "25px":
		lh = 25
	}
	near := func(a, b float64) bool { return math.Abs(a-b) <= 0.02 }
	for i, l := range gotLines {
		wl := want[i]
		avail := float64(c.Width)
		indent := 0.0
		if i == 0 {
			indent = float64(c.Indent)
			avail -= indent
			if indent != 0 {
				labels["text-indent"] = true
			}
		}
		// content width
		content := 0.0
		for k, u := range wl.units {
			if k > 0 {
				content += fs
			}
			content += u.width()
		}
		if c.WhiteSpace == "pre-wrap" && !wl.forced && !wl.chunk {
			// the preserved space the line was broken at stays on the line; whether it hangs (CSS Text 3)
			// or takes room (CSS 2.1) is not settled by the property: positions are compared for left alignment only
			if c.Align != "left" && c.Align != "start" {
				continue
			}
		}
		if content > avail+1e-6 && len(wl.units) > 1 && (c.WhiteSpace == "normal" || c.WhiteSpace == "pre-wrap" || c.WhiteSpace == "pre-line") {
			panic("verif infra: reference line overflows with several units")
		}
		if near(content, avail) && len(wl.units) > 1 {
			labels["exact-fit"] = true
		}
		// an inline-block sits on the baseline: its bottom padding reaches below the strut and the line grows by it
		lhLine := lh
		for _, u := range wl.units {
			if lh+u.padB > lhLine {
				lhLine = lh + u.padB
				labels["line-taller-than-strut"] = true
			}
		}
		if !near(l.h, lhLine) {
			return Viol(c.Engine+":"+pctx+":"+"line-height:"+c.LineHeight, "line %d is %g px high, line-height %s at font-size %d (and the inline-blocks of the line) gives %g (%s)\n%s", i, l.h, c.LineHeight, c.FontSize, lhLine, ctx, html)
		}
		if i > 0 && !near(l.y, gotLines[i-1].y+gotLines[i-1].h) {
			return Viol(c.Engine+":"+pctx+":"+"line-stacking", "line %d starts at y=%g, line %d ends at %g (%s)\n%s", i, l.y, i-1, gotLines[i-1].y+gotLines[i-1].h, ctx, html)
		}
		align := c.Align
		if align == "start" {
			align = "left"
		}
		if align == "end" {
			align = "right"
		}
		justified := align == "justify" && !wl.forced && len(wl.units) > 1 && c.WhiteSpace != "pre" && c.WhiteSpace != "nowrap"
		if align == "justify" && !justified {
			align = "left"
		}
		start := indent
		switch align {
		case "right":
			start = indent + avail - content
		case "center":
			start = indent + (avail-content)/2
		}
		if content > avail && align != "left" {
			// overflowing line: CSS Text 3 7.1 (the end-aligned overflow is not pinned down by CSS 2.1); skip positions
			continue
		}
		if wl.chunk && align != "left" {
			continue
		}
		if justified {
			labels["justified-line"] = true
			first, last := l.units[0], l.units[len(l.units)-1]
			if !near(first.x-wl.units[0].left, indent) {
				return Viol(c.Engine+":"+pctx+":"+"justify:start", "justified line %d starts at x=%g, expected %g (%s)\n%s", i, first.x-wl.units[0].left, indent, ctx, html)
			}
			_ = last
			end := l.right + wl.units[len(wl.units)-1].right
			if !near(end, indent+avail) {
				return Viol(c.Engine+":"+pctx+":"+"justify:end", "justified line %d ends at x=%g, the available width ends at %g (%s)\n%s", i, end, indent+avail, ctx, html)
			}
			continue
		}
		x := start
		for k, u := range wl.units {
			if k > 0 {
				x += fs
			}
			gx := l.units[k].x
			wx := x + u.left
			if u.ib {
				wx = x + u.left
			}
			if !near(gx, wx) {
				return Viol(c.Engine+":"+pctx+":"+"position:"+align, "line %d: %q starts at x=%g, expected %g (text-align %s, text-indent %d; %s)\n%s", i, u.text, gx, wx, c.Align, c.Indent, ctx, html)
			}
			x += u.width()
		}
	}
	var ls []string
	for l := range labels {
		ls = append(ls, l)
	}
	sort.Strings(ls)
	return Verdict{NonTrivial: len(want) >= 2, Labels: ls}
}

func init() {
	Register(&Prop{
		ID:               "C11",
		Gen:              c11Gen,
		New:              func() interface{} { return &C11Case{} },
		Check:            c11Check,
		CrashIsViolation: false,
		QuickN:           30000,
		ThoroughN:        800000,
		Rule: "Paragraphs of 1-25 words of 1-12 letters in Ahem (10 or 20 px; every glyph and the space are 1 em wide), separated by spaces, newline characters or <br>; three in four with inline boxes nested up to 2 deep carrying left padding / right margin of 0-12 px and inline-blocks of 1-4 em with side margins; container width = every multiple of 5 px from 0 to the width of the whole text + 20 px (exact fits and one-step-short widths are reached); white-space normal/nowrap/pre/pre-wrap/pre-line, text-align left/right/center/justify/start/end, text-indent 0/20/50/-10 px, line-height 1/normal/1.5/2/25px, overflow-wrap:anywhere on plain paragraphs; pango (2/3) and go-text engines. " +
			"Oracle: a reference greedy breaker (break opportunities at spaces when white-space wraps, forced breaks at <br> and at preserved newlines, inline-box edges stick to the adjacent word, an inline-block is one unit, anywhere: a word alone too wide takes the letters that fit) gives the words of every line; compared exactly with the laid-out line boxes (too-early, too-late and forbidden breaks all differ). Geometry per line: height = line-height, lines stack without gap or overlap, every word starts at the x the alignment, indentation, decorations and 1-em spaces give (left/right/center), justified lines start at the indentation and end at the available width. " +
			"Inline-blocks carry a bottom padding of 0 / 6 / 14 px: a line holding one is line-height + that padding high. " +
			"In simple paragraphs with undecorated spans a word may be cut in two by a joint between two spans. " +
			"Non-trivial: at least two lines.",
		ImportantLabels: []string{"lines>=2", "exact-fit", "justified-line", "text-indent", "engine:gotext", "engine:pango", "ws:pre-wrap", "ws:pre-line", "ws:pre", "ws:nowrap", "align:center", "align:right", "overflow-wrap:anywhere"},
		Assumptions:     []string{"positions compared with tolerance 0.02 px", "positions on overflowing right/center-aligned lines are not compared"},
	})
}
