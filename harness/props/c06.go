package props

import (
	"fmt"
	"strconv"
	"strings"

	"github.com/benoitkugler/webrender/css/parser"
	"pgregory.net/rapid"

	"verif/harness/internal/gen"
	ref "verif/harness/internal/ref/csssyntax"
	"verif/harness/internal/tok"
)

// C06 — CSS text is tokenized and parsed as CSS Syntax Level 3 prescribes.

type C06Case struct {
	Src   string `json:"src"`
	Entry string `json:"entry"` // tokenize | stylesheet | rulelist | decllist | blocks | onedecl | onevalue | nth | color
	Skip  bool   `json:"skip_comments"`
	SkipW bool   `json:"skip_ws"`
	Gen   string `json:"gen"`
}

var c06Entries = []string{"tokenize", "tokenize", "tokenize", "stylesheet", "stylesheet", "rulelist", "decllist", "decllist", "blocks", "blocks", "onedecl", "onevalue", "nth"}

func c06Gen(t *rapid.T, tier Tier) interface{} {
	c := &C06Case{}
	c.Entry = rapid.SampledFrom(c06Entries).Draw(t, "entry")
	switch c.Entry {
	case "decllist", "blocks", "onedecl":
		switch rapid.IntRange(0, 3).Draw(t, "dsrc") {
		case 0:
			c.Src, c.Gen = gen.DeclarationList(t, true), "decls+error"
		case 1:
			c.Src, c.Gen = gen.CSSHostile(t, 10), "hostile"
		case 2:
			// nested rules inside a block
			var we = true
			c.Src, c.Gen = gen.DeclarationList(t, false)+";"+gen.Rule(t, 1, &we)+gen.DeclarationList(t, true), "decls+nested"
		default:
			c.Src, c.Gen = gen.CSSText(t)
		}
	case "nth":
		c.Src, c.Gen = c06NthGen(t), "an+b"
	default:
		c.Src, c.Gen = gen.CSSText(t)
	}
	c.Skip = rapid.Bool().Draw(t, "skip")
	c.SkipW = rapid.Bool().Draw(t, "skipw")
	return c
}

func c06Interesting(l []tok.Tok, depth int, labels map[string]bool) bool {
	nt := false
	for _, t := range l {
		labels["tok:"+t.Kind] = true
		switch t.Kind {
		case "string", "url", "error", "(", "[", "{", "function", "unicode-range":
			nt = true
		case "number", "percentage", "dimension":
			if strings.ContainsAny(t.Repr, "eE") {
				nt = true
			}
		}
		if t.Kind == "error" {
			labels[fmt.Sprintf("error:%s@depth%d", t.Value, depth)] = true
		}
		if t.Err {
			labels[fmt.Sprintf("eof-in-%s@depth%d", t.Kind, depth)] = true
		}
		if c06Interesting(t.Args, depth+1, labels) {
			nt = true
		}
	}
	return nt
}

// c06OnlyHugeIntDiffers reports whether the two lists differ only in the integer flag of
// numeric tokens whose representation is an integer literal that does not fit an int64.
func c06OnlyHugeIntDiffers(want, got []tok.Tok) bool {
	if len(want) != len(got) {
		return false
	}
	for i := range want {
		w, g := want[i], got[i]
		if w.Int != g.Int {
			if _, err := strconv.ParseInt(w.Repr, 10, 64); err == nil || strings.ContainsAny(w.Repr, ".eE") {
				return false
			}
			g.Int = w.Int
		}
		if tok.Diff([]tok.Tok{{Kind: w.Kind, Value: w.Value, Repr: w.Repr, Num: w.Num, Int: w.Int, Unit: w.Unit, IsID: w.IsID, Err: w.Err, Start: w.Start, End: w.End}},
			[]tok.Tok{{Kind: g.Kind, Value: g.Value, Repr: g.Repr, Num: g.Num, Int: g.Int, Unit: g.Unit, IsID: g.IsID, Err: g.Err, Start: g.Start, End: g.End}}, false) != "" {
			return false
		}
		if !c06OnlyHugeIntDiffers(w.Args, g.Args) {
			return false
		}
	}
	return true
}

func itemFromCompound(c parser.Compound) ref.Item {
	p := c.Pos()
	it := ref.Item{Line: p.Line, Col: p.Column}
	switch v := c.(type) {
	case parser.QualifiedRule:
		it.Kind = "qualified"
		it.Prelude = tok.FromParser(v.Prelude)
		it.Content = tok.FromParser(v.Content)
		it.HasContent = true
	case parser.AtRule:
		it.Kind = "at"
		it.Name = v.AtKeyword
		it.Prelude = tok.FromParser(v.Prelude)
		it.Content = tok.FromParser(v.Content)
		it.HasContent = v.Content != nil
	case parser.Declaration:
		it.Kind = "decl"
		it.Name = v.Name
		it.Value = tok.FromParser(v.Value)
		it.Important = v.Important
	case parser.ParseError:
		it.Kind = "error"
	case parser.Whitespace:
		it.Kind = "ws"
	case parser.Comment:
		it.Kind = "comment"
		it.Name = v.Value
	default:
		it.Kind = fmt.Sprintf("unknown:%T", c)
	}
	return it
}

func trimWS(l []tok.Tok) []tok.Tok {
	for len(l) > 0 && l[0].Kind == "whitespace" {
		l = l[1:]
	}
	for len(l) > 0 && l[len(l)-1].Kind == "whitespace" {
		l = l[:len(l)-1]
	}
	return l
}

func dropWS(l []ref.Item) []ref.Item {
	out := l[:0:0]
	for _, it := range l {
		if it.Kind != "ws" {
			out = append(out, it)
		}
	}
	return out
}

func diffItems(got, want []ref.Item) (string, string) {
	// top-level white space between constructs carries no meaning (and where it is reported
	// depends on where a construct is deemed to end); it is not compared
	got, want = dropWS(got), dropWS(want)
	n := len(got)
	if len(want) < n {
		n = len(want)
	}
	for i := 0; i < n; i++ {
		g, w := got[i], want[i]
		if g.Kind != w.Kind {
			return fmt.Sprintf("item %d: implementation produced %s, specification gives %s", i, g.Kind, w.Kind), "item:" + w.Kind + "->" + g.Kind
		}
		switch w.Kind {
		case "error", "ws":
			continue
		}
		if g.Name != w.Name {
			return fmt.Sprintf("item %d (%s): name %q vs %q", i, w.Kind, g.Name, w.Name), w.Kind + ".name"
		}
		if g.Line != w.Line || g.Col != w.Col {
			return fmt.Sprintf("item %d (%s %q): position %d:%d vs %d:%d", i, w.Kind, w.Name, g.Line, g.Col, w.Line, w.Col), w.Kind + ".pos"
		}
		if d := tok.Diff(g.Prelude, w.Prelude, true); d != "" {
			return fmt.Sprintf("item %d (%s) prelude: %s", i, w.Kind, d), w.Kind + ".prelude"
		}
		if g.HasContent != w.HasContent {
			return fmt.Sprintf("item %d (%s): has block %v vs %v", i, w.Kind, g.HasContent, w.HasContent), w.Kind + ".hasblock"
		}
		if d := tok.Diff(g.Content, w.Content, true); d != "" {
			return fmt.Sprintf("item %d (%s) content: %s", i, w.Kind, d), w.Kind + ".content"
		}
		if w.Kind == "decl" {
			if g.Important != w.Important {
				return fmt.Sprintf("item %d (declaration %q): important %v vs %v", i, w.Name, g.Important, w.Important), "decl.important"
			}
			if d := tok.Diff(trimWS(g.Value), trimWS(w.Value), true); d != "" {
				return fmt.Sprintf("item %d (declaration %q) value: %s", i, w.Name, d), "decl.value"
			}
		}
	}
	if len(got) != len(want) {
		return fmt.Sprintf("%d items vs %d expected", len(got), len(want)), "item-count"
	}
	return "", ""
}

func compounds(l []parser.Compound) []ref.Item {
	out := make([]ref.Item, 0, len(l))
	for _, c := range l {
		out = append(out, itemFromCompound(c))
	}
	return out
}

func c06Check(ci interface{}) Verdict {
	c := ci.(*C06Case)
	labels := map[string]bool{"entry:" + c.Entry: true, "gen:" + c.Gen: true}
	want := ref.Tokenize(c.Src, c.Skip)
	nt := c06Interesting(want, 0, labels)
	if strings.Contains(c.Src, "\\") {
		nt = true
		labels["has-escape"] = true
	}
	mk := func(v Verdict) Verdict {
		for l := range labels {
			v.Labels = append(v.Labels, l)
		}
		return v
	}
	got := tok.FromParser(parser.Tokenize([]byte(c.Src), c.Skip))
	if c.Entry == "tokenize" {
		if d := tok.Diff(got, want, false); d != "" {
			if cl := tok.Class(want, got); strings.HasSuffix(cl, ".int") && c06OnlyHugeIntDiffers(want, got) {
				return mk(Viol("tokenize:int-flag-of-literal-beyond-int64", "Tokenize(%q): %s", c.Src, d))
			}
			return mk(Viol("tokenize:"+tok.Class(want, got), "Tokenize(%q, skip=%v): %s\n impl: %s\n spec: %s", c.Src, c.Skip, d, tok.ListString(got), tok.ListString(want)))
		}
		if d := tok.Diff(got, want, true); d != "" {
			return mk(Viol("tokenize:position", "Tokenize(%q): %s", c.Src, d))
		}
		return mk(Verdict{NonTrivial: nt})
	}
	// the rule-level entries are judged on inputs whose tokens agree (token disagreements belong to the tokenize entry)
	if tok.Diff(got, want, true) != "" {
		return mk(Verdict{Excluded: "tokens-differ"})
	}
	var (
		res  ref.Result
		have []ref.Item
	)
	switch c.Entry {
	case "stylesheet":
		res = ref.RuleList(want, true, c.Skip, c.SkipW)
		have = compounds(parser.ParseStylesheetBytes([]byte(c.Src), c.Skip, c.SkipW))
	case "rulelist":
		res = ref.RuleList(want, false, c.Skip, c.SkipW)
		have = compounds(parser.ParseRuleList(parser.Tokenize([]byte(c.Src), c.Skip), c.Skip, c.SkipW))
	case "decllist":
		res = ref.DeclarationList(want, c.Skip, c.SkipW)
		have = compounds(parser.ParseDeclarationListString(c.Src, c.Skip, c.SkipW))
	case "blocks":
		res = ref.BlocksContents(want, c.SkipW)
		have = compounds(parser.ParseBlocksContents(parser.Tokenize([]byte(c.Src), c.Skip), c.SkipW))
	case "onedecl":
		it, amb := ref.OneDeclaration(want)
		res = ref.Result{Items: []ref.Item{it}, Ambiguous: amb}
		have = []ref.Item{itemFromCompound(parser.ParseOneDeclaration(parser.Tokenize([]byte(c.Src), c.Skip)))}
		if it.Kind == "error" {
			// position of the error is not compared
			have[0].Line, have[0].Col = it.Line, it.Col
		}
	case "nth":
		// (comments are no tokens: the callers of ParseNth hand it lists read without them)
		wantNC := ref.Tokenize(c.Src, true)
		a, b, ok := c06RefNth(wantNC)
		g := parser.ParseNth(parser.Tokenize([]byte(c.Src), true))
		if ok {
			labels["an+b:valid"] = true
		}
		switch {
		case ok && g == nil:
			return mk(Viol("nth:rejects", "ParseNth(%q) returned nil, the An+B grammar reads a=%d b=%d", c.Src, a, b))
		case !ok && g != nil:
			return mk(Viol("nth:accepts", "ParseNth(%q) returned %v, the text is no <an+b>", c.Src, *g))
		case ok && (g[0] != a || g[1] != b):
			return mk(Viol("nth:value", "ParseNth(%q) returned %v, the An+B grammar reads a=%d b=%d", c.Src, *g, a, b))
		}
		return mk(Verdict{NonTrivial: len(strings.TrimSpace(c.Src)) > 1})
	case "onevalue":
		v, ok := ref.OneComponentValue(want)
		g := parser.ParseOneComponentValue(parser.Tokenize([]byte(c.Src), c.Skip))
		gt := tok.From(g)
		if !ok {
			if gt.Kind != "error" {
				return mk(Viol("onevalue:accepts", "ParseOneComponentValue(%q) returned %s, the input does not hold exactly one value", c.Src, gt))
			}
			return mk(Verdict{NonTrivial: nt})
		}
		if d := tok.Diff([]tok.Tok{gt}, []tok.Tok{v}, false); d != "" {
			return mk(Viol("onevalue:value", "ParseOneComponentValue(%q): %s", c.Src, d))
		}
		return mk(Verdict{NonTrivial: nt})
	}
	if res.Ambiguous != "" {
		labels["ambiguous-spec"] = true
		return mk(Verdict{Excluded: "ambiguous-spec"})
	}
	for _, it := range res.Items {
		labels["item:"+it.Kind] = true
	}
	if msg, class := diffItems(have, res.Items); msg != "" {
		return mk(Viol(c.Entry+":"+class, "%s(%q, skipComments=%v): %s", c.Entry, c.Src, c.Skip, msg))
	}
	return mk(Verdict{NonTrivial: nt})
}

func init() {
	Register(&Prop{
		ID:               "C06",
		Gen:              c06Gen,
		New:              func() interface{} { return &C06Case{} },
		Check:            c06Check,
		CrashIsViolation: true,
		QuickN:           200000,
		ThoroughN:        3000000,
		Rule: "Cases: valid UTF-8 text from (i) concatenations of hostile fragments (delimiters, comment/url/string openers, escapes incl. EOF/newline/NUL/surrogate/out-of-range, numbers in every form, u+ ranges, CR/CRLF/FF/NUL, non-ASCII) and escaped token bodies, " +
			"(ii) grammar-generated style sheets / declaration lists / nested rules with one injected error followed by valid constructs, (iii) well-formed sheets with a fragment spliced in or truncated; fed to Tokenize (comments kept/skipped), ParseStylesheetBytes, ParseRuleList, ParseDeclarationListString, ParseBlocksContents, ParseOneDeclaration, ParseOneComponentValue. " +
			"Oracle: an independent code-point state-machine implementation of CSS Syntax 3 (preprocessing, tokenizer, component-value nesting, consume-a-list-of-rules/declarations, at-rule, qualified rule, declaration with !important, block contents) with tinycss2's three documented deviations (unicode-range token, match operators and || as single literals, <!-- --> literals); " +
			"compared on token type, unescaped value, numeric repr/value/integer flag, unit, hash id flag, string/url EOF flags, error-token kind, nesting, source position (line, byte column of the preprocessed text), and per rule/declaration: kind, name, prelude, content, value (outer white space trimmed), important, position. " +
			"Not judged (counted as excluded): rule-level entries when tokens already differ; declarations mixing a {} block with later values or several '!' (Level 3 2021 and the current draft differ). " +
			"Entry nth: 1-5 atoms (n, -n, n-, 2n, n-1, signs, integers with and without sign, odd / even, white space, comments, non-integers, an escaped n) concatenated; ParseNth must agree with a reference reading of the An+B micro-syntax (accept / refuse and both values). " +
			"Non-trivial: the text holds an escape, string, url, exponent number, block/function, unicode-range or an error token.",
		ImportantLabels: []string{"entry:nth", "entry:tokenize", "entry:stylesheet", "entry:blocks", "entry:decllist", "tok:error", "tok:url", "has-escape", "item:error", "item:qualified", "item:decl"},
		Assumptions: []string{"source positions are not defined by CSS Syntax; the convention the code documents is used (1-based line, column = 1 + bytes since the last newline of the preprocessed text)",
			"parse errors that tinycss2's design does not represent as tokens (EOF in comment/block, stray backslash) are not demanded"},
	})
}
