package props

import (
	"fmt"
	"net/url"
	"regexp"
	"sort"
	"strings"

	"github.com/benoitkugler/webrender/css/parser"
	pr "github.com/benoitkugler/webrender/css/properties"
	"github.com/benoitkugler/webrender/css/selector"
	"github.com/benoitkugler/webrender/css/validation"
	"github.com/benoitkugler/webrender/html/boxes"
	"github.com/benoitkugler/webrender/html/tree"
	"github.com/benoitkugler/webrender/utils"
	"golang.org/x/net/html"
	"pgregory.net/rapid"

	"verif/harness/internal/gen"
	"verif/harness/internal/wr"
)

// C07 — Parsers of document-supplied text never crash.

type C07Case struct {
	Entry string `json:"entry"`
	Src   string `json:"src"`
	Aux   string `json:"aux,omitempty"`
}

var c07PropNames []string

func init() {
	seen := map[string]bool{}
	for n := range pr.PropsFromNames {
		seen[n] = true
	}
	for _, n := range gen.CSSShorthands {
		seen[n] = true
	}
	for n := range seen {
		c07PropNames = append(c07PropNames, n)
	}
	sort.Strings(c07PropNames)
}

var c07Entries = []string{"css", "selector", "selector", "validate", "validate", "validate", "areas", "mutate", "mutate", "mutate", "computed", "descriptors", "descriptors", "page", "color", "nth", "media", "svg", "svg", "svg", "svgattr", "svglist", "url", "htmlattr", "htmlattr"}

var c07Pieces = regexp.MustCompile(`"[^"]*"|'[^']*'|[(),/]|[^\s(),/]+`)

// c07Mutate damages the value of a declaration "name:value" at the level of its components.
func c07Mutate(t *rapid.T, decl string) string {
	i := strings.Index(decl, ":")
	if i < 0 {
		return decl
	}
	name, value := decl[:i], decl[i+1:]
	ps := c07Pieces.FindAllString(value, -1)
	for k, n := 0, rapid.IntRange(1, 2).Draw(t, "nmut"); k < n && len(ps) > 0; k++ {
		at := rapid.IntRange(0, len(ps)-1).Draw(t, "at")
		switch rapid.IntRange(0, 5).Draw(t, "mut") {
		case 0: // cut after
			ps = ps[:at+1]
		case 1: // cut before
			ps = ps[:at]
		case 2: // drop
			ps = append(ps[:at:at], ps[at+1:]...)
		case 3: // double
			ps = append(ps[:at+1:at+1], ps[at:]...)
		case 4: // swap with the next
			if at+1 < len(ps) {
				ps[at], ps[at+1] = ps[at+1], ps[at]
			}
		default: // replace
			ps[at] = rapid.SampledFrom([]string{"/", ",", "(", ")", "0", "-1", "1e39", "auto", "none", "inherit", "\"\"", "var(--x)", "calc()", "url()", "!important", "{}", "#", "%"}).Draw(t, "repl")
		}
	}
	return name + ":" + strings.Join(ps, " ")
}

func c07Gen(t *rapid.T, tier Tier) interface{} {
	c := &C07Case{Entry: rapid.SampledFrom(c07Entries).Draw(t, "entry")}
	switch c.Entry {
	case "css":
		c.Src, _ = gen.CSSText(t)
	case "selector":
		if rapid.Bool().Draw(t, "hostilesel") {
			c.Src = gen.CSSHostile(t, 6)
		} else {
			c.Src = gen.SelectorText(t)
		}
	case "mutate":
		// a valid declaration, damaged: cut short, a component dropped, doubled, swapped or replaced
		c.Entry = "validate"
		d := gen.GenValidDecl(t)
		c.Aux = d.Name
		c.Src = c07Mutate(t, d.Text(nil, false))
	case "areas":
		c.Src = c07AreasGen(t)
	case "validate", "computed":
		name := rapid.SampledFrom(c07PropNames).Draw(t, "prop")
		if rapid.IntRange(0, 20).Draw(t, "custom") == 0 {
			name = rapid.SampledFrom([]string{"--x", "--y", "-weasy-foo", "unknown", "COLOR", "Margin"}).Draw(t, "oddname")
		}
		c.Aux = name
		c.Src = name + ":" + gen.ValueTokens(t, 6) + rapid.SampledFrom([]string{"", "", " !important"}).Draw(t, "imp")
		if c.Entry == "computed" {
			// custom property graph + a use
			n := rapid.IntRange(1, 4).Draw(t, "nvars")
			var parts []string
			for i := 0; i < n; i++ {
				parts = append(parts, fmt.Sprintf("--%s:%s", rapid.SampledFrom([]string{"x", "y", "z"}).Draw(t, "vn"),
					rapid.SampledFrom([]string{"var(--x)", "var(--y)", "var(--z)", "var(--x, var(--y))", "1px", "red", "var()", "var(x)", "var(--w,)", "var(--y) var(--z)", "{}", "", " "}).Draw(t, "vv")))
			}
			parts = append(parts, c.Src)
			c.Src = strings.Join(parts, ";")
		}
	case "descriptors":
		kind := rapid.SampledFrom([]string{"@font-face", "@counter-style foo", "@counter-style", "@counter-style decimal", "@counter-style \"x\""}).Draw(t, "dk")
		n := rapid.IntRange(0, 5).Draw(t, "ndesc")
		var parts []string
		for i := 0; i < n; i++ {
			name := rapid.SampledFrom([]string{"font-family", "src", "font-style", "font-weight", "font-stretch", "font-feature-settings", "font-variant", "unicode-range",
				"system", "symbols", "additive-symbols", "negative", "prefix", "suffix", "range", "pad", "fallback", "speak-as", "unknown"}).Draw(t, "dn")
			val := gen.ValueTokens(t, 5)
			if rapid.IntRange(0, 2).Draw(t, "curated") == 0 {
				val = rapid.SampledFrom([]string{"cyclic", "fixed", "fixed -3", "fixed 1e9", "symbolic", "alphabetic", "numeric", "additive", "extends decimal", "extends foo", "extends", "a b c", "\"a\" \"b\"", "0 \"z\", 2 \"a\"", "2 \"a\", 0 \"z\"", "5 x, 5 y", "-1 a",
					"auto", "infinite infinite", "infinite 3", "3 infinite", "5 2", "1 2, 3", "0 \"\"", "3 \"0\"", "-3 x", "1e9 a", "\"-\" \")\"", "\"(\" \")\" \"x\"", "url(x.png)", "local(foo), url(a.ttf) format(\"truetype\")", "U+26", "U+0-7F, U+??", "\"liga\" 1", "\"liga\" on, \"x\""}).Draw(t, "dv")
			}
			parts = append(parts, name+":"+val)
		}
		c.Src = kind + "{" + strings.Join(parts, ";") + "}"
	case "page":
		c.Src = "@page " + rapid.SampledFrom([]string{"", ":first", ":left", ":right", ":blank", "name", "name:first", ":nth(2)", ":nth(2n+1)", ":nth(2n+1 of a)", ":nth( of a)", ":nth(of)", ":nth()", ":nth(n of)", "a b", ":first:first", "a, b:left", ",", ":nth(1e9n)", ":foo", "1", "a:", ":nth(2n of a b)", ":nth(odd of -)"}).Draw(t, "psel") +
			rapid.SampledFrom([]string{"", " ", "/**/"}).Draw(t, "pws") + "{" + gen.DeclarationList(t, true) + ";@" + rapid.SampledFrom([]string{"top-left", "bottom-center", "foo", "top-left-corner", "footnote", ""}).Draw(t, "mb") + "{" + gen.Declaration(t) + "}}"
	case "color":
		if rapid.Bool().Draw(t, "hc") {
			c.Src = gen.CSSHostile(t, 4)
		} else {
			c.Src = rapid.SampledFrom([]string{"rgb", "rgba", "hsl", "hsla", "RGB", "#", "color", "hwb"}).Draw(t, "cf") + "(" + gen.ValueTokens(t, 6) + ")"
		}
	case "nth":
		if rapid.Bool().Draw(t, "hn") {
			c.Src = gen.CSSHostile(t, 5)
		} else {
			c.Src = rapid.SampledFrom([]string{"", "+", "-", " "}).Draw(t, "ns") + rapid.SampledFrom([]string{"n", "2n", "-n", "odd", "even", "3", "n-", "n -", "2n+", "2n +", "n- 1", "n -1", "n+1", "n-1", "-n-1", "2n- 1", "1n1", "n--1", "n+-1", "99999999999n", "n + 99999999999", "0n+0", "n1", "nn", "N", "-N+2", "2N"}).Draw(t, "nb") +
				rapid.SampledFrom([]string{"", " ", " of a", "+", "-", " + 1", " - 1", "+1", "-1", " + ", "- 999999999999999999999", " 1"}).Draw(t, "ne")
		}
	case "media":
		c.Src = "@media " + rapid.SampledFrom([]string{"print", "screen", "all", "not print", "only print", "print and (min-width:1px)", "(", "()", "print,", ",", ", ,", "print screen", "PRINT", "\"print\"", "1", "and", "not", "print and", "(a) and (b)", "not (", "a/**/b", "}"}).Draw(t, "mq") +
			rapid.SampledFrom([]string{"", ",screen", " , "}).Draw(t, "mq2") + "{a{color:red}}"
		if rapid.Bool().Draw(t, "imp") {
			c.Src = "@import " + rapid.SampledFrom([]string{"url(data:text/css,a%7Bb%3Ac%7D)", "\"data:text/css,\"", "url()", "\"\"", "x", "url(\"data:,\") print", "url(data:text/css,%40import%20url(x))"}).Draw(t, "iu") + " " +
				rapid.SampledFrom([]string{"", "print", "screen", "(", "a b", ","}).Draw(t, "im") + ";"
		}
	case "svg":
		c.Src = gen.SVGDocument(t, rapid.IntRange(0, 2).Draw(t, "h") > 0)
	case "svglist":
		// a list-valued SVG attribute with one malformed item: Src holds it at a drawn place, Aux at the end
		n := rapid.IntRange(2, 5).Draw(t, "nitems")
		var items []string
		for i := 0; i < n; i++ {
			items = append(items, rapid.SampledFrom([]string{"1", "2.5", "4", "10", "0.5em", "3px", "7"}).Draw(t, "item"))
		}
		bad := rapid.SampledFrom([]string{"bogus", "1x", "zero", "1furlong", "#", "e"}).Draw(t, "baditem")
		at := rapid.IntRange(0, n-1).Draw(t, "badat")
		withBad := func(p int) string {
			out := append(append(append([]string{}, items[:p]...), bad), items[p:]...)
			return strings.Join(out, " ")
		}
		c.Src, c.Aux = withBad(at), withBad(n)
	case "svgattr":
		c.Aux = rapid.SampledFrom([]string{"d", "points", "transform", "viewBox", "preserveAspectRatio", "stroke-dasharray", "style", "width", "font-size", "fill", "offset"}).Draw(t, "an")
		var v string
		switch c.Aux {
		case "d":
			v = gen.SVGPathData(t, true)
		case "transform":
			v = gen.SVGTransform(t, true)
		case "style":
			v = gen.DeclarationList(t, true)
		default:
			v = gen.CSSHostile(t, 4)
		}
		if rapid.IntRange(0, 3).Draw(t, "hv") == 0 {
			v = gen.CSSHostile(t, 5)
		}
		c.Src = v
	case "url":
		c.Src = rapid.SampledFrom([]string{"data:", "data:,", "data:;base64,", "data:text/plain;base64,", "data:text/plain;charset=", "data:image/png;base64,AAAA", "DATA:,x", "data:;;;,", "data:text/html;charset=utf-8;base64,", "http://", "file://", "file:///nonexistent", "//x", ":", "%", "a%zz", "data:,%", "data:,%f", "data:;base64,%%%", "data:;base64,====", "data:a/b;c=\"d,e\",f", "#", "?", ""}).Draw(t, "u") +
			rapid.SampledFrom([]string{"", "a", "%41", "%", "%zz", "%4G", "%g4", "abc%2zdef", "%a%41", "%C3%A9", "==", "\x00", "é", " ", ",", ";", "/../..", "\\"}).Draw(t, "us") + rapid.StringN(0, 4, -1).Draw(t, "ur")
	case "htmlattr":
		val := rapid.SampledFrom([]string{"", "0", "-1", "1", "2", "3", "1000", "99999999999999999999", "1e9", "١", " 2 ", "2x", "x", "+2", "-0", "2.5", "\x00", "65535", "1000000", "010", "0012", "0x3", "0b11", "0o7", "1_0", "3e0"}).Draw(t, "av")
		val2 := rapid.SampledFrom([]string{"", "0", "-1", "2", "99999999999", "x", "3"}).Draw(t, "av2")
		c.Aux = val + "|" + val2
		c.Src = rapid.SampledFrom([]string{
			"<table><tr><td colspan=%q rowspan=%q>a</td><td>b</td></tr><tr><td>c</td></tr></table>",
			"<table><colgroup span=%q><col span=%q></colgroup><tr><td>a</td></tr></table>",
			"<ol start=%q><li value=%q>a</li><li>b</li></ol>",
			"<ol reversed start=%q><li>a</li><li value=%q>b</li></ol>",
			"<font size=%q>a</font><hr size=%q>",
			"<input size=%q><textarea rows=%q cols=1>x</textarea>",
			"<textarea cols=%q rows=%q></textarea>",
			"<table border=%q cellspacing=%q cellpadding=1><tr><td width=5 height=x>a</td></tr></table>",
			"<img width=%q height=%q src=x><select size=3><option>a</select>",
			"<body text=%q bgcolor=%q><p align=x>a</p>",
			"<table cellpadding=%q><tr><th nowrap colspan=%q>a</th></tr></table>",
			"<td colspan=%q rowspan=%q>stray</td>",
		}).Draw(t, "tmpl")
		c.Src = fmt.Sprintf(c.Src, val, val2)
	}
	return c
}

var c07Tree = func() *html.Node {
	n, _ := html.Parse(strings.NewReader(`<html><body><div id=a class="b c" x="y z" lang=en-US><p>t</p><span></span><!-- c --><a href=x>l</a></div><ul><li>1<li>2<li>3</ul></body></html>`))
	return n
}()

func c07Check(ci interface{}) Verdict {
	c := ci.(*C07Case)
	labels := []string{"entry:" + c.Entry}
	nt := false
	switch c.Entry {
	case "css":
		for _, skip := range []bool{false, true} {
			toks := parser.Tokenize([]byte(c.Src), skip)
			_ = parser.Serialize(toks)
			parser.ParseStylesheet(toks, skip, false)
			parser.ParseRuleList(toks, skip, true)
			parser.ParseBlocksContents(toks, false)
			parser.ParseDeclarationList(toks, skip, false)
			parser.ParseOneDeclaration(toks)
			parser.ParseOneComponentValue(toks)
			parser.ParseNth(toks)
			nt = nt || len(toks) > 1
		}
		parser.ParseColorString(c.Src)
	case "selector":
		sel, err := selector.ParseGroup(c.Src)
		if err == nil {
			labels = append(labels, "accepted")
			nt = true
			_ = sel.String()
			for _, s := range sel {
				_ = s.Specificity()
				_ = s.PseudoElement()
				_ = s.String()
				selector.MatchAll(c07Tree, s)
			}
		} else {
			labels = append(labels, "rejected")
			nt = len(c.Src) > 2
		}
	case "areas":
		// the rows are the pieces between the quotes (an empty or blank string is a row without cells)
		var rows []string
		for i, p := range strings.Split(c.Src, `"`) {
			if i%2 == 1 {
				rows = append(rows, p)
			}
		}
		want := c07AreasValid(rows)
		out := validation.PreprocessDeclarations("http://base/", parser.ParseDeclarationListString("grid-template-areas:"+c.Src, true, true))
		got := len(out) > 0
		if want {
			labels = append(labels, "areas:valid")
		}
		if got != want {
			sig := "areas:accepts-malformed"
			if want {
				sig = "areas:rejects-valid"
			}
			return Verdict{Sig: sig, Msg: fmt.Sprintf("grid-template-areas:%s is accepted=%v, the rows %q make a valid value: %v", c.Src, got, rows, want), Labels: labels}
		}
		nt = len(rows) > 1 || len(rows[0]) > 2
	case "validate":
		decls := parser.ParseDeclarationListString(c.Src, true, true)
		out := validation.PreprocessDeclarations("http://base/", decls)
		if len(out) > 0 {
			labels = append(labels, "accepted")
		} else {
			labels = append(labels, "rejected")
		}
		labels = append(labels, "prop:"+c.Aux)
		nt = strings.Contains(c.Src, ":") && len(c.Src) > len(c.Aux)+2
	case "computed":
		src := `<html><body><div style="` + html.EscapeString(c.Src) + `"><p style="` + html.EscapeString(c.Src) + `">x</p></div></body></html>`
		h, err := wr.ParseHTML(src, wr.Opts{})
		if err != nil {
			return Verdict{Excluded: "html-rejected", Labels: labels}
		}
		// building the formatting structure reads every property of every element
		c07BuildBoxes(h)
		nt = true
	case "descriptors", "page", "media":
		_, err := tree.NewCSSDefault(utils.InputString(c.Src))
		if err != nil {
			labels = append(labels, "rejected")
		} else {
			labels = append(labels, "accepted")
		}
		nt = true
		if c.Entry == "descriptors" || c.Entry == "page" {
			// also through a document, so that the rules are used (page margin boxes, counter styles on a list)
			src := `<html><head><style>` + strings.ReplaceAll(c.Src, "</", "<\\/") + ` ol{list-style-type:foo}</style></head><body><ol><li>a<li>b</ol></body></html>`
			if h, err := wr.ParseHTML(src, wr.Opts{}); err == nil {
				c07BuildBoxes(h)
			}
		}
	case "color":
		col := parser.ParseColorString(c.Src)
		if !col.IsNone() {
			labels = append(labels, "accepted")
		}
		nt = len(c.Src) > 1
	case "nth":
		r := parser.ParseNth(parser.Tokenize([]byte(c.Src), true))
		if r != nil {
			labels = append(labels, "accepted")
		}
		nt = len(c.Src) > 1
		// and through the selector parser
		selector.ParseGroup(":nth-child(" + c.Src + ")")
		selector.ParseGroup("a:nth-last-of-type(" + c.Src + ")")
	case "svg", "svgattr":
		src := c.Src
		if c.Entry == "svgattr" {
			esc := strings.ReplaceAll(strings.ReplaceAll(strings.ReplaceAll(c.Src, "&", "&amp;"), "\"", "&quot;"), "<", "&lt;")
			el := "path"
			switch c.Aux {
			case "points":
				el = "polygon"
			case "viewBox", "preserveAspectRatio":
				el = "svg"
			case "offset":
				el = "stop"
			}
			src = `<svg xmlns="http://www.w3.org/2000/svg" width="100" height="100" viewBox="0 0 10 10"><defs><linearGradient id="g"><stop offset="0"/><` + el + ` ` + c.Aux + `="` + esc + `"/></linearGradient></defs><` + el + ` ` + c.Aux + `="` + esc + `" marker-mid="url(#m)" fill="url(#g)">x</` + el + `><rect ` + c.Aux + `="` + esc + `" width="5" height="5"/><text ` + c.Aux + `="` + esc + `">t</text></svg>`
		}
		img, err := wr.ParseSVG(src, "http://base/")
		if err != nil {
			labels = append(labels, "rejected")
			nt = len(src) > 20
		} else {
			labels = append(labels, "accepted")
			nt = true
			rec := wr.NewRecorder()
			page := rec.AddPage(0, 0, 100, 100)
			img.DisplayedSize()
			img.Draw(page, 100, 80, wr.NewTextCtx("pango"))
		}
	case "svglist":
		// bad input is signalled wherever it stands in the list: the verdict on the list with the malformed
		// item in the middle is the verdict on the same list with that item at the end
		for _, tmpl := range []string{
			`<svg xmlns="http://www.w3.org/2000/svg" width="100" height="100"><rect width="50" height="50" stroke="red" stroke-dasharray="%s"/></svg>`,
			`<svg xmlns="http://www.w3.org/2000/svg" width="100" height="100"><text x="%s">abc</text></svg>`,
			`<svg xmlns="http://www.w3.org/2000/svg" width="100" height="100"><text dy="%s">abc</text></svg>`,
		} {
			_, errMid := wr.ParseSVG(fmt.Sprintf(tmpl, c.Src), "http://base/")
			_, errEnd := wr.ParseSVG(fmt.Sprintf(tmpl, c.Aux), "http://base/")
			if (errMid == nil) != (errEnd == nil) {
				return Viol("svg:list:malformed-item-position", "%s: with the malformed item inside (%q) the error is %v, with the same item last (%q) it is %v", tmpl[strings.Index(tmpl, "><")+2:strings.Index(tmpl, "=\"%s")], c.Src, errMid, c.Aux, errEnd)
			}
		}
		labels = append(labels, "svglist")
		nt = true
	case "url":
		_, err := utils.DefaultUrlFetcher(c.Src)
		if err != nil {
			labels = append(labels, "rejected")
		} else {
			labels = append(labels, "accepted")
		}
		// a malformed percent escape in the payload of a plain data: URI is bad input: it is signalled
		// (reference for well-formedness: net/url)
		if low := strings.ToLower(c.Src); strings.HasPrefix(low, "data:") {
			if i := strings.Index(c.Src, ","); i >= 0 && !strings.Contains(low[:i], ";base64") && !strings.Contains(c.Src, "#") {
				// (the fetcher drops white space from the payload before decoding it)
				payload := strings.Map(func(r rune) rune {
					if r == ' ' || r == '\t' || r == '\n' || r == '\r' || r == '\f' || r == '\v' {
						return -1
					}
					return r
				}, c.Src[i+1:])
				_, refErr := url.PathUnescape(payload)
				labels = append(labels, "data-uri-payload")
				if refErr != nil && err == nil {
					return Viol("url:data:malformed-escape-accepted", "%q is fetched without error although its payload holds a malformed percent escape (%v)", c.Src, refErr)
				}
			}
		}
		utils.UrlJoin("http://base/a/b", c.Src, true, "ctx")
		utils.UrlJoin(c.Src, "x", false, "ctx")
		utils.SafeUrljoin(c.Src, c.Src, false)
		utils.Unquote(c.Src)
		nt = strings.Contains(c.Src, ",") || !strings.HasPrefix(strings.ToLower(c.Src), "data:")
	case "htmlattr":
		for _, hints := range []bool{false, true} {
			h, err := wr.ParseHTML("<html><body>"+c.Src+"</body></html>", wr.Opts{Hints: hints})
			if err != nil {
				return Verdict{Excluded: "html-rejected", Labels: labels}
			}
			root := c07BuildBoxesHints(h, hints)
			if strings.HasPrefix(c.Src, "<table><tr><td colspan=") {
				// the value read is the decimal integer the attribute spells (after trimming white space), clamped
				// to 1..1000; anything else is ignored (span 1)
				val := strings.SplitN(c.Aux, "|", 2)[0]
				var first *boxes.TableCellBox
				wr.WalkBoxes(root, func(b boxes.Box) bool {
					if cell, ok := b.(*boxes.TableCellBox); ok && first == nil {
						first = cell
					}
					return first == nil
				})
				if first != nil {
					labels = append(labels, "colspan-read")
					if want := c09SpanAttr(val, 1, 1000); first.Colspan != want {
						return Verdict{Sig: "htmlattr:colspan-value", Msg: fmt.Sprintf("colspan=%q is read as %d, the attribute spells %d (decimal digits only; other spellings are ignored)", val, first.Colspan, want), Labels: labels}
					}
				}
			}
		}
		nt = true
	}
	return Verdict{NonTrivial: nt, Labels: labels}
}

func c07BuildBoxes(h *tree.HTML) boxes.Box { return c07BuildBoxesHints(h, false) }

func c07BuildBoxesHints(h *tree.HTML, hints bool) boxes.Box {
	return wr.BuildBoxes(h, nil, hints, wr.SharedFC("pango"))
}

func init() {
	Register(&Prop{
		ID:               "C07",
		Gen:              c07Gen,
		New:              func() interface{} { return &C07Case{} },
		Check:            c07Check,
		CrashIsViolation: true,
		QuickN:           120000,
		ThoroughN:        2500000,
		Rule: "One sub-check per parsing entry point, each with a generator that gets past input validation: css (hostile CSS text into Tokenize/Serialize/ParseStylesheet/RuleList/BlocksContents/DeclarationList/OneDeclaration/OneComponentValue/ParseNth/ParseColorString), " +
			"selector (generated and hostile selector text into ParseGroup, then String/Specificity/PseudoElement/MatchAll), validate (every known property and shorthand name x 0-6 value tokens from a value grammar: keywords of the validators, numbers incl. 0/negative/huge, every unit, strings, urls, hashes, separators, 50 functions with nested/empty arguments, blocks) into PreprocessDeclarations, " +
			"computed (custom-property graphs incl. cycles and malformed var() + such a declaration, read through a full box build), descriptors (@font-face/@counter-style rules through NewCSSDefault and a box build using the style), page (@page selectors incl. :nth(... of ...) + margin boxes), color, nth, media (@media/@import queries), " +
			"svg (generated SVG documents with hostile attribute values, defs graphs with cycles; Parse then Draw on a recording canvas), svgattr (one hostile attribute on path/polygon/svg/stop/rect/text), url (data: URIs and joins), htmlattr (colspan/rowspan/span/start/value/size/rows/cols/width/border/cellspacing... with empty, 0, negative, huge, non-ASCII, junk values; box build with hints off and on). " +
			"Entry areas: 1-3 strings built from dots, names and spaces as value of grid-template-areas; accepted exactly when a reference reading finds equal non-empty rows and one filled rectangle per name. " +
			"htmlattr: the colspan read from a cell equals the decimal reading of the attribute (010, 0x3, 1_0 ... included). " +
			"Oracle: the call returns (value, error or ignored) within the watchdog; a panic, process death (stack exhaustion) or non-termination is a violation identified by its site; error returns are not violations. Non-trivial: the input was not rejected at the first token (per entry: >1 token, known property with a value, attribute reached its parser, data URI with a comma).",
		ImportantLabels: []string{"entry:areas", "entry:css", "entry:selector", "entry:validate", "entry:computed", "entry:descriptors", "entry:page", "entry:svg", "entry:svgattr", "entry:url", "entry:htmlattr", "accepted", "rejected"},
		Assumptions:     []string{"a 20 s silence of one call is classed as non-termination (typical calls take microseconds)"},
	})
}
