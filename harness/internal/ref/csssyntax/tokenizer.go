// Package csssyntax is an independent reference implementation of the CSS
// Syntax Module Level 3 tokenizer (section 4) and component-value nesting
// (section 5.4.7/5.4.8), written as a code-point state machine from the
// specification text. It is the oracle of property C06.
//
// The implementation under test documents itself as a tinycss2 port; three
// deliberate, documented deviations of tinycss2 from the current spec are
// reproduced (and nothing else):
//  1. the Level-3-2014 <unicode-range> token is kept;
//  2. the match operators ~= |= ^= $= *= and the column token || are single literals;
//  3. <!-- and --> are exposed as literals; every other delim is a one-code-point literal.
//
// Error reporting follows tinycss2's design: bad-string, bad-url, eof-in-string,
// eof-in-url and unmatched ) ] } are tokens of kind "error"; other spec parse
// errors (EOF in comment/block, invalid escape delim) produce no token.
package csssyntax

import (
	"strconv"
	"strings"
	"unicode/utf8"

	"verif/harness/internal/tok"
)

// Preprocess implements section 3.3 (on already decoded, valid UTF-8 text).
func Preprocess(s string) string {
	var b strings.Builder
	b.Grow(len(s))
	for i := 0; i < len(s); {
		c := s[i]
		switch {
		case c == '\r':
			b.WriteByte('\n')
			if i+1 < len(s) && s[i+1] == '\n' {
				i++
			}
			i++
		case c == '\f':
			b.WriteByte('\n')
			i++
		case c == 0:
			b.WriteString("�")
			i++
		default:
			b.WriteByte(c)
			i++
		}
	}
	return b.String()
}

type tz struct {
	r    []rune
	off  []int // byte offset of each rune in the preprocessed text (len = len(r)+1)
	i    int
	keep bool // keep comments
	// line starts (byte offsets just after each newline), for positions
	src string
}

const eof = rune(-1)

func (z *tz) at(k int) rune {
	if z.i+k < len(z.r) {
		return z.r[z.i+k]
	}
	return eof
}

func isDigit(c rune) bool { return c >= '0' && c <= '9' }
func isHex(c rune) bool {
	return isDigit(c) || c >= 'a' && c <= 'f' || c >= 'A' && c <= 'F'
}
func isNameStart(c rune) bool {
	return c >= 'a' && c <= 'z' || c >= 'A' && c <= 'Z' || c == '_' || c >= 0x80
}
func isName(c rune) bool    { return isNameStart(c) || isDigit(c) || c == '-' }
func isWS(c rune) bool      { return c == ' ' || c == '\t' || c == '\n' }
func isNewline(c rune) bool { return c == '\n' }
func isNonPrintable(c rune) bool {
	return c >= 0 && c <= 8 || c == 0xb || c >= 0xe && c <= 0x1f || c == 0x7f
}

func validEscape(a, b rune) bool { return a == '\\' && !isNewline(b) }

func startsIdent(a, b, c rune) bool {
	switch {
	case a == '-':
		return isNameStart(b) || b == '-' || validEscape(b, c)
	case isNameStart(a):
		return true
	case a == '\\':
		return validEscape(a, b)
	}
	return false
}

func startsNumber(a, b, c rune) bool {
	switch {
	case a == '+' || a == '-':
		if isDigit(b) {
			return true
		}
		return b == '.' && isDigit(c)
	case a == '.':
		return isDigit(b)
	}
	return isDigit(a)
}

// consumeEscape: the backslash has been consumed.
func (z *tz) consumeEscape() rune {
	c := z.at(0)
	if c == eof {
		return 0xFFFD
	}
	if isHex(c) {
		v := 0
		n := 0
		for n < 6 && isHex(z.at(0)) {
			d, _ := strconv.ParseInt(string(z.at(0)), 16, 32)
			v = v*16 + int(d)
			z.i++
			n++
		}
		if isWS(z.at(0)) {
			z.i++
		}
		if v == 0 || v >= 0xD800 && v <= 0xDFFF || v > 0x10FFFF {
			return 0xFFFD
		}
		return rune(v)
	}
	z.i++
	return c
}

func (z *tz) consumeName() string {
	var b strings.Builder
	for {
		c := z.at(0)
		if c != eof && isName(c) {
			b.WriteRune(c)
			z.i++
		} else if validEscape(c, z.at(1)) {
			z.i++
			b.WriteRune(z.consumeEscape())
		} else {
			return b.String()
		}
	}
}

func (z *tz) consumeNumber() (repr string, isInt bool) {
	start := z.i
	isInt = true
	if c := z.at(0); c == '+' || c == '-' {
		z.i++
	}
	for isDigit(z.at(0)) {
		z.i++
	}
	if z.at(0) == '.' && isDigit(z.at(1)) {
		z.i += 2
		isInt = false
		for isDigit(z.at(0)) {
			z.i++
		}
	}
	if c := z.at(0); c == 'e' || c == 'E' {
		if isDigit(z.at(1)) {
			z.i += 2
			isInt = false
			for isDigit(z.at(0)) {
				z.i++
			}
		} else if (z.at(1) == '+' || z.at(1) == '-') && isDigit(z.at(2)) {
			z.i += 3
			isInt = false
			for isDigit(z.at(0)) {
				z.i++
			}
		}
	}
	return string(z.r[start:z.i]), isInt
}

func numValue(repr string) float32 {
	f, _ := strconv.ParseFloat(repr, 32)
	if f == 0 {
		return 0
	}
	return float32(f)
}

func (z *tz) pos(i int) (line, col int) {
	b := z.off[i]
	line = 1 + strings.Count(z.src[:b], "\n")
	last := strings.LastIndexByte(z.src[:b], '\n')
	col = b - last // last = -1 when on the first line => col = b+1
	return
}

// consumeString: the opening quote has been consumed. Returns tokens (string and/or error).
func (z *tz) consumeString(quote rune, line, col int) []tok.Tok {
	var b strings.Builder
	for {
		c := z.at(0)
		switch {
		case c == quote:
			z.i++
			return []tok.Tok{{Kind: "string", Value: b.String(), Line: line, Col: col}}
		case c == eof:
			return []tok.Tok{{Kind: "string", Value: b.String(), Err: true, Line: line, Col: col}, {Kind: "error", Value: "s", Line: line, Col: col}}
		case isNewline(c):
			// bad-string; the newline is not consumed
			return []tok.Tok{{Kind: "error", Value: "b", Line: line, Col: col}}
		case c == '\\':
			n := z.at(1)
			if n == eof {
				z.i++
			} else if isNewline(n) {
				z.i += 2
			} else {
				z.i++
				b.WriteRune(z.consumeEscape())
			}
		default:
			b.WriteRune(c)
			z.i++
		}
	}
}

// consumeURL: "url(" has been consumed and what follows (after white space) is not a quote.
func (z *tz) consumeURL(line, col int) []tok.Tok {
	for isWS(z.at(0)) {
		z.i++
	}
	var b strings.Builder
	eofTok := func() []tok.Tok {
		return []tok.Tok{{Kind: "url", Value: b.String(), Err: true, Line: line, Col: col}, {Kind: "error", Value: "e", Line: line, Col: col}}
	}
	for {
		c := z.at(0)
		switch {
		case c == ')':
			z.i++
			return []tok.Tok{{Kind: "url", Value: b.String(), Line: line, Col: col}}
		case c == eof:
			return eofTok()
		case isWS(c):
			for isWS(z.at(0)) {
				z.i++
			}
			if z.at(0) == ')' {
				z.i++
				return []tok.Tok{{Kind: "url", Value: b.String(), Line: line, Col: col}}
			}
			if z.at(0) == eof {
				return eofTok()
			}
			z.badURLRemnants()
			return []tok.Tok{{Kind: "error", Value: "u", Line: line, Col: col}}
		case c == '"' || c == '\'' || c == '(' || isNonPrintable(c):
			z.i++
			z.badURLRemnants()
			return []tok.Tok{{Kind: "error", Value: "u", Line: line, Col: col}}
		case c == '\\':
			if validEscape(c, z.at(1)) {
				z.i++
				b.WriteRune(z.consumeEscape())
			} else {
				z.i++
				z.badURLRemnants()
				return []tok.Tok{{Kind: "error", Value: "u", Line: line, Col: col}}
			}
		default:
			b.WriteRune(c)
			z.i++
		}
	}
}

func (z *tz) badURLRemnants() {
	for {
		c := z.at(0)
		switch {
		case c == ')':
			z.i++
			return
		case c == eof:
			return
		case validEscape(c, z.at(1)):
			z.i++
			z.consumeEscape()
		default:
			z.i++
		}
	}
}

// consumeUnicodeRange: "u+" has been consumed (CSS Syntax 2014, section 4.3.6 of that draft).
func (z *tz) consumeUnicodeRange() (start, end uint32) {
	var hex strings.Builder
	n := 0
	for n < 6 && isHex(z.at(0)) {
		hex.WriteRune(z.at(0))
		z.i++
		n++
	}
	q := 0
	for n < 6 && z.at(0) == '?' {
		z.i++
		n++
		q++
	}
	if q > 0 {
		s, _ := strconv.ParseUint(hex.String()+strings.Repeat("0", q), 16, 32)
		e, _ := strconv.ParseUint(hex.String()+strings.Repeat("F", q), 16, 32)
		return uint32(s), uint32(e)
	}
	s, _ := strconv.ParseUint(hex.String(), 16, 32)
	if z.at(0) == '-' && isHex(z.at(1)) {
		z.i++
		var h2 strings.Builder
		m := 0
		for m < 6 && isHex(z.at(0)) {
			h2.WriteRune(z.at(0))
			z.i++
			m++
		}
		e, _ := strconv.ParseUint(h2.String(), 16, 32)
		return uint32(s), uint32(e)
	}
	return uint32(s), uint32(s)
}

// consumeList consumes component values until the ending code point (0 = top level).
func (z *tz) consumeList(end rune) []tok.Tok {
	var out []tok.Tok
	for {
		c := z.at(0)
		if c == eof {
			return out
		}
		line, col := z.pos(z.i)
		lit := func(v string) {
			out = append(out, tok.Tok{Kind: "literal", Value: v, Line: line, Col: col})
		}
		switch {
		case c == '/' && z.at(1) == '*':
			z.i += 2
			st := z.i
			for !(z.at(0) == eof || z.at(0) == '*' && z.at(1) == '/') {
				z.i++
			}
			body := string(z.r[st:z.i])
			if z.at(0) != eof {
				z.i += 2
			}
			if z.keep {
				out = append(out, tok.Tok{Kind: "comment", Value: body, Line: line, Col: col})
			}
		case isWS(c):
			st := z.i
			for isWS(z.at(0)) {
				z.i++
			}
			out = append(out, tok.Tok{Kind: "whitespace", Value: string(z.r[st:z.i]), Line: line, Col: col})
		case c == '"' || c == '\'':
			z.i++
			out = append(out, z.consumeString(c, line, col)...)
		case c == '#':
			if z.at(1) != eof && isName(z.at(1)) || validEscape(z.at(1), z.at(2)) {
				z.i++
				id := startsIdent(z.at(0), z.at(1), z.at(2))
				out = append(out, tok.Tok{Kind: "hash", Value: z.consumeName(), IsID: id, Line: line, Col: col})
			} else {
				z.i++
				lit("#")
			}
		case c == '(' || c == '[' || c == '{':
			z.i++
			closer := map[rune]rune{'(': ')', '[': ']', '{': '}'}[c]
			args := z.consumeList(closer)
			out = append(out, tok.Tok{Kind: string(c), Args: args, Line: line, Col: col})
		case c == ')' || c == ']' || c == '}':
			z.i++
			if c == end {
				return out
			}
			out = append(out, tok.Tok{Kind: "error", Value: string(c), Line: line, Col: col})
		case (c == '+' || c == '.') && startsNumber(c, z.at(1), z.at(2)), isDigit(c):
			out = append(out, z.numeric(line, col))
		case c == '-':
			switch {
			case startsNumber(c, z.at(1), z.at(2)):
				out = append(out, z.numeric(line, col))
			case z.at(1) == '-' && z.at(2) == '>':
				z.i += 3
				lit("-->")
			case startsIdent(c, z.at(1), z.at(2)):
				out = append(out, z.identLike(line, col)...)
			default:
				z.i++
				lit("-")
			}
		case c == '<':
			if z.at(1) == '!' && z.at(2) == '-' && z.at(3) == '-' {
				z.i += 4
				lit("<!--")
			} else {
				z.i++
				lit("<")
			}
		case c == '@':
			if startsIdent(z.at(1), z.at(2), z.at(3)) {
				z.i++
				out = append(out, tok.Tok{Kind: "at-keyword", Value: z.consumeName(), Line: line, Col: col})
			} else {
				z.i++
				lit("@")
			}
		case c == '\\':
			if validEscape(c, z.at(1)) {
				out = append(out, z.identLike(line, col)...)
			} else {
				z.i++
				lit("\\")
			}
		case (c == 'u' || c == 'U') && z.at(1) == '+' && (isHex(z.at(2)) || z.at(2) == '?'):
			z.i += 2
			s, e := z.consumeUnicodeRange()
			out = append(out, tok.Tok{Kind: "unicode-range", Start: s, End: e, Line: line, Col: col})
		case isNameStart(c):
			out = append(out, z.identLike(line, col)...)
		case (c == '~' || c == '|' || c == '^' || c == '$' || c == '*') && z.at(1) == '=':
			z.i += 2
			lit(string(c) + "=")
		case c == '|' && z.at(1) == '|':
			z.i += 2
			lit("||")
		default:
			z.i++
			lit(string(c))
		}
	}
}

func (z *tz) numeric(line, col int) tok.Tok {
	repr, isInt := z.consumeNumber()
	t := tok.Tok{Repr: repr, Num: numValue(repr), Int: isInt, Line: line, Col: col}
	switch {
	case startsIdent(z.at(0), z.at(1), z.at(2)):
		t.Kind = "dimension"
		t.Unit = z.consumeName()
	case z.at(0) == '%':
		z.i++
		t.Kind = "percentage"
	default:
		t.Kind = "number"
	}
	return t
}

func (z *tz) identLike(line, col int) []tok.Tok {
	name := z.consumeName()
	if z.at(0) != '(' {
		return []tok.Tok{{Kind: "ident", Value: name, Line: line, Col: col}}
	}
	z.i++
	if strings.EqualFold(name, "url") {
		// look past white space for a quote
		k := 0
		for isWS(z.at(k)) {
			k++
		}
		if q := z.at(k); q != '"' && q != '\'' {
			return z.consumeURL(line, col)
		}
	}
	args := z.consumeList(')')
	return []tok.Tok{{Kind: "function", Value: name, Args: args, Line: line, Col: col}}
}

// Tokenize returns the nested component values of the text.
func Tokenize(css string, skipComments bool) []tok.Tok {
	src := Preprocess(css)
	z := &tz{src: src, keep: !skipComments}
	z.r = make([]rune, 0, len(src))
	z.off = make([]int, 0, len(src)+1)
	for i := 0; i < len(src); {
		r, w := utf8.DecodeRuneInString(src[i:])
		z.r = append(z.r, r)
		z.off = append(z.off, i)
		i += w
	}
	z.off = append(z.off, len(src))
	return z.consumeList(0)
}
