package csssyntax

import (
	"strings"

	"verif/harness/internal/tok"
)

// Item is a neutral rule / declaration / error produced by the rule-level algorithms
// of CSS Syntax 3 section 5.4, operating on already nested component values.
type Item struct {
	Kind       string    `json:"k"` // qualified, at, decl, error, ws, comment
	Name       string    `json:"n,omitempty"`
	Prelude    []tok.Tok `json:"p,omitempty"`
	Content    []tok.Tok `json:"c,omitempty"`
	HasContent bool      `json:"hc,omitempty"`
	Value      []tok.Tok `json:"v,omitempty"`
	Important  bool      `json:"imp,omitempty"`
	Line, Col  int
}

type Result struct {
	Items     []Item
	Ambiguous string // non-empty: the input reaches a corner on which Level 3 (2021) and the current draft differ; not judged
}

func isLit(t tok.Tok, v string) bool { return t.Kind == "literal" && t.Value == v }

type iter struct {
	l []tok.Tok
	i int
}

func (it *iter) has() bool     { return it.i < len(it.l) }
func (it *iter) next() tok.Tok { t := it.l[it.i]; it.i++; return t }
func (it *iter) peek() tok.Tok { return it.l[it.i] }

func consumeAtRule(at tok.Tok, it *iter) Item {
	r := Item{Kind: "at", Name: at.Value, Line: at.Line, Col: at.Col}
	for it.has() {
		t := it.next()
		if t.Kind == "{" {
			r.Content = t.Args
			r.HasContent = true
			break
		}
		if isLit(t, ";") {
			break
		}
		r.Prelude = append(r.Prelude, t)
	}
	return r
}

// consumeQualifiedRule: first has been taken from it already.
func consumeQualifiedRule(first tok.Tok, it *iter, stopAtSemicolon bool) Item {
	if stopAtSemicolon && isLit(first, ";") {
		return Item{Kind: "error", Line: first.Line, Col: first.Col}
	}
	if first.Kind == "{" {
		return Item{Kind: "qualified", Content: first.Args, HasContent: true, Line: first.Line, Col: first.Col}
	}
	r := Item{Kind: "qualified", Prelude: []tok.Tok{first}, Line: first.Line, Col: first.Col}
	for it.has() {
		t := it.next()
		if stopAtSemicolon && isLit(t, ";") {
			return Item{Kind: "error", Line: t.Line, Col: t.Col}
		}
		if t.Kind == "{" {
			r.Content = t.Args
			r.HasContent = true
			return r
		}
		r.Prelude = append(r.Prelude, t)
	}
	last := r.Prelude[len(r.Prelude)-1]
	return Item{Kind: "error", Line: last.Line, Col: last.Col}
}

func consumeRule(first tok.Tok, it *iter) Item {
	if first.Kind == "at-keyword" {
		return consumeAtRule(first, it)
	}
	return consumeQualifiedRule(first, it, false)
}

// RuleList implements "consume a list of rules" (top-level flag selects the style-sheet variant).
func RuleList(l []tok.Tok, topLevel, skipComments, skipWS bool) Result {
	it := &iter{l: l}
	var out []Item
	for it.has() {
		t := it.next()
		switch {
		case t.Kind == "whitespace":
			if !skipWS {
				out = append(out, Item{Kind: "ws", Line: t.Line, Col: t.Col})
			}
		case t.Kind == "comment":
			if !skipComments {
				out = append(out, Item{Kind: "comment", Name: t.Value, Line: t.Line, Col: t.Col})
			}
		case topLevel && (isLit(t, "<!--") || isLit(t, "-->")):
		default:
			out = append(out, consumeRule(t, it))
		}
	}
	return Result{Items: out}
}

// parseDeclaration: first is the first significant token; rest are the remaining tokens of the declaration.
// ambiguous is set when the declaration's value holds a top-level {} block next to other values.
type declInfo struct {
	amb           string
	blocks        int
	others        int
	blockThenMore bool // a top-level {} block is followed by further significant values
}

func parseDeclaration(first tok.Tok, rest []tok.Tok) (Item, string) {
	d, info := parseDeclarationInfo(first, rest)
	if info.amb == "" && info.blocks > 0 && info.blocks+info.others > 1 {
		info.amb = "declaration value mixes a {} block with other values"
	}
	return d, info.amb
}

func parseDeclarationInfo(first tok.Tok, rest []tok.Tok) (Item, declInfo) {
	d, amb, info := parseDeclarationRaw(first, rest)
	info.amb = amb
	return d, info
}

func parseDeclarationRaw(first tok.Tok, rest []tok.Tok) (Item, string, declInfo) {
	var info declInfo
	if first.Kind != "ident" {
		return Item{Kind: "error", Line: first.Line, Col: first.Col}, "", info
	}
	i := 0
	for i < len(rest) && (rest[i].Kind == "whitespace" || rest[i].Kind == "comment") {
		i++
	}
	if i >= len(rest) {
		return Item{Kind: "error", Line: first.Line, Col: first.Col}, "", info
	}
	if !isLit(rest[i], ":") {
		return Item{Kind: "error", Line: rest[i].Line, Col: rest[i].Col}, "", info
	}
	value := rest[i+1:]
	// significant tokens
	var sig []int
	bangs := 0
	blocks, others := 0, 0
	for k, t := range value {
		if t.Kind == "whitespace" || t.Kind == "comment" {
			continue
		}
		sig = append(sig, k)
		if isLit(t, "!") {
			bangs++
		}
		if t.Kind == "{" {
			blocks++
		} else {
			others++
		}
		if blocks > 0 && (t.Kind != "{" || blocks > 1) {
			info.blockThenMore = true
		}
	}
	info.blocks, info.others = blocks, others
	amb := ""
	d := Item{Kind: "decl", Name: first.Value, Line: first.Line, Col: first.Col}
	if n := len(sig); n >= 2 && isLit(value[sig[n-2]], "!") && value[sig[n-1]].Kind == "ident" && strings.EqualFold(value[sig[n-1]].Value, "important") {
		d.Important = true
		value = value[:sig[n-2]]
		if bangs > 1 {
			amb = "several '!' in one declaration"
		}
	} else if bangs > 0 {
		// a '!' that is not part of a trailing !important: invalid downstream in any case; tinycss2 keeps it in the value
		if bangs > 1 {
			amb = "several '!' in one declaration"
		}
	}
	d.Value = value
	return d, amb, info
}

// DeclarationList implements "consume a list of declarations" (Level 3, 2021).
func DeclarationList(l []tok.Tok, skipComments, skipWS bool) Result {
	it := &iter{l: l}
	var res Result
	for it.has() {
		t := it.next()
		switch {
		case t.Kind == "whitespace":
			if !skipWS {
				res.Items = append(res.Items, Item{Kind: "ws", Line: t.Line, Col: t.Col})
			}
		case t.Kind == "comment":
			if !skipComments {
				res.Items = append(res.Items, Item{Kind: "comment", Name: t.Value, Line: t.Line, Col: t.Col})
			}
		case t.Kind == "at-keyword":
			res.Items = append(res.Items, consumeAtRule(t, it))
		case isLit(t, ";"):
		default:
			var rest []tok.Tok
			for it.has() {
				n := it.next()
				if isLit(n, ";") {
					break
				}
				rest = append(rest, n)
			}
			d, amb := parseDeclaration(t, rest)
			if amb != "" && res.Ambiguous == "" {
				res.Ambiguous = amb
			}
			res.Items = append(res.Items, d)
		}
	}
	return res
}

// BlocksContents implements "consume a block's contents" (declarations and nested rules),
// in the region where the 2021 Candidate Recommendation and the current draft agree;
// inputs outside that region are flagged Ambiguous.
func BlocksContents(l []tok.Tok, skipWS bool) Result {
	it := &iter{l: l}
	var res Result
	for it.has() {
		t := it.next()
		switch {
		case t.Kind == "whitespace":
			if !skipWS {
				res.Items = append(res.Items, Item{Kind: "ws", Line: t.Line, Col: t.Col})
			}
		case t.Kind == "comment":
			res.Items = append(res.Items, Item{Kind: "comment", Name: t.Value, Line: t.Line, Col: t.Col})
		case t.Kind == "at-keyword":
			res.Items = append(res.Items, consumeAtRule(t, it))
		case isLit(t, ";"):
		default:
			mark := it.i
			var rest []tok.Tok
			if t.Kind != "{" {
				for it.has() {
					n := it.next()
					if isLit(n, ";") {
						break
					}
					rest = append(rest, n)
				}
			}
			d, info := parseDeclarationInfo(t, rest)
			if d.Kind == "decl" {
				if info.amb != "" && res.Ambiguous == "" {
					res.Ambiguous = info.amb
				}
				switch {
				case info.blocks == 0 || info.blocks == 1 && info.others == 0:
					// an ordinary declaration (a lone {} block is a legal value)
					res.Items = append(res.Items, d)
					continue
				case info.blockThenMore || strings.HasPrefix(d.Name, "--"):
					// "ident: ... {} more" and custom properties holding blocks: the implementation
					// documents these as TODO; the drafts changed here. Not judged.
					if res.Ambiguous == "" {
						res.Ambiguous = "declaration-like construct with a {} block followed by more values, or custom property with a block"
					}
					res.Items = append(res.Items, d)
					continue
				}
				// "ident : values {}" is not a declaration: fall back to a nested qualified rule
			}
			it.i = mark
			res.Items = append(res.Items, consumeQualifiedRule(t, it, true))
		}
	}
	return res
}

// OneDeclaration implements "parse a declaration".
func OneDeclaration(l []tok.Tok) (Item, string) {
	i := 0
	for i < len(l) && (l[i].Kind == "whitespace" || l[i].Kind == "comment") {
		i++
	}
	if i >= len(l) {
		return Item{Kind: "error", Line: 1, Col: 1}, ""
	}
	return parseDeclaration(l[i], l[i+1:])
}

// OneComponentValue implements "parse a component value": returns (value, ok).
func OneComponentValue(l []tok.Tok) (tok.Tok, bool) {
	var sig []tok.Tok
	for _, t := range l {
		if t.Kind != "whitespace" && t.Kind != "comment" {
			sig = append(sig, t)
		}
	}
	if len(sig) != 1 {
		return tok.Tok{}, false
	}
	return sig[0], true
}
