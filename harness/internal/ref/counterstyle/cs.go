// Package counterstyle is a reference implementation of CSS Counter Styles
// Level 3 section 2 ("generate a counter representation") and section 3
// (systems), written from the specification. It is the oracle of property C19.
package counterstyle

import (
	"fmt"
	"strings"
	"unicode"
)

type Tuple struct {
	W int    `json:"w"`
	S string `json:"s"`
}

type Style struct {
	Name     string   `json:"name"`
	System   string   `json:"system"` // cyclic fixed symbolic alphabetic numeric additive extends
	First    int      `json:"first,omitempty"`
	HasFirst bool     `json:"has_first,omitempty"`
	Extends  string   `json:"extends,omitempty"`
	Symbols  []string `json:"symbols,omitempty"`
	Idents   []bool   `json:"idents,omitempty"` // print the symbol as an identifier instead of a string
	Additive []Tuple  `json:"additive,omitempty"`
	// Range: nil = not specified; RangeAuto = "auto"
	Range     [][2]int64 `json:"range,omitempty"` // math.MinInt64 / MaxInt64 stand for infinite
	RangeAuto bool       `json:"range_auto,omitempty"`
	HasPad    bool       `json:"has_pad,omitempty"`
	PadN      int        `json:"pad_n,omitempty"`
	PadS      string     `json:"pad_s,omitempty"`
	HasNeg    bool       `json:"has_neg,omitempty"`
	Neg       []string   `json:"neg,omitempty"` // 1 or 2
	Prefix    *string    `json:"prefix,omitempty"`
	Suffix    *string    `json:"suffix,omitempty"`
	Fallback  string     `json:"fallback,omitempty"`
}

// Undefined marks a representation the specification does not define: an alphabetic or symbolic
// system asked (through an explicit range) for a value below 1.
const Undefined = "\x00undefined\x00"

// Huge marks a representation too long to build (more than 65536 repetitions of a symbol).
const Huge = "\x00huge\x00"

const (
	NegInf = int64(-1) << 62
	PosInf = int64(1) << 62
)

func quote(s string) string {
	return "\"" + strings.ReplaceAll(strings.ReplaceAll(s, "\\", "\\\\"), "\"", "\\\"") + "\""
}

// CSS returns the @counter-style rule text.
func (s *Style) CSS() string {
	var b strings.Builder
	fmt.Fprintf(&b, "@counter-style %s{", s.Name)
	switch s.System {
	case "fixed":
		if s.HasFirst {
			fmt.Fprintf(&b, "system:fixed %d;", s.First)
		} else {
			b.WriteString("system:fixed;")
		}
	case "extends":
		fmt.Fprintf(&b, "system:extends %s;", s.Extends)
	case "":
	default:
		fmt.Fprintf(&b, "system:%s;", s.System)
	}
	if len(s.Symbols) > 0 {
		b.WriteString("symbols:")
		for i, sy := range s.Symbols {
			if i < len(s.Idents) && s.Idents[i] {
				b.WriteString(" " + sy)
			} else {
				b.WriteString(" " + quote(sy))
			}
		}
		b.WriteString(";")
	}
	if len(s.Additive) > 0 {
		var parts []string
		for _, t := range s.Additive {
			parts = append(parts, fmt.Sprintf("%d %s", t.W, quote(t.S)))
		}
		b.WriteString("additive-symbols:" + strings.Join(parts, ", ") + ";")
	}
	if s.RangeAuto {
		b.WriteString("range:auto;")
	} else if len(s.Range) > 0 {
		var parts []string
		bound := func(v int64) string {
			if v == NegInf || v == PosInf {
				return "infinite"
			}
			return fmt.Sprint(v)
		}
		for _, r := range s.Range {
			parts = append(parts, bound(r[0])+" "+bound(r[1]))
		}
		b.WriteString("range:" + strings.Join(parts, ", ") + ";")
	}
	if s.HasPad {
		fmt.Fprintf(&b, "pad:%d %s;", s.PadN, quote(s.PadS))
	}
	if s.HasNeg {
		var parts []string
		for _, n := range s.Neg {
			parts = append(parts, quote(n))
		}
		b.WriteString("negative:" + strings.Join(parts, " ") + ";")
	}
	if s.Prefix != nil {
		b.WriteString("prefix:" + quote(*s.Prefix) + ";")
	}
	if s.Suffix != nil {
		b.WriteString("suffix:" + quote(*s.Suffix) + ";")
	}
	if s.Fallback != "" {
		b.WriteString("fallback:" + s.Fallback + ";")
	}
	b.WriteString("}")
	return b.String()
}

type Set map[string]*Style

// Predefined returns the reference definitions of the predefined styles the generator refers to
// (transcribed from CSS Counter Styles 3 section 6).
func Predefined() Set {
	str := func(s string) *string { return &s }
	alpha := func(from, to rune) []string {
		var out []string
		for r := from; r <= to; r++ {
			out = append(out, string(r))
		}
		return out
	}
	return Set{
		"decimal":     {Name: "decimal", System: "numeric", Symbols: []string{"0", "1", "2", "3", "4", "5", "6", "7", "8", "9"}},
		"lower-alpha": {Name: "lower-alpha", System: "alphabetic", Symbols: alpha('a', 'z')},
		"upper-alpha": {Name: "upper-alpha", System: "alphabetic", Symbols: alpha('A', 'Z')},
		"lower-roman": {Name: "lower-roman", System: "additive", Range: [][2]int64{{1, 3999}},
			Additive: []Tuple{{1000, "m"}, {900, "cm"}, {500, "d"}, {400, "cd"}, {100, "c"}, {90, "xc"}, {50, "l"}, {40, "xl"}, {10, "x"}, {9, "ix"}, {5, "v"}, {4, "iv"}, {1, "i"}}},
		"upper-roman": {Name: "upper-roman", System: "additive", Range: [][2]int64{{1, 3999}},
			Additive: []Tuple{{1000, "M"}, {900, "CM"}, {500, "D"}, {400, "CD"}, {100, "C"}, {90, "XC"}, {50, "L"}, {40, "XL"}, {10, "X"}, {9, "IX"}, {5, "V"}, {4, "IV"}, {1, "I"}}},
		"disc":                 {Name: "disc", System: "cyclic", Symbols: []string{"•"}, Suffix: str(" ")},
		"decimal-leading-zero": {Name: "decimal-leading-zero", System: "extends", Extends: "decimal", HasPad: true, PadN: 2, PadS: "0"},
		"lower-greek":          {Name: "lower-greek", System: "alphabetic", Symbols: []string{"α", "β", "γ", "δ", "ε", "ζ", "η", "θ", "ι", "κ", "λ", "μ", "ν", "ξ", "ο", "π", "ρ", "σ", "τ", "υ", "φ", "χ", "ψ", "ω"}},
	}
}

// resolved is a style with the extends chain applied.
type resolved struct {
	system   string
	first    int
	symbols  []string
	additive []Tuple
	rng      [][2]int64 // nil = auto
	padN     int
	padS     string
	neg      [2]string
	prefix   string
	suffix   string
	fallback string
}

func (set Set) resolve(name string) *resolved {
	st, ok := set[name]
	if !ok {
		return nil
	}
	// follow extends, collecting the chain; a style that takes part in an extends cycle,
	// or extends an unknown name, extends decimal instead
	decimal := Predefined()["decimal"]
	if d, has := set["decimal"]; has && d.System != "extends" {
		decimal = d
	}
	inCycle := func(n string) bool {
		cur, steps := set[n], 0
		for cur != nil && cur.System == "extends" && steps < len(set)+1 {
			if cur.Extends == n {
				return true
			}
			cur = set[cur.Extends]
			steps++
		}
		return false
	}
	chain := []*Style{st}
	cur, curName := st, name
	for cur.System == "extends" && len(chain) < len(set)+3 {
		next, ok := set[cur.Extends]
		if !ok || inCycle(curName) {
			chain = append(chain, decimal)
			break
		}
		chain = append(chain, next)
		cur, curName = next, cur.Extends
	}
	base := chain[len(chain)-1]
	r := &resolved{system: base.System, first: 1, symbols: base.Symbols, additive: base.Additive,
		neg: [2]string{"-", ""}, prefix: "", suffix: ". ", fallback: "decimal"}
	if base.System == "" {
		r.system = "symbolic"
	}
	if base.HasFirst {
		r.first = base.First
	}
	// descriptors: the most derived style that specifies one wins
	for i := len(chain) - 1; i >= 0; i-- {
		s := chain[i]
		if s.RangeAuto {
			r.rng = nil
		} else if len(s.Range) > 0 {
			r.rng = s.Range
		}
		if s.HasPad {
			r.padN, r.padS = s.PadN, s.PadS
		}
		if s.HasNeg {
			r.neg = [2]string{s.Neg[0], ""}
			if len(s.Neg) > 1 {
				r.neg[1] = s.Neg[1]
			}
		}
		if s.Prefix != nil {
			r.prefix = *s.Prefix
		}
		if s.Suffix != nil {
			r.suffix = *s.Suffix
		}
		if s.Fallback != "" {
			r.fallback = s.Fallback
		}
	}
	return r
}

func graphemes(s string) int {
	// grapheme clusters approximated by counting non-combining code points
	// (the generator only uses precomposed characters, where the two notions agree)
	n := 0
	for _, r := range s {
		if !unicode.Is(unicode.Mn, r) {
			n++
		}
	}
	return n
}

func mod(a, n int64) int64 { return ((a % n) + n) % n }

func (r *resolved) inRange(v int64) bool {
	if r.rng == nil {
		switch r.system {
		case "alphabetic", "symbolic":
			return v >= 1
		case "additive":
			return v >= 0
		}
		return true
	}
	for _, p := range r.rng {
		if p[0] <= v && v <= p[1] {
			return true
		}
	}
	return false
}

func (r *resolved) usesNegative() bool {
	switch r.system {
	case "symbolic", "alphabetic", "numeric", "additive":
		return true
	}
	return false
}

// initial returns the initial representation, ok=false when the algorithm cannot represent the value.
func (r *resolved) initial(v int64) (string, bool) {
	n := int64(len(r.symbols))
	switch r.system {
	case "cyclic":
		if n == 0 {
			return "", false
		}
		return r.symbols[mod(v-1, n)], true
	case "fixed":
		i := v - int64(r.first)
		if i < 0 || i >= n {
			return "", false
		}
		return r.symbols[i], true
	case "symbolic":
		if n == 0 || v < 1 {
			return "", false
		}
		reps := (v + n - 1) / n
		if reps > 1<<16 {
			return Huge, false
		}
		return strings.Repeat(r.symbols[mod(v-1, n)], int(reps)), true
	case "alphabetic":
		if n < 2 || v < 1 {
			return "", false
		}
		var parts []string
		for v != 0 {
			v--
			parts = append([]string{r.symbols[v%n]}, parts...)
			v /= n
		}
		return strings.Join(parts, ""), true
	case "numeric":
		if n < 2 {
			return "", false
		}
		if v == 0 {
			return r.symbols[0], true
		}
		var parts []string
		for v != 0 {
			parts = append([]string{r.symbols[v%n]}, parts...)
			v /= n
		}
		return strings.Join(parts, ""), true
	case "additive":
		if v == 0 {
			for _, t := range r.additive {
				if t.W == 0 {
					return t.S, true
				}
			}
			return "", false
		}
		var b strings.Builder
		for _, t := range r.additive {
			w := int64(t.W)
			if w == 0 || w > v {
				continue
			}
			reps := v / w
			if reps > 1<<16 {
				return Huge, false
			}
			b.WriteString(strings.Repeat(t.S, int(reps)))
			v -= w * reps
			if v == 0 {
				return b.String(), true
			}
		}
		return "", false
	}
	return "", false
}

// Render generates the counter representation of value in the named style.
// huge=true means the reference declines to judge (representation would be enormous).
func (set Set) Render(name string, value int64) (out string, huge bool) {
	return set.render(name, value, map[string]bool{})
}

func (set Set) render(name string, value int64, visited map[string]bool) (string, bool) {
	r := set.resolve(name)
	if r == nil || visited[name] {
		// unknown style, or a loop in the fallbacks: decimal
		if name == "decimal" && r == nil {
			return fmt.Sprint(value), false
		}
		return set.renderDecimal(value), false
	}
	visited[name] = true
	if !r.inRange(value) {
		return set.render(r.fallback, value, visited)
	}
	v := value
	neg := value < 0 && r.usesNegative()
	if neg {
		v = -v
	}
	if (r.system == "alphabetic" || r.system == "symbolic") && v < 1 {
		return Undefined, false
	}
	init, ok := r.initial(v)
	if init == Huge {
		return "", true
	}
	if !ok {
		return set.render(r.fallback, value, visited)
	}
	have := graphemes(init)
	if neg {
		have += graphemes(r.neg[0]) + graphemes(r.neg[1])
	}
	if d := r.padN - have; d > 0 {
		init = strings.Repeat(r.padS, d) + init
	}
	if neg {
		init = r.neg[0] + init + r.neg[1]
	}
	return init, false
}

func (set Set) renderDecimal(value int64) string {
	if r := set.resolve("decimal"); r != nil && r.system == "numeric" && len(r.symbols) == 10 {
		s, _ := set.render("decimal", value, map[string]bool{})
		return s
	}
	return fmt.Sprint(value)
}

// Marker returns prefix + representation + suffix of the named style.
func (set Set) Marker(name string, value int64) (string, bool) {
	r := set.resolve(name)
	if r == nil {
		r = set.resolve("decimal")
		name = "decimal"
	}
	rep, huge := set.Render(name, value)
	if r == nil {
		return rep + ". ", huge
	}
	return r.prefix + rep + r.suffix, huge
}
