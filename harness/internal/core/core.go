// Package core is the engine shared by the worker (props) and the driver (vcheck).
package core

import (
	"encoding/json"
	"fmt"
	"hash/fnv"
	"regexp"
	"runtime"
	"sort"
	"strings"
	"time"

	"pgregory.net/rapid"
)

type Tier int

const (
	Quick Tier = iota
	Thorough
)

func (t Tier) String() string {
	if t == Thorough {
		return "thorough"
	}
	return "quick"
}

// Verdict is the outcome of checking one case.
type Verdict struct {
	Sig        string   `json:"sig,omitempty"` // "" = property held on this case
	Msg        string   `json:"msg,omitempty"`
	Labels     []string `json:"labels,omitempty"`
	NonTrivial bool     `json:"nontrivial,omitempty"`
	Excluded   string   `json:"excluded,omitempty"` // reason the case was not judged
	Crash      bool     `json:"crash,omitempty"`    // Sig comes from a panic / hang / process death
	// Tolerated: deviations of a listed finding met on the way while the rest of the case was still
	// judged (exclusion by construction). Each is honoured only while the ledger lists its signature;
	// otherwise it is the violation of the case.
	Tolerated []Deviation `json:"tolerated,omitempty"`
}

type Deviation struct {
	Sig string `json:"sig"`
	Msg string `json:"msg"`
}

// Tolerate records a deviation that belongs to a listed finding (checked against the ledger by the worker).
func (v *Verdict) Tolerate(sig, format string, args ...interface{}) {
	sig = cleanSig(sig)
	for _, d := range v.Tolerated {
		if d.Sig == sig {
			return
		}
	}
	v.Tolerated = append(v.Tolerated, Deviation{Sig: sig, Msg: fmt.Sprintf(format, args...)})
}

func OK(nt bool, labels ...string) Verdict { return Verdict{NonTrivial: nt, Labels: labels} }

func Viol(sig, format string, args ...interface{}) Verdict {
	return Verdict{Sig: cleanSig(sig), Msg: fmt.Sprintf(format, args...)}
}

func cleanSig(s string) string {
	s = strings.Join(strings.Fields(s), "_")
	if len(s) > 200 {
		s = s[:200]
	}
	return s
}

// Prop describes one property module.
type Prop struct {
	ID    string
	Index int
	// Gen draws one case; all randomness must come from t.
	Gen func(t *rapid.T, tier Tier) interface{}
	// New returns a pointer to a zero case, for JSON decoding (replay).
	New func() interface{}
	// Check judges one case against the code in /repo. Pure function of the case.
	Check func(c interface{}) Verdict
	// Rule is the stated generation + non-triviality rule (copied into evidence).
	Rule string
	// Case budgets (total over all shards).
	QuickN, ThoroughN int
	// CaseTimeout: a case silent for this long is a hang.
	CaseTimeout time.Duration
	// CrashIsViolation: a panic/hang/death in the code under test violates
	// this property itself (parsers, C01); otherwise crashes are attributed to
	// C01 and the case is excluded (counted).
	CrashIsViolation bool
	// HangTag, when set, names the class of a case whose render does not return: the tag is appended to
	// the hang signature, so that hangs of a class of inputs that never hangs on the unchanged tree are
	// not filed under a listed hang of the same package.
	HangTag func(c interface{}) string
	// ImportantLabels must each reach at least 1 % of the cases.
	ImportantLabels []string
	// Assumptions copied into evidence.
	Assumptions []string
	// Race: worker must be built with -race.
	Race bool
	// Exhaustive, when set, runs a complete enumeration of a finite sub-space
	// (thorough tier, shard 0 only unless it shards itself) and returns the count.
	Exhaustive func(shard, shards int, report func(c interface{}, v Verdict)) (note string)
}

var Registry = map[string]*Prop{}

func Register(p *Prop) {
	if p.CaseTimeout == 0 {
		p.CaseTimeout = 20 * time.Second
	}
	var n int
	fmt.Sscanf(p.ID, "C%d", &n)
	p.Index = n
	Registry[p.ID] = p
}

func CaseJSON(c interface{}) []byte {
	b, err := json.Marshal(c)
	if err != nil {
		return []byte(fmt.Sprintf("{\"marshal_error\":%q}", err.Error()))
	}
	return b
}

func Hash64(b []byte) uint64 {
	h := fnv.New64a()
	h.Write(b)
	return h.Sum64()
}

// ---- guarded execution

var (
	reDigits = regexp.MustCompile(`0x[0-9a-fA-F]+|[0-9]+`)
)

func normMsg(s string) string {
	s = reDigits.ReplaceAllString(s, "N")
	if len(s) > 120 {
		s = s[:120]
	}
	return s
}

const wrMod = "github.com/benoitkugler/webrender/"

// panicSite names the root of a panic: the innermost function on the panicking stack that belongs to
// a Go module (the library under test or one of its dependencies), skipping the runtime and the
// standard library. When that function is in a dependency, the innermost webrender caller is not part
// of the identity (one dependency defect reached from many call sites is one root cause).
func panicSite() string {
	pcs := make([]uintptr, 128)
	n := runtime.Callers(2, pcs)
	frames := runtime.CallersFrames(pcs[:n])
	seenPanic := false
	for {
		f, more := frames.Next()
		fn := f.Function
		if strings.HasPrefix(fn, "runtime.gopanic") || strings.HasPrefix(fn, "runtime.panic") || strings.HasPrefix(fn, "runtime.sigpanic") || strings.HasPrefix(fn, "runtime.goPanic") {
			seenPanic = true
		} else if seenPanic {
			if strings.HasPrefix(fn, wrMod) {
				return shortFunc(fn)
			}
			if strings.HasPrefix(fn, "verif/harness/") {
				return "harness:" + shortFunc(fn)
			}
			first := fn
			if i := strings.Index(fn, "/"); i >= 0 {
				first = fn[:i]
			}
			if strings.Contains(first, ".") && strings.Contains(fn, "/") { // a module path such as github.com/...
				return "dep:" + shortDep(fn)
			}
		}
		if !more {
			break
		}
	}
	return "unknown"
}

func shortDep(f string) string {
	f = reClosure.ReplaceAllString(f, ".func")
	parts := strings.Split(f, "/")
	if len(parts) > 2 {
		parts = parts[len(parts)-2:]
	}
	return strings.Join(parts, "/")
}

var reClosure = regexp.MustCompile(`\.func[0-9]+(\.[0-9]+)*$`)

func shortFunc(f string) string {
	f = strings.TrimPrefix(f, wrMod)
	f = reClosure.ReplaceAllString(f, ".func")
	return f
}

// RunGuarded runs p.Check(c) under recover and a watchdog.
// hung=true means the checking goroutine is still running: the process must exit.
func RunGuarded(p *Prop, c interface{}) (v Verdict, hung bool) {
	done := make(chan Verdict, 1)
	var gid = make(chan struct{})
	go func() {
		close(gid)
		defer func() {
			if r := recover(); r != nil {
				site := panicSite()
				msg := fmt.Sprint(r)
				if strings.HasPrefix(msg, "verif infra:") {
					done <- Verdict{Excluded: "infra", Msg: msg, Sig: "INFRA"}
					return
				}
				done <- Verdict{Sig: cleanSig("panic:" + site + ":" + normMsg(msg)), Msg: msg + "\n" + trimStack(stackHere()), Crash: true}
			}
		}()
		done <- p.Check(c)
	}()
	<-gid
	timer := time.NewTimer(p.CaseTimeout)
	defer timer.Stop()
	select {
	case v = <-done:
		return v, false
	case <-timer.C:
		site := hangSite()
		if p.HangTag != nil {
			site += p.HangTag(c)
		}
		return Verdict{Sig: cleanSig("hang:" + site), Msg: "no return within " + p.CaseTimeout.String() + " (stack stays inside " + LastHangDetail + ")", Crash: true}, true
	}
}

func stackHere() string {
	buf := make([]byte, 16<<10)
	n := runtime.Stack(buf, false)
	return string(buf[:n])
}

func trimStack(s string) string {
	lines := strings.Split(s, "\n")
	var out []string
	for _, l := range lines {
		if strings.Contains(l, "webrender") || strings.HasPrefix(l, "panic") {
			out = append(out, strings.TrimSpace(l))
		}
		if len(out) > 16 {
			break
		}
	}
	return strings.Join(out, "\n")
}

// hangSite samples all goroutine stacks a few times and returns the deepest
// webrender function common to every sample of the goroutine running Check.
func hangSite() string {
	var common []string
	for i := 0; i < 6; i++ {
		fr := checkGoroutineFrames()
		if fr == nil {
			continue
		}
		if common == nil {
			common = fr
		} else {
			// longest common prefix, frames are outermost-first
			k := 0
			for k < len(common) && k < len(fr) && common[k] == fr[k] {
				k++
			}
			common = common[:k]
		}
		time.Sleep(150 * time.Millisecond)
	}
	// The deepest common frame depends on sampling luck (slow recursive layouts look different at each
	// sample), so the identity of a hang is only the package the work is stuck in; the function is
	// reported in the message.
	deepest := "unknown"
	for i := len(common) - 1; i >= 0; i-- {
		if strings.HasPrefix(common[i], wrMod) {
			deepest = shortFunc(common[i])
			break
		}
	}
	LastHangDetail = deepest
	for _, pkg := range []string{"html/layout", "html/document", "html/boxes", "html/tree", "svg", "text", "css/"} {
		for _, f := range common {
			if strings.HasPrefix(f, wrMod+pkg) {
				return strings.TrimSuffix(pkg, "/")
			}
		}
	}
	return deepest
}

// LastHangDetail is the deepest common webrender function seen by the last hangSite call.
var LastHangDetail string

var reFrame = regexp.MustCompile(`^([^\s(][^\n]*?)\((?:[^()]|\([^()]*\))*\)$`)

func checkGoroutineFrames() []string {
	buf := make([]byte, 4<<20)
	n := runtime.Stack(buf, true)
	for _, g := range strings.Split(string(buf[:n]), "\n\n") {
		if !strings.Contains(g, "core.RunGuarded.func1") || !strings.Contains(g, "webrender") {
			continue
		}
		var fr []string
		lines := strings.Split(g, "\n")
		for _, l := range lines[1:] {
			if strings.HasPrefix(l, "\t") || strings.HasPrefix(l, "created by") || strings.HasPrefix(l, "...") {
				continue
			}
			if i := strings.LastIndex(l, "("); i > 0 {
				fr = append(fr, l[:i])
			}
		}
		// reverse: outermost first
		for i, j := 0, len(fr)-1; i < j; i, j = i+1, j-1 {
			fr[i], fr[j] = fr[j], fr[i]
		}
		return fr
	}
	return nil
}

// ---- ledger

type Finding struct {
	Property string
	ID       string
	Sig      string // glob with * wildcards
	Witness  string
	What     string
	re       *regexp.Regexp
}

type Ledger struct {
	Findings []Finding
	Fixed    []string
}

var reFinding = regexp.MustCompile(`^finding:\s+property=(\S+)\s+id=(\S+)\s+sig=(\S+)(?:\s+witness=(\S+))?\s+::\s*(.*)$`)

func ParseLedger(text string) (*Ledger, error) {
	l := &Ledger{}
	for i, line := range strings.Split(text, "\n") {
		line = strings.TrimSpace(line)
		if line == "" || strings.HasPrefix(line, "#") {
			continue
		}
		if strings.HasPrefix(line, "fixed:") {
			l.Fixed = append(l.Fixed, line)
			continue
		}
		m := reFinding.FindStringSubmatch(line)
		if m == nil {
			return nil, fmt.Errorf("ledger line %d not understood: %q", i+1, line)
		}
		f := Finding{Property: m[1], ID: m[2], Sig: m[3], Witness: m[4], What: m[5]}
		parts := strings.Split(f.Sig, "*")
		for j := range parts {
			parts[j] = regexp.QuoteMeta(parts[j])
		}
		f.re = regexp.MustCompile("^" + strings.Join(parts, ".*") + "$")
		l.Findings = append(l.Findings, f)
	}
	return l, nil
}

// Match returns the finding listed for (property, sig).
func (l *Ledger) Match(prop, sig string) *Finding {
	if l == nil {
		return nil
	}
	for i := range l.Findings {
		f := &l.Findings[i]
		if f.Property == prop && f.re.MatchString(sig) {
			return f
		}
	}
	return nil
}

// MatchCrash returns a crash finding (listed under any property) matching sig.
func (l *Ledger) MatchCrash(sig string) *Finding {
	if l == nil {
		return nil
	}
	for i := range l.Findings {
		f := &l.Findings[i]
		if f.re.MatchString(sig) {
			return f
		}
	}
	return nil
}

// ---- per-shard statistics

type Sample struct {
	Hash uint64          `json:"-"`
	Case json.RawMessage `json:"case"`
	Labs []string        `json:"labels,omitempty"`
}

type ViolationRec struct {
	Property string          `json:"property"`
	Sig      string          `json:"signature"`
	Msg      string          `json:"message"`
	Case     json.RawMessage `json:"case"`
	Seed     uint64          `json:"seed"`
	Tier     string          `json:"tier"`
	Shrunk   bool            `json:"shrunk"`
}

type Stats struct {
	Property    string            `json:"property"`
	Evaluations int               `json:"evaluations"`
	NTHashes    []uint64          `json:"nt_hashes"`
	Labels      map[string]int    `json:"labels"`
	Excluded    map[string]int    `json:"excluded"`
	KnownHits   map[string]int    `json:"known_hits"`  // finding id -> hits
	KnownSigs   map[string]string `json:"known_sigs"`  // finding id -> example sig
	CrashNotes  map[string]int    `json:"crash_notes"` // unknown crash sigs in non-crash properties
	First       []Sample          `json:"first"`
	MinHash     []Sample          `json:"minhash"`
	Violations  []ViolationRec    `json:"violations"`
	CrashCases  []ViolationRec    `json:"crash_cases"`
	SigCounts   map[string]int    `json:"sig_counts"` // number of cases per violation signature (survey mode shows the spread) // unlisted crashes met while evaluating a non-crash property
	Exhaustive  string            `json:"exhaustive,omitempty"`
	Done        bool              `json:"done"`
	NeedRestart bool              `json:"need_restart"`
	nt          map[uint64]struct{}
}

func NewStats(prop string) *Stats {
	return &Stats{Property: prop, Labels: map[string]int{}, Excluded: map[string]int{}, KnownHits: map[string]int{},
		KnownSigs: map[string]string{}, CrashNotes: map[string]int{}, SigCounts: map[string]int{}, nt: map[uint64]struct{}{}}
}

func (s *Stats) Record(cj []byte, v Verdict) {
	s.Evaluations++
	for _, l := range v.Labels {
		s.Labels[l]++
	}
	if v.Excluded != "" {
		s.Excluded[v.Excluded]++
		return
	}
	if v.NonTrivial && v.Sig == "" {
		h := Hash64(cj)
		if _, ok := s.nt[h]; !ok {
			s.nt[h] = struct{}{}
			smp := Sample{Hash: h, Case: append([]byte(nil), cj...), Labs: v.Labels}
			if len(s.First) < 3 {
				s.First = append(s.First, smp)
			}
			if len(s.MinHash) < 3 {
				s.MinHash = append(s.MinHash, smp)
				sort.Slice(s.MinHash, func(i, j int) bool { return s.MinHash[i].Hash < s.MinHash[j].Hash })
			} else if h < s.MinHash[2].Hash {
				s.MinHash[2] = smp
				sort.Slice(s.MinHash, func(i, j int) bool { return s.MinHash[i].Hash < s.MinHash[j].Hash })
			}
		}
	}
}

func (s *Stats) Finalize() {
	s.NTHashes = s.NTHashes[:0]
	for h := range s.nt {
		s.NTHashes = append(s.NTHashes, h)
	}
	sort.Slice(s.NTHashes, func(i, j int) bool { return s.NTHashes[i] < s.NTHashes[j] })
}
