package gen

import (
	"fmt"
	"strings"

	"pgregory.net/rapid"
)

// Ordinary documents: a page far larger than its content, one to three containers of one layout mode each
// (flex, grid, table, multi-column, inline content, floats, positioned boxes), a handful of items with
// explicit sizes and the whole parameter range of that layout mode. No degenerate page geometry, no GCPM
// (running elements, footnotes), no generated declarations outside the layout mode: the documents of this
// grammar finish in milliseconds on the unchanged tree, so that a render that does not return is judged on
// its own (see C01) instead of being filed under the listed pagination hangs. Dashed and dotted borders are
// left to the full grammar: a table whose percentage columns add up to 100 % has an "infinitely large"
// max-content width (math.MaxInt32 px, by design of the table algorithm), a flex item sized by its content
// is that wide, and drawing a dashed border dash by dash along it is the listed finding C01-F55.

var calmWords = []string{"a", "bb", "ccc", "word", "longerword", "text", "x", "lorem", "ipsum", "incomprehensibilities"}

func calmText(t *rapid.T, max int) string {
	n := rapid.IntRange(0, max).Draw(t, "nw")
	var w []string
	for i := 0; i < n; i++ {
		w = append(w, rapid.SampledFrom(calmWords).Draw(t, "w"))
	}
	return strings.Join(w, " ")
}

func calmLen(t *rapid.T, label string, auto bool) string {
	k := rapid.IntRange(0, 9).Draw(t, label)
	switch {
	case k == 0 && auto:
		return "auto"
	case k == 1:
		return rapid.SampledFrom([]string{"10%", "25%", "50%", "100%", "120%"}).Draw(t, label+"p")
	case k == 2:
		return "0"
	case k == 3:
		return rapid.SampledFrom([]string{"1em", "2.5em", "0.5em"}).Draw(t, label+"e")
	default:
		return fmt.Sprintf("%dpx", rapid.SampledFrom([]int{1, 5, 10, 20, 33, 50, 80, 100, 150, 240, 400}).Draw(t, label+"v"))
	}
}

// calmBoxDecls: sizes, margins, padding, border of one item
func calmBoxDecls(t *rapid.T) []string {
	var ds []string
	add := func(p int, prop string, val func() string) {
		if rapid.IntRange(0, p).Draw(t, "has-"+prop) == 0 {
			ds = append(ds, prop+":"+val())
		}
	}
	add(1, "width", func() string { return calmLen(t, "wd", true) })
	add(2, "height", func() string { return calmLen(t, "ht", true) })
	add(4, "min-width", func() string { return calmLen(t, "mnw", false) })
	add(4, "max-width", func() string { return calmLen(t, "mxw", false) })
	add(5, "min-height", func() string { return calmLen(t, "mnh", false) })
	add(5, "max-height", func() string { return calmLen(t, "mxh", false) })
	add(3, "margin", func() string {
		return rapid.SampledFrom([]string{"0", "5px", "auto", "0 auto", "10px 3px", "-5px", "2%", "0 0 0 auto"}).Draw(t, "mg")
	})
	add(3, "padding", func() string { return rapid.SampledFrom([]string{"0", "3px", "10px 20px", "5%", "1em"}).Draw(t, "pd") })
	add(3, "border", func() string {
		return rapid.SampledFrom([]string{"1px solid", "5px solid red", "0 solid", "3px groove blue", "thick double"}).Draw(t, "bd")
	})
	add(5, "box-sizing", func() string { return rapid.SampledFrom([]string{"border-box", "content-box"}).Draw(t, "bs") })
	add(7, "overflow", func() string { return rapid.SampledFrom([]string{"hidden", "visible", "auto"}).Draw(t, "of") })
	return ds
}

func calmItemContent(t *rapid.T, depth int) string {
	switch rapid.IntRange(0, 5).Draw(t, "ic") {
	case 0:
		return ""
	case 1:
		if depth > 0 {
			return calmContainer(t, depth-1)
		}
		return calmText(t, 3)
	case 2:
		return "<div style=\"" + strings.Join(calmBoxDecls(t), ";") + "\">" + calmText(t, 3) + "</div>"
	default:
		return calmText(t, 5)
	}
}

func calmFlex(t *rapid.T, depth int) string {
	cs := []string{"display:" + rapid.SampledFrom([]string{"flex", "flex", "flex", "inline-flex"}).Draw(t, "fd")}
	opt := func(p int, prop string, vals ...string) {
		if rapid.IntRange(0, p).Draw(t, "has-"+prop) == 0 {
			cs = append(cs, prop+":"+rapid.SampledFrom(vals).Draw(t, prop))
		}
	}
	opt(1, "flex-direction", "row", "column", "row-reverse", "column-reverse")
	opt(1, "flex-wrap", "nowrap", "wrap", "wrap-reverse")
	opt(2, "justify-content", "flex-start", "flex-end", "center", "space-between", "space-around", "space-evenly", "stretch", "start", "end")
	opt(2, "align-items", "stretch", "flex-start", "flex-end", "center", "baseline", "start", "end")
	opt(3, "align-content", "stretch", "flex-start", "flex-end", "center", "space-between", "space-around", "space-evenly")
	opt(3, "gap", "0", "5px", "10px 20px", "2%", "1em")
	if rapid.IntRange(0, 1).Draw(t, "cw") == 0 {
		cs = append(cs, "width:"+calmLen(t, "fcw", true))
	}
	if rapid.IntRange(0, 1).Draw(t, "ch") == 0 {
		cs = append(cs, "height:"+calmLen(t, "fch", true))
	}
	var b strings.Builder
	b.WriteString("<div style=\"" + strings.Join(cs, ";") + "\">")
	n := rapid.IntRange(1, 5).Draw(t, "nitems")
	for i := 0; i < n; i++ {
		ds := calmBoxDecls(t)
		switch rapid.IntRange(0, 4).Draw(t, "fk") {
		case 0:
			ds = append(ds, "flex:"+rapid.SampledFrom([]string{"1", "none", "auto", "0 0 auto", "2 1 0", "1 1 0%", "0 1 100px", "1 0 50%", "3 3 10px", "0 0 0"}).Draw(t, "fx"))
		case 1, 2:
			ds = append(ds, "flex-grow:"+rapid.SampledFrom([]string{"0", "1", "2", "0.5", "7"}).Draw(t, "fg"),
				"flex-shrink:"+rapid.SampledFrom([]string{"0", "1", "2", "10", "0.3", "100"}).Draw(t, "fs"),
				"flex-basis:"+rapid.SampledFrom([]string{"auto", "0", "content", "100px", "300px", "50%", "1000px", "3em"}).Draw(t, "fb"))
		}
		if rapid.IntRange(0, 4).Draw(t, "as") == 0 {
			ds = append(ds, "align-self:"+rapid.SampledFrom([]string{"auto", "stretch", "flex-start", "flex-end", "center", "baseline"}).Draw(t, "asv"))
		}
		if rapid.IntRange(0, 5).Draw(t, "ord") == 0 {
			ds = append(ds, "order:"+rapid.SampledFrom([]string{"-1", "0", "1", "5"}).Draw(t, "ordv"))
		}
		b.WriteString("<div style=\"" + strings.Join(ds, ";") + "\">" + calmItemContent(t, depth) + "</div>")
	}
	b.WriteString("</div>")
	return b.String()
}

func calmTracks(t *rapid.T, label string) string {
	n := rapid.IntRange(1, 4).Draw(t, label+"n")
	var tr []string
	for i := 0; i < n; i++ {
		tr = append(tr, rapid.SampledFrom([]string{"50px", "100px", "1fr", "2fr", "auto", "min-content", "max-content", "minmax(20px,1fr)", "minmax(min-content,100px)", "minmax(0,2fr)", "fit-content(80px)", "repeat(2,40px)", "repeat(2,1fr)", "20%", "3em", "0.5fr"}).Draw(t, label))
	}
	return strings.Join(tr, " ")
}

func calmGrid(t *rapid.T, depth int) string {
	cs := []string{"display:" + rapid.SampledFrom([]string{"grid", "grid", "grid", "inline-grid"}).Draw(t, "gd")}
	if rapid.IntRange(0, 4).Draw(t, "gtc") != 0 {
		cs = append(cs, "grid-template-columns:"+calmTracks(t, "gc"))
	}
	if rapid.IntRange(0, 2).Draw(t, "gtr") == 0 {
		cs = append(cs, "grid-template-rows:"+calmTracks(t, "gr"))
	}
	opt := func(p int, prop string, vals ...string) {
		if rapid.IntRange(0, p).Draw(t, "has-"+prop) == 0 {
			cs = append(cs, prop+":"+rapid.SampledFrom(vals).Draw(t, prop))
		}
	}
	opt(3, "grid-auto-flow", "row", "column", "row dense", "column dense", "dense")
	opt(3, "grid-auto-columns", "auto", "50px", "1fr", "min-content", "minmax(10px,1fr)", "30px 60px")
	opt(3, "grid-auto-rows", "auto", "30px", "1fr", "max-content", "minmax(10px,auto)", "20px 40px")
	opt(2, "gap", "0", "5px", "10px 20px", "2%", "1em")
	opt(3, "justify-items", "stretch", "start", "end", "center")
	opt(3, "align-items", "stretch", "start", "end", "center", "baseline")
	opt(3, "justify-content", "start", "end", "center", "stretch", "space-between", "space-around", "space-evenly")
	opt(3, "align-content", "start", "end", "center", "stretch", "space-between", "space-around", "space-evenly")
	if rapid.IntRange(0, 1).Draw(t, "cw") == 0 {
		cs = append(cs, "width:"+calmLen(t, "gcw", true))
	}
	if rapid.IntRange(0, 2).Draw(t, "ch") == 0 {
		cs = append(cs, "height:"+calmLen(t, "gch", true))
	}
	var b strings.Builder
	b.WriteString("<div style=\"" + strings.Join(cs, ";") + "\">")
	n := rapid.IntRange(1, 6).Draw(t, "nitems")
	line := []string{"auto", "1", "2", "3", "4", "-1", "-2", "span 2", "span 3", "1 / 3", "2 / span 2", "1 / -1", "3 / 2", "span 2 / 3", "2 / 2"}
	for i := 0; i < n; i++ {
		ds := calmBoxDecls(t)
		if rapid.IntRange(0, 1).Draw(t, "gcol") == 0 {
			ds = append(ds, "grid-column:"+rapid.SampledFrom(line).Draw(t, "gcv"))
		}
		if rapid.IntRange(0, 2).Draw(t, "grow") == 0 {
			ds = append(ds, "grid-row:"+rapid.SampledFrom(line).Draw(t, "grv"))
		}
		if rapid.IntRange(0, 5).Draw(t, "js") == 0 {
			ds = append(ds, "justify-self:"+rapid.SampledFrom([]string{"stretch", "start", "end", "center"}).Draw(t, "jsv"))
		}
		if rapid.IntRange(0, 5).Draw(t, "as") == 0 {
			ds = append(ds, "align-self:"+rapid.SampledFrom([]string{"stretch", "start", "end", "center"}).Draw(t, "asv"))
		}
		b.WriteString("<div style=\"" + strings.Join(ds, ";") + "\">" + calmItemContent(t, depth) + "</div>")
	}
	b.WriteString("</div>")
	return b.String()
}

func calmTable(t *rapid.T, depth int) string {
	cs := []string{}
	opt := func(p int, prop string, vals ...string) {
		if rapid.IntRange(0, p).Draw(t, "has-"+prop) == 0 {
			cs = append(cs, prop+":"+rapid.SampledFrom(vals).Draw(t, prop))
		}
	}
	opt(1, "width", "auto", "100%", "50%", "300px", "50px", "0", "1000px")
	opt(2, "table-layout", "auto", "fixed")
	opt(2, "border-collapse", "collapse", "separate")
	opt(3, "border-spacing", "0", "2px", "5px 10px")
	opt(3, "border", "1px solid", "3px double", "0")
	opt(5, "height", "auto", "100px", "50%")
	var b strings.Builder
	b.WriteString("<table style=\"" + strings.Join(cs, ";") + "\">")
	if rapid.IntRange(0, 5).Draw(t, "cap") == 0 {
		b.WriteString("<caption style=\"caption-side:" + rapid.SampledFrom([]string{"top", "bottom"}).Draw(t, "caps") + "\">" + calmText(t, 4) + "</caption>")
	}
	if rapid.IntRange(0, 4).Draw(t, "cols") == 0 {
		b.WriteString("<col style=\"width:" + calmLen(t, "colw", true) + "\"><col span=\"2\" style=\"width:" + calmLen(t, "colw2", true) + "\">")
	}
	rows := rapid.IntRange(1, 3).Draw(t, "rows")
	for r := 0; r < rows; r++ {
		b.WriteString("<tr>")
		cells := rapid.IntRange(1, 4).Draw(t, "cells")
		for c := 0; c < cells; c++ {
			attrs := ""
			if rapid.IntRange(0, 4).Draw(t, "csp") == 0 {
				attrs += fmt.Sprintf(" colspan=\"%d\"", rapid.IntRange(2, 3).Draw(t, "cspv"))
			}
			if rapid.IntRange(0, 5).Draw(t, "rsp") == 0 {
				attrs += fmt.Sprintf(" rowspan=\"%d\"", rapid.IntRange(0, 3).Draw(t, "rspv"))
			}
			ds := []string{}
			if rapid.IntRange(0, 2).Draw(t, "cwd") == 0 {
				ds = append(ds, "width:"+calmLen(t, "cw", true))
			}
			if rapid.IntRange(0, 4).Draw(t, "cht") == 0 {
				ds = append(ds, "height:"+calmLen(t, "chh", true))
			}
			if rapid.IntRange(0, 4).Draw(t, "cbd") == 0 {
				ds = append(ds, "border:"+rapid.SampledFrom([]string{"1px solid", "4px solid red", "2px hidden", "none"}).Draw(t, "cbdv"))
			}
			if rapid.IntRange(0, 4).Draw(t, "cpd") == 0 {
				ds = append(ds, "padding:"+rapid.SampledFrom([]string{"0", "5px", "10%"}).Draw(t, "cpdv"))
			}
			if rapid.IntRange(0, 5).Draw(t, "cva") == 0 {
				ds = append(ds, "vertical-align:"+rapid.SampledFrom([]string{"top", "middle", "bottom", "baseline"}).Draw(t, "cvav"))
			}
			tag := rapid.SampledFrom([]string{"td", "td", "td", "th"}).Draw(t, "ctag")
			b.WriteString("<" + tag + attrs + " style=\"" + strings.Join(ds, ";") + "\">" + calmItemContent(t, depth) + "</" + tag + ">")
		}
		b.WriteString("</tr>")
	}
	b.WriteString("</table>")
	return b.String()
}

func calmColumns(t *rapid.T, depth int) string {
	cs := []string{}
	switch rapid.IntRange(0, 2).Draw(t, "ck") {
	case 0:
		cs = append(cs, "column-count:"+rapid.SampledFrom([]string{"1", "2", "3", "5"}).Draw(t, "cc"))
	case 1:
		cs = append(cs, "column-width:"+rapid.SampledFrom([]string{"50px", "100px", "300px", "5em", "1px"}).Draw(t, "cwv"))
	default:
		cs = append(cs, "columns:"+rapid.SampledFrom([]string{"2 100px", "3", "80px", "auto 2", "4 20px"}).Draw(t, "cols"))
	}
	opt := func(p int, prop string, vals ...string) {
		if rapid.IntRange(0, p).Draw(t, "has-"+prop) == 0 {
			cs = append(cs, prop+":"+rapid.SampledFrom(vals).Draw(t, prop))
		}
	}
	opt(2, "column-gap", "0", "10px", "normal", "5%", "2em")
	opt(3, "column-fill", "auto", "balance")
	opt(3, "column-rule", "1px solid", "5px ridge red", "none")
	opt(2, "height", "auto", "50px", "100px", "300px")
	opt(2, "width", "auto", "100px", "300px", "50%")
	var b strings.Builder
	b.WriteString("<div style=\"" + strings.Join(cs, ";") + "\">")
	n := rapid.IntRange(1, 5).Draw(t, "nitems")
	for i := 0; i < n; i++ {
		ds := []string{}
		if rapid.IntRange(0, 5).Draw(t, "span") == 0 {
			ds = append(ds, "column-span:all")
		}
		if rapid.IntRange(0, 4).Draw(t, "brk") == 0 {
			ds = append(ds, rapid.SampledFrom([]string{"break-before:column", "break-after:column", "break-inside:avoid", "break-inside:avoid-column", "break-before:avoid"}).Draw(t, "brkv"))
		}
		if rapid.IntRange(0, 3).Draw(t, "ph") == 0 {
			ds = append(ds, "height:"+calmLen(t, "ph", true))
		}
		if rapid.IntRange(0, 4).Draw(t, "pm") == 0 {
			ds = append(ds, "margin:"+rapid.SampledFrom([]string{"0", "10px 0", "1em", "-5px 0"}).Draw(t, "pmv"))
		}
		b.WriteString("<p style=\"" + strings.Join(ds, ";") + "\">" + calmText(t, 12) + "</p>")
	}
	b.WriteString("</div>")
	return b.String()
}

func calmInline(t *rapid.T, depth int) string {
	cs := []string{}
	opt := func(p int, prop string, vals ...string) {
		if rapid.IntRange(0, p).Draw(t, "has-"+prop) == 0 {
			cs = append(cs, prop+":"+rapid.SampledFrom(vals).Draw(t, prop))
		}
	}
	opt(1, "width", "auto", "0", "10px", "50px", "120px", "300px", "50%")
	opt(2, "text-align", "left", "right", "center", "justify", "start", "end")
	opt(3, "white-space", "normal", "nowrap", "pre", "pre-wrap", "pre-line", "break-spaces")
	opt(4, "text-indent", "0", "20px", "-10px", "10%", "5em")
	opt(4, "word-spacing", "0", "5px", "-2px")
	opt(4, "letter-spacing", "normal", "2px", "-1px")
	opt(4, "line-height", "normal", "1", "2", "30px", "0")
	opt(4, "overflow-wrap", "normal", "break-word", "anywhere")
	opt(5, "word-break", "normal", "break-all")
	opt(5, "hyphens", "none", "manual", "auto")
	opt(5, "font-size", "0", "5px", "16px", "40px")
	opt(6, "text-overflow", "clip", "ellipsis")
	opt(6, "direction", "ltr", "rtl")
	var b strings.Builder
	b.WriteString("<p lang=\"en\" style=\"" + strings.Join(cs, ";") + "\">")
	n := rapid.IntRange(1, 6).Draw(t, "nitems")
	for i := 0; i < n; i++ {
		switch rapid.IntRange(0, 7).Draw(t, "ik") {
		case 0:
			b.WriteString("<span style=\"" + rapid.SampledFrom([]string{"", "padding:0 5px", "border:2px solid", "margin:0 10px", "font-size:30px", "vertical-align:super", "vertical-align:10px", "vertical-align:middle", "position:relative;top:3px", "white-space:nowrap", "font-weight:bold"}).Draw(t, "sp") + "\">" + calmText(t, 4) + "</span>")
		case 1:
			b.WriteString("<span style=\"display:inline-block;" + strings.Join(calmBoxDecls(t), ";") + "\">" + calmItemContent(t, depth) + "</span>")
		case 2:
			b.WriteString("<br>")
		case 3:
			b.WriteString("<span style=\"float:" + rapid.SampledFrom([]string{"left", "right"}).Draw(t, "fl") + ";width:" + calmLen(t, "flw", true) + "\">" + calmText(t, 2) + "</span>")
		case 4:
			b.WriteString("<span><span>" + calmText(t, 3) + "</span> " + calmText(t, 2) + "</span>")
		default:
			b.WriteString(calmText(t, 6) + " ")
		}
	}
	b.WriteString("</p>")
	return b.String()
}

func calmFloats(t *rapid.T, depth int) string {
	cs := []string{}
	if rapid.IntRange(0, 1).Draw(t, "cw") == 0 {
		cs = append(cs, "width:"+calmLen(t, "flcw", true))
	}
	if rapid.IntRange(0, 3).Draw(t, "bfc") == 0 {
		cs = append(cs, rapid.SampledFrom([]string{"overflow:hidden", "display:flow-root", "position:relative", "float:left"}).Draw(t, "bfcv"))
	}
	var b strings.Builder
	b.WriteString("<div style=\"" + strings.Join(cs, ";") + "\">")
	n := rapid.IntRange(1, 6).Draw(t, "nitems")
	for i := 0; i < n; i++ {
		ds := calmBoxDecls(t)
		switch rapid.IntRange(0, 5).Draw(t, "fk") {
		case 0, 1:
			ds = append(ds, "float:left")
		case 2:
			ds = append(ds, "float:right")
		case 3:
			ds = append(ds, "clear:"+rapid.SampledFrom([]string{"left", "right", "both"}).Draw(t, "clr"))
		case 4:
			ds = append(ds, "position:absolute", rapid.SampledFrom([]string{"top:0;left:0", "right:0;bottom:0", "left:10px;right:10px", "top:10%;bottom:10%", "left:auto", "inset:5px"}).Draw(t, "abs"))
		}
		b.WriteString("<div style=\"" + strings.Join(ds, ";") + "\">" + calmItemContent(t, depth) + "</div>")
	}
	b.WriteString("</div>")
	return b.String()
}

func calmContainer(t *rapid.T, depth int) string {
	switch rapid.IntRange(0, 9).Draw(t, "ckind") {
	case 0, 1, 2:
		return calmFlex(t, depth)
	case 3, 4:
		return calmGrid(t, depth)
	case 5, 6:
		return calmTable(t, depth)
	case 7:
		return calmColumns(t, depth)
	case 8:
		return calmInline(t, depth)
	default:
		return calmFloats(t, depth)
	}
}

// GenCalmDoc generates one ordinary document (see the comment at the top of this file).
func GenCalmDoc(t *rapid.T) Doc {
	var d Doc
	page := rapid.SampledFrom([]string{"@page{size:800px 1100px;margin:20px}", "@page{size:A4;margin:2cm}", "@page{size:600px 800px;margin:10px 30px}"}).Draw(t, "page")
	var body strings.Builder
	n := rapid.IntRange(1, 3).Draw(t, "ncont")
	for i := 0; i < n; i++ {
		body.WriteString(calmContainer(t, 1))
	}
	d.HasStyle = true
	if rapid.IntRange(0, 3).Draw(t, "firstletter") == 0 {
		page += rapid.SampledFrom([]string{"p::first-letter{color:red}", "p::first-letter{font-size:2em}", "p::first-letter{float:left;font-size:2em}", "div::first-letter{font-weight:bold}"}).Draw(t, "flrule")
	}
	d.HTML = "<!DOCTYPE html><html><head><style>" + page + "</style></head><body>" + body.String() + "</body></html>"
	d.Engine = rapid.SampledFrom([]string{"pango", "pango", "gotext"}).Draw(t, "engine")
	d.Zoom = 1
	return d
}
