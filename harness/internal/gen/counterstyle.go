package gen

import (
	"pgregory.net/rapid"

	cs "verif/harness/internal/ref/counterstyle"
)

// GenCounterStyle generates a valid @counter-style definition (see property C19).
func GenCounterStyle(t *rapid.T, name string) *cs.Style {
	s := &cs.Style{Name: name}
	s.System = rapid.SampledFrom([]string{"cyclic", "fixed", "symbolic", "alphabetic", "numeric", "additive", "additive", "extends", ""}).Draw(t, "system")
	symPool := []string{"a", "b", "c", "*", "é", "ab", "0", "1", "-", "x y", "好"}
	nsym := func(min int) {
		n := rapid.IntRange(min, 4).Draw(t, "nsym")
		for i := 0; i < n; i++ {
			sy := rapid.SampledFrom(symPool).Draw(t, "sym")
			s.Symbols = append(s.Symbols, sy)
			ident := rapid.IntRange(0, 4).Draw(t, "ident") == 0 && (sy == "a" || sy == "b" || sy == "c" || sy == "ab" || sy == "é")
			s.Idents = append(s.Idents, ident)
		}
	}
	switch s.System {
	case "cyclic", "symbolic", "":
		nsym(1)
	case "fixed":
		nsym(1)
		if rapid.Bool().Draw(t, "hasfirst") {
			s.HasFirst = true
			s.First = rapid.IntRange(-3, 5).Draw(t, "first")
		}
	case "alphabetic", "numeric":
		nsym(2)
	case "additive":
		weights := []int{100, 50, 10, 9, 5, 4, 2, 1, 0}
		n := rapid.IntRange(1, 5).Draw(t, "nadd")
		if n == 1 && rapid.IntRange(0, 4).Draw(t, "keepsingle") != 0 {
			n = 2 // single-tuple additive styles are a listed finding: keep them to a small share
		}
		start := rapid.IntRange(0, len(weights)-1).Draw(t, "wstart")
		for i := start; i < len(weights) && len(s.Additive) < n; i++ {
			if rapid.IntRange(0, 2).Draw(t, "skipw") == 0 && len(s.Additive) > 0 {
				continue
			}
			s.Additive = append(s.Additive, cs.Tuple{W: weights[i], S: rapid.SampledFrom(symPool).Draw(t, "asym")})
		}
	case "extends":
		s.Extends = rapid.SampledFrom([]string{"s0", "s1", "s2", "decimal", "lower-roman", "upper-alpha", "nope", "lower-greek", "disc"}).Draw(t, "ext")
	}
	if rapid.IntRange(0, 2).Draw(t, "hasrange") == 0 {
		if rapid.IntRange(0, 3).Draw(t, "auto") == 0 {
			s.RangeAuto = true
		} else {
			n := rapid.IntRange(1, 2).Draw(t, "nrange")
			for i := 0; i < n; i++ {
				lo := int64(rapid.IntRange(-6, 12).Draw(t, "lo"))
				hi := lo + int64(rapid.IntRange(0, 8).Draw(t, "span"))
				switch rapid.IntRange(0, 5).Draw(t, "inf") {
				case 0:
					lo = cs.NegInf
				case 1:
					hi = cs.PosInf
				}
				s.Range = append(s.Range, [2]int64{lo, hi})
			}
		}
	}
	if rapid.IntRange(0, 2).Draw(t, "haspad") == 0 {
		s.HasPad = true
		s.PadN = rapid.IntRange(0, 6).Draw(t, "padn")
		s.PadS = rapid.SampledFrom([]string{"0", " ", "é", "ab", "_"}).Draw(t, "pads")
	}
	if rapid.IntRange(0, 2).Draw(t, "hasneg") == 0 {
		s.HasNeg = true
		s.Neg = []string{rapid.SampledFrom([]string{"-", "(", "−", "minus "}).Draw(t, "neg0")}
		if rapid.Bool().Draw(t, "neg2") {
			s.Neg = append(s.Neg, rapid.SampledFrom([]string{")", "!", "é"}).Draw(t, "neg1"))
		}
	}
	if rapid.IntRange(0, 3).Draw(t, "haspre") == 0 {
		p := rapid.SampledFrom([]string{"", "[", "§ "}).Draw(t, "pre")
		s.Prefix = &p
	}
	if rapid.IntRange(0, 3).Draw(t, "hassuf") == 0 {
		p := rapid.SampledFrom([]string{"", "]", ") ", ": "}).Draw(t, "suf")
		s.Suffix = &p
	}
	if rapid.IntRange(0, 1).Draw(t, "hasfb") == 0 {
		s.Fallback = rapid.SampledFrom([]string{"s0", "s1", "s2", "decimal", "lower-roman", "upper-alpha", "nope", "lower-alpha"}).Draw(t, "fb")
	}
	return s
}
