package gen

import (
	"strings"

	"pgregory.net/rapid"
)

// SelectorText returns the text of a (mostly valid) selector group; used where only
// robustness matters. Property C05 uses the AST generator of internal/selgen instead.
func SelectorText(t *rapid.T) string {
	n := rapid.IntRange(1, 3).Draw(t, "ngroup")
	var parts []string
	for i := 0; i < n; i++ {
		parts = append(parts, complexSel(t, 2))
	}
	return strings.Join(parts, rapid.SampledFrom([]string{",", ", ", " , "}).Draw(t, "gsep"))
}

func complexSel(t *rapid.T, depth int) string {
	n := rapid.IntRange(1, 3).Draw(t, "ncomp")
	var b strings.Builder
	for i := 0; i < n; i++ {
		if i > 0 {
			b.WriteString(rapid.SampledFrom([]string{" ", ">", " > ", "+", " ~ ", "  "}).Draw(t, "comb"))
		}
		b.WriteString(compoundSel(t, depth))
	}
	return b.String()
}

func compoundSel(t *rapid.T, depth int) string {
	var b strings.Builder
	b.WriteString(rapid.SampledFrom([]string{"", "", "*", "div", "p", "a", "LI", "x-foo", "ns|a", "*|*", "|a", "\\31 a"}).Draw(t, "type"))
	n := rapid.IntRange(0, 3).Draw(t, "nsimple")
	if b.Len() == 0 && n == 0 {
		n = 1
	}
	for i := 0; i < n; i++ {
		switch rapid.IntRange(0, 7).Draw(t, "sk") {
		case 0:
			b.WriteString("." + rapid.SampledFrom([]string{"b", "c", "\\31", "-x", "é", "--"}).Draw(t, "cls"))
		case 1:
			b.WriteString("#" + rapid.SampledFrom([]string{"a", "b", "\\31 0", "-"}).Draw(t, "idv"))
		case 2:
			b.WriteString("[" + rapid.SampledFrom([]string{"x", "lang", "class", "href", "X", "a|b", "*|x"}).Draw(t, "an") +
				rapid.SampledFrom([]string{"", "=y", "~=y", "|=en", "^=y", "$=z", "*=\" \"", "=\"\"", "^=\"\"", "~=\"\"", "=\"y z\" i", "=y s", "=\"a\\\"b\"", "=", "=1"}).Draw(t, "aop") + "]")
		case 3:
			b.WriteString(":" + rapid.SampledFrom([]string{"first-child", "last-child", "only-child", "first-of-type", "last-of-type", "only-of-type", "root", "empty", "link", "hover", "checked", "disabled", "enabled", "visited", "target", "focus", "active", "lang(en)", "lang()", "foo", "FIRST-CHILD"}).Draw(t, "pc"))
		case 4:
			b.WriteString(":" + rapid.SampledFrom([]string{"nth-child", "nth-last-child", "nth-of-type", "nth-last-of-type"}).Draw(t, "nthk") + "(" +
				rapid.SampledFrom([]string{"2n+1", "odd", "even", "3", "-n+2", "n", "2n", "+n-1", " 2n + 1 ", "0", "-1", "n of .b", "", "x"}).Draw(t, "nthv") + ")")
		case 5:
			if depth > 0 {
				b.WriteString(":" + rapid.SampledFrom([]string{"not", "is", "has", "where", "matches"}).Draw(t, "fnpc") + "(" + rapid.SampledFrom([]string{"", " ", "> ", "+ "}).Draw(t, "rel") + complexSel(t, depth-1) +
					rapid.SampledFrom([]string{"", "", ", " + "p"}).Draw(t, "more") + ")")
			} else {
				b.WriteString(":not(p)")
			}
		case 6:
			b.WriteString("::" + rapid.SampledFrom([]string{"before", "after", "marker", "first-line", "first-letter", "footnote-call", "foo", "BEFORE"}).Draw(t, "pe"))
		default:
			b.WriteString(rapid.SampledFrom([]string{":before", ":after", "&", ":", "::", "[", "(", ".", "#", "\\", "|", "*"}).Draw(t, "odd"))
		}
	}
	return b.String()
}
