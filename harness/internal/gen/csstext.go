// Package gen holds the rapid generators shared by the property modules.
package gen

import (
	"fmt"
	"strings"

	"pgregory.net/rapid"
)

// hostile fragments for the CSS tokenizer / parser
var cssFragments = []string{
	" ", "  ", "\n", "\t", "\r", "\r\n", "\f", ";", ":", ",", "{", "}", "(", ")", "[", "]",
	"/*", "*/", "/**/", "/* c */", "/", "*", "\"", "'", "\\", "\\\n", "\\41 ", "\\41", "\\0", "\\110000 ", "\\d800 ", "\\000041", "\\g", "\\-", "\\ ",
	"url(", "url( ", "url(\"", "url('", "URL(", "url(a", "url(a b)", "url(a\"b)", "url(a(b)", "url(\\)", "url()", "uRl(x)",
	"0", "1", "12", "3.5", ".5", "5.", "+1", "-1", "+.5", "-.5", "1e3", "1E3", "1e+3", "1e-3", "1e", "1e+", "1.e3", "1E", "e3", "0.0", "00", "1e39", "1e-50",
	"%", "#", "@", "-", "--", "-->", "<!--", "<", "!", "!important", "! important", "!IMPORTANT", "=", "~=", "|=", "^=", "$=", "*=", "||", "|", "~", "^", "$", "+", ".", ">", "?", "&",
	"u+1", "U+1", "u+1-2", "u+1-02", "U+0-F", "u+10-00000a", "u+1?", "U+??????", "u+0000001", "u+z", "u+", "u", "U+110000", "u+a-", "u+1-z",
	"\x00", "\x01", "\x7f", "\x0b", "é", " ", " ", "\U0001F600", "�", "_", "a", "b", "e", "E", "x", "px", "em", "PX", "n", "-n", "2n+1",
	"ident", "-ident", "--x", "-\\-", "a\\.b", "#id", "#1a", "#-", "#--", "#-1", "#\\31", "@media", "@-x", "@--", "@1", "@\\31", "f(", "calc(", "rgb(", "var(--x)", "-f(", "--f(",
	"color", "red", "margin", "10px", "1em", "50%", "1x", "1e1x", "1-2", "1_", "1--", "1-a", "1\\65 ", "1e\\33 ",
	"\"abc\"", "'abc'", "\"a\\\"b\"", "\"a\nb\"", "\"a\\\nb\"", "'a\\", "\"\\",
}

func identChar(t *rapid.T) string {
	return rapid.SampledFrom([]string{"a", "b", "z", "A", "e", "E", "u", "U", "n", "x", "_", "-", "0", "1", "9", "é", "\U0001F600", "\\41 ", "\\.", "\\31 ", "\\-", "\\\\"}).Draw(t, "ic")
}

func Ident(t *rapid.T) string {
	n := rapid.IntRange(1, 5).Draw(t, "n")
	var b strings.Builder
	for i := 0; i < n; i++ {
		b.WriteString(identChar(t))
	}
	return b.String()
}

func NumberText(t *rapid.T) string {
	sign := rapid.SampledFrom([]string{"", "", "+", "-"}).Draw(t, "sign")
	ip := rapid.SampledFrom([]string{"", "0", "1", "12", "007", "999999999999"}).Draw(t, "ip")
	fp := rapid.SampledFrom([]string{"", "", ".0", ".5", ".25", ".000001"}).Draw(t, "fp")
	if ip == "" && fp == "" {
		ip = "3"
	}
	ex := rapid.SampledFrom([]string{"", "", "", "e2", "E2", "e+2", "e-2", "e0", "E-10", "e38", "e39"}).Draw(t, "ex")
	return sign + ip + fp + ex
}

// escAtom returns one character of a name/string/url body, often written as an escape,
// drawn from an alphabet that reaches every escaping table of the serializer.
func escAtom(t *rapid.T) string {
	switch rapid.IntRange(0, 5).Draw(t, "ek") {
	case 0:
		return rapid.SampledFrom([]string{"a", "b", "e", "E", "u", "U", "x", "-", "_", "0", "7", "é", "\U0001F600"}).Draw(t, "plain")
	case 1: // hex escape of an interesting code point, with the optional terminating space
		cp := rapid.SampledFrom([]int{1, 8, 9, 0xa, 0xb, 0xc, 0xd, 0xe, 0x1f, 0x20, 0x21, 0x22, 0x27, 0x28, 0x29, 0x2d, 0x2f, 0x30, 0x39, 0x41, 0x5c, 0x65, 0x7f, 0x80, 0xa0, 0xe9, 0x2028, 0xfffd, 0x1f600, 0, 0xd800, 0x110000}).Draw(t, "cp")
		pad := rapid.SampledFrom([]string{"%x ", "%X ", "%06x", "%x\n", "%x\t"}).Draw(t, "pad")
		return "\\" + fmt.Sprintf(pad, cp)
	case 2: // simple escape
		return "\\" + rapid.SampledFrom([]string{"\"", "'", "(", ")", "\\", " ", "-", ".", "g", "!", "~", "{", ";", "é", "\t"}).Draw(t, "simple")
	default:
		return rapid.SampledFrom([]string{"a", "z", "Q", "-", "_", "1"}).Draw(t, "plain2")
	}
}

// EscBody returns a body of 1..5 atoms.
func EscBody(t *rapid.T) string {
	n := rapid.IntRange(1, 5).Draw(t, "nb")
	var b strings.Builder
	for i := 0; i < n; i++ {
		b.WriteString(escAtom(t))
	}
	return b.String()
}

// RichToken returns the text of one token whose value contains escaped characters.
func RichToken(t *rapid.T) string {
	body := EscBody(t)
	switch rapid.IntRange(0, 11).Draw(t, "tk") {
	case 10, 11:
		// a bad url: white space inside the unquoted value, then remnants that may hold escapes (an escaped
		// ")" does not end it)
		return "url(" + body + rapid.SampledFrom([]string{" ", "\n", "\t ", "  "}).Draw(t, "uws") + EscBody(t) + rapid.SampledFrom([]string{")", " )", ") x", " " + "b) c"}).Draw(t, "uend")
	case 0:
		return "\"" + body + "\""
	case 1:
		return "'" + body + "'"
	case 2:
		return "url(" + body + ")"
	case 3:
		return "#" + body
	case 4:
		return "@" + body
	case 5:
		return body + "(" + rapid.SampledFrom([]string{"", "1", "a,b", "\"x\""}).Draw(t, "fa") + ")"
	case 6:
		return NumberText(t) + body
	case 7:
		return "url( \"" + body + "\" )"
	default:
		return body
	}
}

// CSSHostile returns a string built from hostile fragments, identifiers and numbers.
func CSSHostile(t *rapid.T, maxFrag int) string {
	n := rapid.IntRange(1, maxFrag).Draw(t, "nfrag")
	var b strings.Builder
	for i := 0; i < n; i++ {
		switch rapid.IntRange(0, 9).Draw(t, "k") {
		case 0:
			b.WriteString(Ident(t))
		case 1:
			b.WriteString(NumberText(t))
		case 2:
			b.WriteString(NumberText(t))
			b.WriteString(rapid.SampledFrom([]string{"%", "px", "e", "E", "e3", "E-3", "e-", "-x", "--", "\\65 ", "n", "x"}).Draw(t, "unit"))
		case 3:
			b.WriteString(rapid.StringN(1, 3, -1).Draw(t, "junk"))
		case 4, 5:
			b.WriteString(RichToken(t))
		default:
			b.WriteString(rapid.SampledFrom(cssFragments).Draw(t, "frag"))
		}
	}
	return b.String()
}

// ---- well-formed CSS with one injected error

var propNames = []string{"color", "margin", "width", "background", "font", "--x", "content", "border", "COLOR", "-webkit-foo", "unknown-prop"}

func simpleValue(t *rapid.T) string {
	n := rapid.IntRange(1, 4).Draw(t, "nv")
	var parts []string
	for i := 0; i < n; i++ {
		parts = append(parts, rapid.SampledFrom([]string{"red", "10px", "1em", "50%", "0", "auto", "\"str\"", "url(x.png)", "url(\"y\")", "rgb(1,2,3)", "calc(1px + 2%)", "var(--x, 3px)", "#fff", "1.5e2", "U+26", "[a]", "(b)", "{c}", "a/b", "x,y", "'q'", "\\41 b", "-1e-2px"}).Draw(t, "v"))
	}
	return strings.Join(parts, rapid.SampledFrom([]string{" ", " ", "  ", "/**/", ",", " / ", "\n"}).Draw(t, "sep"))
}

func Declaration(t *rapid.T) string {
	name := rapid.SampledFrom(propNames).Draw(t, "name")
	imp := rapid.SampledFrom([]string{"", "", "", " !important", "!important", " ! important", " !IMPORTANT", " !important "}).Draw(t, "imp")
	ws := rapid.SampledFrom([]string{"", " ", "/**/", "\n"}).Draw(t, "ws")
	return name + ws + ":" + ws + simpleValue(t) + imp
}

var cssErrors = []string{
	"\"unterminated", "'unterminated", "\"bad\nstring\"", "url(bad url)", "url(bad\"url)", "url(unterminated", "url(\"unterminated", "/* unterminated", "{", "(", "[", "f(",
	"}", ")", "]", "color red", "color:", ":red", "!important", "color:red !", "color:red !x", "color:red !important x", "color:{}", "{}:x", "@", "@x", "@x;", "@x{", "@x{}", "@x y{z}",
	"color:red !important!important", ";;", ";", "x{y}", "&:hover{a:b}", "a:b{c:d}", "\\", "-", "-\\", "--", "<!--", "-->", "#", "@import \"x\"", "@import url(x);", "@media print{a{b:c}}",
	"@charset \"utf-8\";", "!", "color:red;;width:1px", "1", "1px:2", "*{}", ",{}", "a,{b:c}", "a{b:c;}}", "]{a:b}", "){a:b}",
}

func DeclarationList(t *rapid.T, withError bool) string {
	n := rapid.IntRange(1, 5).Draw(t, "ndecl")
	errAt := -1
	if withError {
		errAt = rapid.IntRange(0, n).Draw(t, "errAt")
	}
	var parts []string
	for i := 0; i <= n; i++ {
		if i == errAt {
			parts = append(parts, rapid.SampledFrom(cssErrors).Draw(t, "err"))
		}
		if i < n {
			parts = append(parts, Declaration(t))
		}
	}
	sep := rapid.SampledFrom([]string{";", "; ", ";\n", " ; "}).Draw(t, "dsep")
	return strings.Join(parts, sep)
}

var selTexts = []string{"a", "p", ".c", "#i", "a b", "a>b", "a, b", "*", "[x=y]", "a:hover", "a::before", "@x", ":is(a,b)", "a{", "\"s\"", "url(x)", "&", "& b", "a[", "a(", "1", "-", "\\"}

func Rule(t *rapid.T, depth int, withError *bool) string {
	k := rapid.IntRange(0, 9).Draw(t, "rk")
	inject := func() string {
		if withError != nil && *withError && rapid.IntRange(0, 3).Draw(t, "inj") == 0 {
			*withError = false
			return rapid.SampledFrom(cssErrors).Draw(t, "rerr")
		}
		return ""
	}
	switch {
	case k <= 5 || depth <= 0:
		sel := rapid.SampledFrom(selTexts).Draw(t, "sel")
		body := DeclarationList(t, false)
		if e := inject(); e != "" {
			body = e + ";" + body
		}
		if depth > 0 && rapid.IntRange(0, 4).Draw(t, "nest") == 0 {
			body += ";" + Rule(t, depth-1, withError)
		}
		return sel + inject() + "{" + body + "}"
	case k == 6:
		return "@media " + rapid.SampledFrom([]string{"print", "screen", "all and (min-width:1px)", "(", "x\"y\""}).Draw(t, "mq") + "{" + Rule(t, depth-1, withError) + inject() + "}"
	case k == 7:
		return "@import " + rapid.SampledFrom([]string{"\"a.css\"", "url(a.css)", "url(\"a.css\") print", "x"}).Draw(t, "imp") + inject() + ";"
	case k == 8:
		return "@page " + rapid.SampledFrom([]string{"", ":first", "name", "name:left", ":nth(2n+1)"}).Draw(t, "ps") + "{" + DeclarationList(t, false) + ";@top-left{" + Declaration(t) + "}}"
	default:
		return "@font-face{" + DeclarationList(t, false) + "}" + inject()
	}
}

// Stylesheet generates a mostly well-formed stylesheet, optionally with one injected error
// followed by valid constructs.
func Stylesheet(t *rapid.T, withError bool) string {
	n := rapid.IntRange(1, 4).Draw(t, "nrules")
	we := withError
	var parts []string
	for i := 0; i < n; i++ {
		parts = append(parts, Rule(t, 2, &we))
	}
	if we { // not injected yet
		i := rapid.IntRange(0, len(parts)).Draw(t, "ei")
		e := rapid.SampledFrom(cssErrors).Draw(t, "e")
		parts = append(parts[:i], append([]string{e}, parts[i:]...)...)
	}
	return strings.Join(parts, rapid.SampledFrom([]string{"", " ", "\n", "/**/", "<!--", "-->"}).Draw(t, "rsep"))
}

// CSSText mixes the three sources.
func CSSText(t *rapid.T) (string, string) {
	switch rapid.IntRange(0, 9).Draw(t, "src") {
	case 0, 1, 2, 3:
		return CSSHostile(t, 10), "hostile"
	case 4:
		return DeclarationList(t, true), "decls+error"
	case 5:
		return DeclarationList(t, false), "decls"
	case 6, 7:
		return Stylesheet(t, true), "sheet+error"
	case 8:
		return Stylesheet(t, false), "sheet"
	default:
		// mutation: a well-formed text with a hostile fragment spliced in
		s := Stylesheet(t, false)
		r := []rune(s)
		i := rapid.IntRange(0, len(r)).Draw(t, "cut")
		frag := rapid.SampledFrom(cssFragments).Draw(t, "mfrag")
		if rapid.Bool().Draw(t, "truncate") {
			return string(r[:i]) + frag, "mutated-truncated"
		}
		return string(r[:i]) + frag + string(r[i:]), "mutated"
	}
}

func Sprintf(format string, a ...interface{}) string { return fmt.Sprintf(format, a...) }
