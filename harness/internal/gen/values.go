package gen

import (
	"strings"

	"pgregory.net/rapid"
)

var units = []string{"px", "pt", "pc", "in", "cm", "mm", "q", "Q", "em", "rem", "ex", "ch", "vw", "fr", "deg", "rad", "grad", "turn", "dpi", "dpcm", "dppx", "s", "ms", "x", "PX", "foo", "%"}

var funcNames = []string{"var", "attr", "calc", "rgb", "rgba", "hsl", "hsla", "url", "counter", "counters", "linear-gradient", "radial-gradient", "repeating-linear-gradient", "repeating-radial-gradient",
	"repeat", "minmax", "fit-content", "symbols", "string", "content", "target-counter", "target-counters", "target-text", "leader", "element", "running", "translate", "translatex", "translatey", "scale", "scalex", "scaley",
	"rotate", "skew", "skewx", "skewy", "matrix", "cubic-bezier", "steps", "local", "format", "image-set", "env", "min", "max", "clamp", "rect", "inset", "circle", "span", "nth", "RGB", "VAR", "unknown-fn"}

func numberTok(t *rapid.T) string {
	return rapid.SampledFrom([]string{"0", "1", "2", "3", "-1", "10", "100", "0.5", "-0.5", "1.5", "1e3", "1e39", "-1e39", "99999999999", "999999999999999999999", "-0", "+4", ".25", "360", "400", "700", "1000", "1e-7", "7"}).Draw(t, "num")
}

// ValueToken returns the text of one component value of a property value.
func ValueToken(t *rapid.T, depth int) string {
	k := rapid.IntRange(0, 13).Draw(t, "vk")
	switch k {
	case 0, 1, 2:
		return rapid.SampledFrom(CSSKeywords).Draw(t, "kw")
	case 3:
		return numberTok(t)
	case 4, 5:
		return numberTok(t) + rapid.SampledFrom(units).Draw(t, "unit")
	case 6:
		return rapid.SampledFrom([]string{"\"str\"", "''", "\"a b\"", "\"\\\"\"", "'•'", "\" \""}).Draw(t, "str")
	case 7:
		return rapid.SampledFrom([]string{"url(x.png)", "url(\"y.png\")", "url()", "url(data:image/png;base64,AAAA)", "url(#frag)", "url(http://[::1)"}).Draw(t, "url")
	case 8:
		return rapid.SampledFrom([]string{"#fff", "#ffff", "#ffffff", "#ffffffff", "#ggg", "#12", "#abcde", "red", "transparent", "currentcolor", "CurrentColor", "RED"}).Draw(t, "col")
	case 9:
		return rapid.SampledFrom([]string{",", "/", ",", "/", "+", "-", "*", "!", ":", "=", "|", ".", "&", "U+26", "U+0-7F", "<", ">"}).Draw(t, "delim")
	case 10, 11:
		if depth <= 0 {
			return rapid.SampledFrom([]string{"--x", "--y", "inherit", "initial", "unset", "custom-ident", "Custom", "span", "auto"}).Draw(t, "id2")
		}
		name := rapid.SampledFrom(funcNames).Draw(t, "fn")
		n := rapid.IntRange(0, 4).Draw(t, "nargs")
		var args []string
		for i := 0; i < n; i++ {
			args = append(args, ValueToken(t, depth-1))
		}
		sep := rapid.SampledFrom([]string{", ", " ", ",", " , ", " / "}).Draw(t, "asep")
		return name + "(" + strings.Join(args, sep) + ")"
	case 12:
		if depth <= 0 {
			return "[a]"
		}
		open := rapid.SampledFrom([]string{"[]", "()", "{}"}).Draw(t, "blk")
		n := rapid.IntRange(0, 3).Draw(t, "nb")
		var args []string
		for i := 0; i < n; i++ {
			args = append(args, ValueToken(t, depth-1))
		}
		return open[:1] + strings.Join(args, " ") + open[1:]
	default:
		return rapid.SampledFrom([]string{"--x", "--y", "inherit", "initial", "unset", "custom-ident", "Custom", "span", "auto", "none", "normal", "0", "a", "1 1", "top", "left", "center", "bottom", "right"}).Draw(t, "id")
	}
}

// ValueTokens returns the text of a property value of 0..maxTok component values.
func ValueTokens(t *rapid.T, maxTok int) string {
	n := rapid.IntRange(0, maxTok).Draw(t, "nvt")
	var parts []string
	for i := 0; i < n; i++ {
		parts = append(parts, ValueToken(t, 2))
	}
	return strings.Join(parts, rapid.SampledFrom([]string{" ", " ", " ", "", ", ", " / "}).Draw(t, "vsep"))
}
