package gen

import (
	"fmt"
	"strings"

	"pgregory.net/rapid"
)

// A Part is one component value of a declaration value with its spelling class.
type Part struct {
	Text string `json:"t"`
	// Kind: kw (keyword: case-insensitive), dim (number+unit: unit case-insensitive), num, pct, hash, str (case-sensitive),
	// ident (custom ident: case-sensitive), fn (function: name case-insensitive, Args are parts), sep (",", "/")
	Kind string `json:"k"`
	Unit string `json:"u,omitempty"`
	Args []Part `json:"a,omitempty"`
}

// ValidDecl is a declaration generated from the grammar of its property.
type ValidDecl struct {
	Name  string `json:"name"`
	Parts []Part `json:"parts"`
}

func kw(s string) Part  { return Part{Text: s, Kind: "kw"} }
func num(s string) Part { return Part{Text: s, Kind: "num"} }
func dim(n, u string) Part {
	if u == "%" {
		return Part{Text: n + "%", Kind: "pct"}
	}
	return Part{Text: n, Kind: "dim", Unit: u}
}
func sep(s string) Part { return Part{Text: s, Kind: "sep"} }
func fn(name string, args ...Part) Part {
	return Part{Text: name, Kind: "fn", Args: args}
}

var lengthUnits = []string{"px", "pt", "pc", "in", "cm", "mm", "q", "em", "rem", "ex", "ch"}

func genLength(t *rapid.T, allowNeg, allowPct bool) Part {
	n := rapid.SampledFrom([]string{"0", "1", "2", "10", "1.5", ".5", "12", "100", "+3", "1e1"}).Draw(t, "ln")
	if allowNeg && rapid.IntRange(0, 4).Draw(t, "neg") == 0 {
		n = "-" + strings.TrimPrefix(n, "+")
	}
	if allowPct && rapid.IntRange(0, 4).Draw(t, "pct") == 0 {
		return dim(n, "%")
	}
	if n == "0" && rapid.Bool().Draw(t, "unitless0") {
		return num("0")
	}
	return dim(n, rapid.SampledFrom(lengthUnits).Draw(t, "lu"))
}

func genColor(t *rapid.T) Part {
	switch rapid.IntRange(0, 5).Draw(t, "ck") {
	case 0:
		return kw(rapid.SampledFrom([]string{"red", "blue", "transparent", "currentcolor", "rebeccapurple", "black"}).Draw(t, "cn"))
	case 1:
		return Part{Text: rapid.SampledFrom([]string{"#fff", "#a1b2c3", "#abcd", "#11223344"}).Draw(t, "hex"), Kind: "hash"}
	case 2:
		return fn("rgb", num("10"), sep(","), num("20"), sep(","), num("30"))
	case 3:
		return fn("rgba", num("10"), sep(","), num("20"), sep(","), num("30"), sep(","), num("0.5"))
	case 4:
		return fn("hsl", num("120"), sep(","), dim("50", "%"), sep(","), dim("25", "%"))
	default:
		return fn("rgb", dim("10", "%"), sep(","), dim("20", "%"), sep(","), dim("30", "%"))
	}
}

func genAnglePart(t *rapid.T) Part {
	return dim(rapid.SampledFrom([]string{"10", "45", "90", "-30", "0.5", "200"}).Draw(t, "an"), rapid.SampledFrom([]string{"deg", "rad", "grad", "turn"}).Draw(t, "au"))
}

type declGen func(t *rapid.T) []Part

func one(p func(t *rapid.T) Part) declGen { return func(t *rapid.T) []Part { return []Part{p(t)} } }
func kws(list ...string) declGen {
	return func(t *rapid.T) []Part { return []Part{kw(rapid.SampledFrom(list).Draw(t, "kwv"))} }
}

func lengthOr(neg, pct bool, kwlist ...string) declGen {
	return func(t *rapid.T) []Part {
		if len(kwlist) > 0 && rapid.IntRange(0, 3).Draw(t, "usekw") == 0 {
			return []Part{kw(rapid.SampledFrom(kwlist).Draw(t, "lkw"))}
		}
		return []Part{genLength(t, neg, pct)}
	}
}

func boxSides(neg, pct bool, kwlist ...string) declGen {
	return func(t *rapid.T) []Part {
		n := rapid.IntRange(1, 4).Draw(t, "nsides")
		var out []Part
		for i := 0; i < n; i++ {
			out = append(out, lengthOr(neg, pct, kwlist...)(t)...)
		}
		return out
	}
}

var borderStyles = []string{"none", "hidden", "dotted", "dashed", "solid", "double", "groove", "ridge", "inset", "outset"}

// DeclTable maps property names to value generators (grammar transcribed from the CSS property definitions).
var DeclTable = map[string]declGen{}

func init() {
	for _, side := range []string{"top", "right", "bottom", "left"} {
		DeclTable["margin-"+side] = lengthOr(true, true, "auto")
		DeclTable["padding-"+side] = lengthOr(false, true)
		DeclTable["border-"+side+"-width"] = lengthOr(false, false, "thin", "medium", "thick")
		DeclTable["border-"+side+"-style"] = kws(borderStyles...)
		DeclTable["border-"+side+"-color"] = one(genColor)
		DeclTable[side] = lengthOr(true, true, "auto")
	}
	for _, p := range []string{"width", "height"} {
		DeclTable[p] = lengthOr(false, true, "auto")
		DeclTable["min-"+p] = lengthOr(false, true, "auto")
		DeclTable["max-"+p] = lengthOr(false, true, "none")
	}
	DeclTable["margin"] = boxSides(true, true, "auto")
	DeclTable["padding"] = boxSides(false, true)
	DeclTable["border-width"] = boxSides(false, false, "thin", "thick")
	DeclTable["border-style"] = func(t *rapid.T) []Part {
		n := rapid.IntRange(1, 4).Draw(t, "nbs")
		var out []Part
		for i := 0; i < n; i++ {
			out = append(out, kw(rapid.SampledFrom(borderStyles).Draw(t, "bs")))
		}
		return out
	}
	DeclTable["border-color"] = func(t *rapid.T) []Part {
		n := rapid.IntRange(1, 4).Draw(t, "nbc")
		var out []Part
		for i := 0; i < n; i++ {
			out = append(out, genColor(t))
		}
		return out
	}
	borderSide := func(t *rapid.T) []Part {
		var out []Part
		perm := rapid.Permutation([]int{0, 1, 2}).Draw(t, "bperm")
		k := rapid.IntRange(1, 3).Draw(t, "bparts")
		for _, i := range perm[:k] {
			switch i {
			case 0:
				out = append(out, lengthOr(false, false, "thin", "thick")(t)...)
			case 1:
				out = append(out, kw(rapid.SampledFrom(borderStyles).Draw(t, "bst")))
			default:
				out = append(out, genColor(t))
			}
		}
		return out
	}
	for _, p := range []string{"border", "border-top", "border-right", "border-bottom", "border-left", "outline", "column-rule"} {
		DeclTable[p] = borderSide
	}
	DeclTable["color"] = one(genColor)
	DeclTable["background-color"] = one(genColor)
	DeclTable["outline-color"] = one(genColor)
	DeclTable["text-decoration-color"] = one(genColor)
	DeclTable["font-size"] = lengthOr(false, true, "small", "medium", "large", "x-large", "larger", "smaller", "xx-small")
	DeclTable["line-height"] = func(t *rapid.T) []Part {
		switch rapid.IntRange(0, 2).Draw(t, "lh") {
		case 0:
			return []Part{kw("normal")}
		case 1:
			return []Part{num(rapid.SampledFrom([]string{"1", "1.5", "2", "0"}).Draw(t, "lhn"))}
		}
		return []Part{genLength(t, false, true)}
	}
	DeclTable["text-indent"] = lengthOr(true, true)
	DeclTable["letter-spacing"] = lengthOr(true, false, "normal")
	DeclTable["word-spacing"] = lengthOr(true, false, "normal")
	DeclTable["column-gap"] = lengthOr(false, true, "normal")
	DeclTable["column-width"] = lengthOr(false, false, "auto")
	DeclTable["outline-width"] = lengthOr(false, false, "thin", "medium", "thick")
	DeclTable["border-spacing"] = func(t *rapid.T) []Part {
		out := []Part{genLength(t, false, false)}
		if rapid.Bool().Draw(t, "bs2") {
			out = append(out, genLength(t, false, false))
		}
		return out
	}
	DeclTable["display"] = kws("block", "inline", "inline-block", "none", "list-item", "table", "table-cell", "flex", "grid", "inline-flex", "flow-root", "table-row")
	DeclTable["position"] = kws("static", "relative", "absolute", "fixed")
	DeclTable["float"] = kws("left", "right", "none")
	DeclTable["clear"] = kws("left", "right", "both", "none")
	DeclTable["visibility"] = kws("visible", "hidden", "collapse")
	DeclTable["overflow"] = kws("visible", "hidden", "scroll", "auto")
	DeclTable["white-space"] = kws("normal", "pre", "nowrap", "pre-wrap", "pre-line")
	DeclTable["text-align"] = kws("left", "right", "center", "justify", "start", "end")
	DeclTable["text-transform"] = kws("none", "uppercase", "lowercase", "capitalize")
	DeclTable["font-style"] = kws("normal", "italic", "oblique")
	DeclTable["font-weight"] = func(t *rapid.T) []Part {
		if rapid.Bool().Draw(t, "fwn") {
			return []Part{num(rapid.SampledFrom([]string{"100", "400", "700", "900"}).Draw(t, "fw"))}
		}
		return []Part{kw(rapid.SampledFrom([]string{"normal", "bold", "bolder", "lighter"}).Draw(t, "fwk"))}
	}
	DeclTable["box-sizing"] = kws("content-box", "border-box", "padding-box")
	DeclTable["break-before"] = kws("auto", "avoid", "page", "left", "right", "always", "column", "avoid-page")
	DeclTable["break-after"] = kws("auto", "avoid", "page", "left", "right", "always")
	DeclTable["break-inside"] = kws("auto", "avoid", "avoid-page", "avoid-column")
	DeclTable["page-break-before"] = kws("auto", "always", "left", "right", "avoid")
	DeclTable["page-break-inside"] = kws("auto", "avoid")
	DeclTable["list-style-position"] = kws("inside", "outside")
	// counter style names are custom identifiers: never case-flipped
	DeclTable["list-style-type"] = func(t *rapid.T) []Part {
		return []Part{{Text: rapid.SampledFrom([]string{"disc", "decimal", "lower-roman", "square"}).Draw(t, "lstype"), Kind: "ident"}}
	}
	DeclTable["direction"] = kws("ltr", "rtl")
	DeclTable["table-layout"] = kws("auto", "fixed")
	DeclTable["border-collapse"] = kws("collapse", "separate")
	DeclTable["caption-side"] = kws("top", "bottom")
	DeclTable["empty-cells"] = kws("show", "hide")
	DeclTable["flex-direction"] = kws("row", "row-reverse", "column", "column-reverse")
	DeclTable["flex-wrap"] = kws("nowrap", "wrap", "wrap-reverse")
	DeclTable["justify-content"] = kws("center", "flex-start", "flex-end", "space-between", "space-around", "start", "end")
	DeclTable["align-items"] = kws("center", "flex-start", "flex-end", "stretch", "baseline", "normal")
	DeclTable["object-fit"] = kws("fill", "contain", "cover", "none", "scale-down")
	DeclTable["hyphens"] = kws("none", "manual", "auto")
	DeclTable["overflow-wrap"] = kws("normal", "break-word", "anywhere")
	DeclTable["word-break"] = kws("normal", "break-all")
	DeclTable["vertical-align"] = lengthOr(true, true, "baseline", "middle", "top", "bottom", "sub", "super", "text-top")
	DeclTable["opacity"] = func(t *rapid.T) []Part {
		return []Part{num(rapid.SampledFrom([]string{"0", "0.5", "1", ".25", "2"}).Draw(t, "op"))}
	}
	DeclTable["z-index"] = func(t *rapid.T) []Part {
		if rapid.IntRange(0, 3).Draw(t, "zauto") == 0 {
			return []Part{kw("auto")}
		}
		return []Part{num(rapid.SampledFrom([]string{"0", "1", "-1", "10", "+5"}).Draw(t, "z"))}
	}
	for _, p := range []string{"orphans", "widows"} {
		DeclTable[p] = func(t *rapid.T) []Part {
			return []Part{num(rapid.SampledFrom([]string{"1", "2", "3", "5"}).Draw(t, "ow"))}
		}
	}
	DeclTable["flex-grow"] = func(t *rapid.T) []Part {
		return []Part{num(rapid.SampledFrom([]string{"0", "1", "2.5"}).Draw(t, "fg"))}
	}
	DeclTable["flex-shrink"] = DeclTable["flex-grow"]
	DeclTable["order"] = func(t *rapid.T) []Part {
		return []Part{num(rapid.SampledFrom([]string{"0", "1", "-2"}).Draw(t, "ord"))}
	}
	DeclTable["column-count"] = func(t *rapid.T) []Part {
		if rapid.IntRange(0, 3).Draw(t, "ccauto") == 0 {
			return []Part{kw("auto")}
		}
		return []Part{num(rapid.SampledFrom([]string{"1", "2", "3"}).Draw(t, "cc"))}
	}
	DeclTable["tab-size"] = func(t *rapid.T) []Part {
		if rapid.Bool().Draw(t, "tsn") {
			return []Part{num(rapid.SampledFrom([]string{"2", "4", "8"}).Draw(t, "ts"))}
		}
		return []Part{genLength(t, false, false)}
	}
	DeclTable["transform"] = func(t *rapid.T) []Part {
		n := rapid.IntRange(1, 3).Draw(t, "ntf")
		var out []Part
		for i := 0; i < n; i++ {
			switch rapid.IntRange(0, 5).Draw(t, "tfk") {
			case 0:
				out = append(out, fn("translate", genLength(t, true, true), sep(","), genLength(t, true, true)))
			case 1:
				out = append(out, fn("rotate", genAnglePart(t)))
			case 2:
				out = append(out, fn("scale", num("2"), sep(","), num("0.5")))
			case 3:
				out = append(out, fn(rapid.SampledFrom([]string{"skewX", "skewY"}).Draw(t, "sk"), genAnglePart(t)))
			case 4:
				out = append(out, fn(rapid.SampledFrom([]string{"translateX", "translateY"}).Draw(t, "tx"), genLength(t, true, true)))
			default:
				out = append(out, fn("matrix", num("1"), sep(","), num("0"), sep(","), num("0"), sep(","), num("1"), sep(","), num("5"), sep(","), num("6")))
			}
		}
		return out
	}
	DeclTable["transform-origin"] = func(t *rapid.T) []Part {
		return []Part{rapid.SampledFrom([]Part{kw("left"), kw("center"), kw("right"), dim("10", "px"), dim("25", "%")}).Draw(t, "tox"),
			rapid.SampledFrom([]Part{kw("top"), kw("center"), kw("bottom"), dim("2", "em"), dim("50", "%")}).Draw(t, "toy")}
	}
	DeclTable["background-image"] = func(t *rapid.T) []Part {
		switch rapid.IntRange(0, 2).Draw(t, "bi") {
		case 0:
			return []Part{kw("none")}
		case 1:
			return []Part{fn("linear-gradient", genColor(t), sep(","), genColor(t))}
		}
		return []Part{fn("radial-gradient", kw("circle"), sep(","), genColor(t), sep(","), genColor(t), dim("50", "%"))}
	}
	DeclTable["content"] = func(t *rapid.T) []Part {
		switch rapid.IntRange(0, 3).Draw(t, "ct") {
		case 0:
			return []Part{kw("none")}
		case 1:
			return []Part{{Text: "\"Abc\"", Kind: "str"}}
		case 2:
			return []Part{fn("counter", Part{Text: "Sec", Kind: "ident"}), {Text: "\". \"", Kind: "str"}}
		}
		return []Part{fn("attr", Part{Text: "title", Kind: "ident"})}
	}
	DeclTable["counter-reset"] = func(t *rapid.T) []Part {
		return []Part{{Text: rapid.SampledFrom([]string{"Sec", "a", "Foo"}).Draw(t, "crn"), Kind: "ident"}, num(rapid.SampledFrom([]string{"0", "3", "-1"}).Draw(t, "crv"))}
	}
	DeclTable["font-family"] = func(t *rapid.T) []Part {
		return []Part{{Text: rapid.SampledFrom([]string{"Ahem", "DejaVu Sans", "\"My Font\""}).Draw(t, "ff"), Kind: "str"}, sep(","),
			// generic families are keywords, but font matching is case-insensitive anyway and the declared value keeps the author's spelling: not flipped
			Part{Text: rapid.SampledFrom([]string{"serif", "sans-serif", "monospace"}).Draw(t, "gen"), Kind: "str"}}
	}
	DeclTable["flex"] = func(t *rapid.T) []Part {
		switch rapid.IntRange(0, 3).Draw(t, "fx") {
		case 0:
			return []Part{kw(rapid.SampledFrom([]string{"none", "auto"}).Draw(t, "fxk"))}
		case 1:
			return []Part{num("2")}
		case 2:
			return []Part{num("1"), num("0"), genLength(t, false, true)}
		}
		return []Part{num("1"), genLength(t, false, false)}
	}
	DeclTable["flex-flow"] = func(t *rapid.T) []Part {
		out := []Part{kw(rapid.SampledFrom([]string{"row", "column", "row-reverse"}).Draw(t, "ffd"))}
		if rapid.Bool().Draw(t, "ffw") {
			out = append(out, kw(rapid.SampledFrom([]string{"wrap", "nowrap"}).Draw(t, "ffwk")))
		}
		return out
	}
	DeclTable["columns"] = func(t *rapid.T) []Part {
		switch rapid.IntRange(0, 3).Draw(t, "cols") {
		case 0:
			return []Part{kw("auto")}
		case 1:
			return []Part{num("2")}
		case 2:
			return []Part{kw("auto"), genLength(t, false, false)}
		}
		return []Part{num("3"), genLength(t, false, false)}
	}
	DeclTable["text-decoration"] = func(t *rapid.T) []Part {
		out := []Part{kw(rapid.SampledFrom([]string{"underline", "overline", "line-through", "none"}).Draw(t, "td"))}
		if rapid.Bool().Draw(t, "tdc") {
			out = append(out, genColor(t))
		}
		if rapid.Bool().Draw(t, "tds") {
			out = append(out, kw(rapid.SampledFrom([]string{"solid", "dashed", "wavy", "double"}).Draw(t, "tdsk")))
		}
		return out
	}
	DeclTable["list-style"] = func(t *rapid.T) []Part {
		var out []Part
		if rapid.Bool().Draw(t, "lst") {
			out = append(out, Part{Text: rapid.SampledFrom([]string{"disc", "decimal", "square"}).Draw(t, "lstk"), Kind: "ident"})
		}
		if rapid.Bool().Draw(t, "lsp") || len(out) == 0 {
			out = append(out, kw(rapid.SampledFrom([]string{"inside", "outside"}).Draw(t, "lspk")))
		}
		return out
	}
	DeclTable["font"] = func(t *rapid.T) []Part {
		var out []Part
		if rapid.Bool().Draw(t, "fsty") {
			out = append(out, kw(rapid.SampledFrom([]string{"italic", "oblique"}).Draw(t, "fstyk")))
		}
		if rapid.Bool().Draw(t, "fwt") {
			out = append(out, kw(rapid.SampledFrom([]string{"bold", "normal"}).Draw(t, "fwtk")))
		}
		out = append(out, genLength(t, false, false))
		if rapid.Bool().Draw(t, "flh") {
			out = append(out, sep("/"), num("1.5"))
		}
		out = append(out, Part{Text: "Ahem", Kind: "str"})
		return out
	}
	DeclTable["border-radius"] = func(t *rapid.T) []Part {
		n := rapid.IntRange(1, 4).Draw(t, "nbr")
		var out []Part
		for i := 0; i < n; i++ {
			out = append(out, genLength(t, false, true))
		}
		if rapid.IntRange(0, 3).Draw(t, "brslash") == 0 {
			out = append(out, sep("/"), genLength(t, false, true))
		}
		return out
	}
	DeclTable["gap"] = func(t *rapid.T) []Part {
		out := []Part{genLength(t, false, true)}
		if rapid.Bool().Draw(t, "gap2") {
			out = append(out, genLength(t, false, true))
		}
		return out
	}
}

// DeclNames lists the table's property names, sorted.
func DeclNames() []string {
	var out []string
	for k := range DeclTable {
		out = append(out, k)
	}
	// insertion sort (small)
	for i := 1; i < len(out); i++ {
		for j := i; j > 0 && out[j] < out[j-1]; j-- {
			out[j], out[j-1] = out[j-1], out[j]
		}
	}
	return out
}

// GenValidDecl draws a property and a value of its grammar.
func GenValidDecl(t *rapid.T) ValidDecl {
	name := rapid.SampledFrom(DeclNames()).Draw(t, "dname")
	return ValidDecl{Name: name, Parts: DeclTable[name](t)}
}

func flip(t *rapid.T, s string) string {
	if t == nil {
		return s
	}
	switch rapid.IntRange(0, 2).Draw(t, "flipmode") {
	case 0:
		return s
	case 1:
		return strings.ToUpper(s)
	}
	var b strings.Builder
	for i, r := range s {
		if i%2 == 0 {
			b.WriteString(strings.ToUpper(string(r)))
		} else {
			b.WriteRune(r)
		}
	}
	return b.String()
}

func partText(t *rapid.T, p Part) string {
	switch p.Kind {
	case "kw":
		return flip(t, p.Text)
	case "dim":
		return p.Text + flip(t, p.Unit)
	case "num", "pct", "str", "ident", "sep":
		if p.Kind == "num" && t != nil && strings.ContainsAny(p.Text, "e") {
			return flip(t, p.Text) // exponent marker is case-insensitive
		}
		return p.Text
	case "hash":
		return flip(t, p.Text)
	case "fn":
		var b strings.Builder
		b.WriteString(flip(t, p.Text) + "(")
		b.WriteString(partsText(t, p.Args))
		b.WriteString(")")
		return b.String()
	}
	return p.Text
}

func gap(t *rapid.T, tight bool) string {
	if t == nil {
		if tight {
			return ""
		}
		return " "
	}
	if tight {
		return rapid.SampledFrom([]string{"", " ", "/**/", " /* c */ ", "\n"}).Draw(t, "tgap")
	}
	return rapid.SampledFrom([]string{" ", "  ", "/**/ ", " /* c */ ", "\n", "\t"}).Draw(t, "gap")
}

func partsText(t *rapid.T, parts []Part) string {
	var b strings.Builder
	for i, p := range parts {
		if i > 0 {
			if p.Kind == "sep" || parts[i-1].Kind == "sep" {
				b.WriteString(gap(t, true))
			} else {
				b.WriteString(gap(t, false))
			}
		}
		b.WriteString(partText(t, p))
	}
	return b.String()
}

// Text prints the declaration; with t == nil the canonical spelling, otherwise a spelling variant
// (ASCII case of property name, keywords, units, function names, hex colours; comments and white space
// between component values and around the colon).
func (d ValidDecl) Text(t *rapid.T, important bool) string {
	imp := ""
	if important {
		imp = gap(t, true) + "!" + gap(t, true) + flip(t, "important")
	}
	return flip(t, d.Name) + gap(t, true) + ":" + gap(t, true) + partsText(t, d.Parts) + imp
}

func (d ValidDecl) String() string { return fmt.Sprintf("%s: %s", d.Name, partsText(nil, d.Parts)) }
