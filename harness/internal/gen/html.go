package gen

import (
	"fmt"
	"strings"

	"pgregory.net/rapid"
)

// ---- general document generator (properties C01, C14, C15)

var docTags = []string{"div", "div", "div", "p", "p", "span", "span", "b", "i", "a", "em", "h1", "h2", "h3", "section", "ul", "ol", "li", "li", "table", "tr", "td", "td", "th", "thead", "tbody", "tfoot", "caption", "colgroup", "col",
	"img", "br", "hr", "input", "textarea", "select", "button", "font", "center", "pre", "blockquote", "dl", "dt", "dd", "fieldset", "legend", "details", "summary", "svg", "x-foo", "label", "sup", "sub", "code", "abbr", "q"}

// layoutDecls: a curated pool covering every layout mode.
var layoutDecls = []string{
	"display:block", "display:inline", "display:inline-block", "display:none", "display:list-item", "display:table", "display:inline-table", "display:table-row", "display:table-cell", "display:table-caption",
	"display:table-row-group", "display:table-header-group", "display:table-footer-group", "display:table-column", "display:table-column-group", "display:flex", "display:inline-flex", "display:grid", "display:inline-grid", "display:flow-root", "display:contents", "display:run-in",
	"float:left", "float:right", "float:none", "clear:both", "clear:left", "position:relative", "position:absolute", "position:fixed", "position:static", "position:running(hdr)", "top:5px", "left:-3px", "right:10%", "bottom:0", "top:auto",
	"width:50px", "width:0", "width:100%", "width:50%", "width:auto", "width:1000px", "width:-5px", "height:20px", "height:0", "height:100%", "height:500px", "min-width:30px", "max-width:20px", "min-height:50px", "max-height:10px", "min-width:100%", "max-height:0",
	"margin:5px", "margin:auto", "margin:-10px", "margin:10%", "margin-top:-20px", "margin-left:auto", "padding:3px", "padding:10%", "padding:0", "border:1px solid", "border:5px dotted red", "border-top:3px double", "border-width:0", "border-radius:5px", "border-radius:50%", "box-sizing:border-box",
	"break-before:page", "break-after:page", "break-before:left", "break-before:right", "break-after:avoid", "break-inside:avoid", "break-before:always", "break-before:column", "page-break-before:always", "page-break-after:always", "page-break-inside:avoid", "orphans:1", "orphans:5", "widows:1", "widows:4",
	"columns:2", "column-count:3", "column-width:30px", "column-gap:0", "column-span:all", "column-fill:auto", "column-rule:1px solid",
	"flex:1", "flex:0 0 20px", "flex-direction:column", "flex-direction:row-reverse", "flex-wrap:wrap", "flex-grow:2", "flex-shrink:0", "flex-basis:50%", "justify-content:center", "justify-content:space-between", "align-items:center", "align-items:baseline", "align-self:flex-end", "align-content:stretch", "order:-1", "gap:5px",
	"grid-template-columns:1fr 2fr", "grid-template-columns:repeat(3, 20px)", "grid-template-columns:auto", "grid-template-rows:10px auto", "grid-template-areas:'a b'", "grid-area:a", "grid-column:1 / 3", "grid-row:2", "grid-column:span 2", "grid-auto-flow:column", "grid-auto-rows:10px", "grid-column-start:-1",
	"table-layout:fixed", "border-collapse:collapse", "border-spacing:2px", "border-spacing:3px 7px", "caption-side:bottom", "empty-cells:hide", "vertical-align:middle", "vertical-align:top", "vertical-align:10px", "vertical-align:super",
	"overflow:hidden", "overflow:auto", "opacity:0.5", "opacity:0", "visibility:hidden", "visibility:collapse", "z-index:1", "z-index:-1", "transform:rotate(10deg)", "transform:scale(0)", "transform:translate(50%, 10px)", "transform:matrix(1,0,0,1,0,0)", "transform-origin:0 0",
	"string-set:title content()", "string-set:x 'a' attr(id)", "bookmark-level:1", "bookmark-level:3", "bookmark-label:'bm' content()", "bookmark-state:closed", "float:footnote", "footnote-display:inline", "footnote-policy:line", "content:'gen'", "content:counter(c)", "content:counters(c, '.') ' ' attr(id)", "content:target-counter(attr(href), page)", "content:target-text(attr(href))", "content:string(title)", "content:element(hdr)", "content:leader('.')", "content:open-quote", "content:url(x.png)", "content:none",
	"counter-reset:c", "counter-increment:c 2", "counter-set:c 5", "counter-reset:list-item 3", "list-style:square inside", "list-style-type:lower-roman", "list-style-type:'-'", "list-style-type:symbols(cyclic 'a' 'b')", "list-style-image:url(x.png)", "quotes:'<' '>'",
	"font-size:0", "font-size:30px", "font-size:2em", "font-size:50%", "font-size:1px", "font-family:Ahem", "font-family:weasyprint", "font-family:serif", "font:10px/1 Ahem", "font:bold italic 12px/2 serif", "font-weight:bold", "font-weight:bolder", "font-style:italic", "font-variant:small-caps", "font-stretch:condensed", "font-kerning:none", "font-feature-settings:'liga' 0",
	"line-height:0", "line-height:1", "line-height:3", "line-height:50px", "line-height:normal", "text-align:center", "text-align:right", "text-align:justify", "text-align-last:center", "text-indent:20px", "text-indent:-10px", "text-indent:50%", "letter-spacing:3px", "letter-spacing:-1px", "word-spacing:5px", "white-space:nowrap", "white-space:pre", "white-space:pre-wrap", "white-space:pre-line", "word-break:break-all", "overflow-wrap:anywhere", "overflow-wrap:break-word", "hyphens:auto", "hyphens:none", "hyphenate-character:'~'", "hyphenate-limit-chars:3 1 1", "tab-size:4", "text-transform:uppercase", "text-transform:capitalize", "text-overflow:ellipsis", "block-ellipsis:auto", "max-lines:2", "continue:discard", "line-clamp:2",
	"text-decoration:underline", "text-decoration:line-through overline", "text-decoration:underline wavy red", "direction:rtl", "unicode-bidi:bidi-override", "unicode-bidi:embed", "color:red", "color:transparent", "background:red", "background:url(x.png)", "background:linear-gradient(red, blue)", "background-repeat:space", "background-repeat:round", "background-repeat:repeat space", "background-repeat:no-repeat round", "background-size:40px 60px", "background-size:100% 100%", "background-size:cover", "background-size:auto 30%",
	"background:linear-gradient(red, blue);background-repeat:repeat space;background-size:40px 60px;height:100px", "background:radial-gradient(red, blue) space;height:60px;width:60px;background-size:60px 60px", "background-image:repeating-linear-gradient(45deg, red, blue 10px);background-size:20px 20px;background-repeat:round space", "background:radial-gradient(circle, red, blue 50%)", "background:repeating-linear-gradient(45deg, red, blue 10px)", "background-size:50% auto", "background-position:right 3px bottom", "background-repeat:space", "background-clip:content-box", "background-attachment:fixed", "outline:2px solid", "outline-offset:3px", "box-decoration-break:clone", "image-rendering:pixelated", "image-resolution:2dppx", "object-fit:cover", "object-position:10% 20%", "border-image:url(x.png) 3", "box-shadow:1px 1px",
	"page:named", "page:other", "size:100px 100px", "marks:crop", "bleed:5px", "appearance:none", "anchor:attr(id)", "link:attr(href)", "lang:'fr'", "--x:5px", "--y:var(--x)", "margin:var(--x)", "width:var(--y, 10px)", "width:calc(10px + 5%)", "margin-left:var(--undefined)", "--z:var(--z)", "color:var(--z)",
}

var docTexts = []string{"", " ", "a", "hello world", "Lorem ipsum dolor sit amet consectetur", "supercalifragilisticexpialidocious", "a b c d e f g h i j k l m n o p", "\n\t ", "line1\nline2", "tab\there", "שלום עולם", "مرحبا", "abc אבג def", "日本語のテキスト", "soft­hyphen­ated", "no break", "z​w​s​p", "end.", "x&lt;y", "1234567890", "éàü", "🙂", "á", "- - -", "http://example.com/a/very/long/url/that/does/not/break"}

func genStyleAttr(t *rapid.T, max int) string {
	n := rapid.IntRange(0, max).Draw(t, "ndecl")
	var parts []string
	for i := 0; i < n; i++ {
		switch rapid.IntRange(0, 9).Draw(t, "dsrc") {
		case 0:
			parts = append(parts, GenValidDecl(t).Text(nil, false))
		case 1:
			parts = append(parts, rapid.SampledFrom(CSSPropNames).Draw(t, "pn")+":"+ValueTokens(t, 3))
		default:
			parts = append(parts, rapid.SampledFrom(layoutDecls).Draw(t, "ld"))
		}
	}
	return strings.Join(parts, ";")
}

func genAttrs(t *rapid.T, tag string, ids *int) string {
	var b strings.Builder
	if rapid.IntRange(0, 3).Draw(t, "hasid") == 0 {
		*ids++
		fmt.Fprintf(&b, ` id="i%d"`, rapid.IntRange(0, 5).Draw(t, "idn"))
	}
	if rapid.IntRange(0, 3).Draw(t, "hascls") == 0 {
		fmt.Fprintf(&b, ` class="%s"`, rapid.SampledFrom([]string{"a", "b", "a b", "c"}).Draw(t, "cls"))
	}
	if st := genStyleAttr(t, 4); st != "" {
		fmt.Fprintf(&b, ` style="%s"`, strings.ReplaceAll(st, "\"", "&quot;"))
	}
	switch tag {
	case "a":
		fmt.Fprintf(&b, ` href="%s"`, rapid.SampledFrom([]string{"#i0", "#i1", "#i3", "#missing", "http://example.com/", "", "#"}).Draw(t, "href"))
	case "td", "th":
		if rapid.IntRange(0, 2).Draw(t, "span") == 0 {
			fmt.Fprintf(&b, ` colspan="%s"`, rapid.SampledFrom([]string{"2", "3", "0", "1", "10", "-1", "x"}).Draw(t, "cs"))
		}
		if rapid.IntRange(0, 2).Draw(t, "rspan") == 0 {
			fmt.Fprintf(&b, ` rowspan="%s"`, rapid.SampledFrom([]string{"2", "3", "0", "1", "10"}).Draw(t, "rs"))
		}
	case "col", "colgroup":
		if rapid.Bool().Draw(t, "cspan") {
			fmt.Fprintf(&b, ` span="%s"`, rapid.SampledFrom([]string{"2", "3", "0", "100"}).Draw(t, "csp"))
		}
	case "ol":
		if rapid.Bool().Draw(t, "start") {
			fmt.Fprintf(&b, ` start="%s"`, rapid.SampledFrom([]string{"0", "5", "-3", "x", "1000"}).Draw(t, "st"))
		}
		if rapid.IntRange(0, 3).Draw(t, "rev") == 0 {
			b.WriteString(" reversed")
		}
	case "li":
		if rapid.IntRange(0, 3).Draw(t, "val") == 0 {
			fmt.Fprintf(&b, ` value="%s"`, rapid.SampledFrom([]string{"0", "7", "-2", "x"}).Draw(t, "lv"))
		}
	case "img":
		fmt.Fprintf(&b, ` src="%s" alt="%s"`, rapid.SampledFrom([]string{"missing.png", "data:image/png;base64,iVBORw0KGgoAAAANSUhEUgAAAAEAAAABCAYAAAAfFcSJAAAADUlEQVR42mP8z8BQDwAEhQGAhKmMIQAAAABJRU5ErkJggg==", "data:image/svg+xml,%3Csvg xmlns='http://www.w3.org/2000/svg' width='10' height='10'%3E%3Crect width='5' height='5'/%3E%3C/svg%3E", "", "data:image/png;base64,AAAA"}).Draw(t, "src"),
			rapid.SampledFrom([]string{"", "alt text", "x"}).Draw(t, "alt"))
		if rapid.Bool().Draw(t, "imgdim") {
			fmt.Fprintf(&b, ` width="%s" height="%s"`, rapid.SampledFrom([]string{"10", "0", "50%", "x"}).Draw(t, "iw"), rapid.SampledFrom([]string{"10", "0", "100"}).Draw(t, "ih"))
		}
	case "font":
		fmt.Fprintf(&b, ` size="%s" color="%s"`, rapid.SampledFrom([]string{"1", "7", "+2", "-1", "x", "100"}).Draw(t, "fsz"), rapid.SampledFrom([]string{"red", "#f00", "x"}).Draw(t, "fcol"))
	case "input":
		fmt.Fprintf(&b, ` type="%s" value="%s" size="%s"`, rapid.SampledFrom([]string{"text", "checkbox", "radio", "hidden", "submit", "x"}).Draw(t, "ity"), rapid.SampledFrom([]string{"", "val"}).Draw(t, "ival"), rapid.SampledFrom([]string{"5", "0", "x"}).Draw(t, "isz"))
	case "textarea":
		fmt.Fprintf(&b, ` rows="%s" cols="%s"`, rapid.SampledFrom([]string{"2", "0", "x"}).Draw(t, "rows"), rapid.SampledFrom([]string{"10", "0"}).Draw(t, "cols"))
	case "table":
		if rapid.IntRange(0, 3).Draw(t, "tattr") == 0 {
			fmt.Fprintf(&b, ` border="%s" cellspacing="%s" cellpadding="%s" width="%s"`, rapid.SampledFrom([]string{"1", "0", "x"}).Draw(t, "tb"), rapid.SampledFrom([]string{"2", "0"}).Draw(t, "tcs"), rapid.SampledFrom([]string{"3", "x"}).Draw(t, "tcp"), rapid.SampledFrom([]string{"100", "50%", "x"}).Draw(t, "tw"))
		}
	}
	if rapid.IntRange(0, 9).Draw(t, "lang") == 0 {
		lg := rapid.SampledFrom([]string{"en", "fr", "hu", "de", "en-US", "zh-Hant", "hu", "fr", "de", "en"}).Draw(t, "lg")
		if rapid.IntRange(0, 19).Draw(t, "oddlang") == 0 {
			lg = rapid.SampledFrom([]string{"x", "a-b", "", "123", "toolonglanguagetag"}).Draw(t, "oddlg")
		}
		fmt.Fprintf(&b, ` lang="%s"`, lg)
	}
	if rapid.IntRange(0, 14).Draw(t, "dir") == 0 {
		b.WriteString(` dir="rtl"`)
	}
	if rapid.IntRange(0, 14).Draw(t, "align") == 0 {
		fmt.Fprintf(&b, ` align="%s"`, rapid.SampledFrom([]string{"center", "right", "justify", "x"}).Draw(t, "al"))
	}
	return b.String()
}

func genNode(t *rapid.T, depth int, budget *int, ids *int, rtlOK bool) string {
	*budget--
	tag := rapid.SampledFrom(docTags).Draw(t, "tag")
	var b strings.Builder
	if tag == "svg" {
		return SVGDocument(t, rapid.IntRange(0, 3).Draw(t, "svghostile") == 0)
	}
	b.WriteString("<" + tag + genAttrs(t, tag, ids) + ">")
	switch tag {
	case "img", "br", "hr", "input", "col":
		return b.String()
	}
	n := 0
	if depth > 0 {
		n = rapid.IntRange(0, 4).Draw(t, "nkids")
	}
	text := func() {
		tx := rapid.SampledFrom(docTexts).Draw(t, "text")
		if !rtlOK && (strings.Contains(tx, "ש") || strings.Contains(tx, "م") || strings.Contains(tx, "א")) {
			tx = "ltr only"
		}
		b.WriteString(tx)
	}
	if rapid.IntRange(0, 2).Draw(t, "lead") > 0 {
		text()
	}
	for i := 0; i < n && *budget > 0; i++ {
		b.WriteString(genNode(t, depth-1, budget, ids, rtlOK))
		if rapid.IntRange(0, 2).Draw(t, "inter") == 0 {
			text()
		}
	}
	b.WriteString("</" + tag + ">")
	return b.String()
}

var pageRules = []string{
	"@page{size:200px 150px;margin:10px}", "@page{size:100px 100px;margin:0}", "@page{size:A5 landscape}", "@page{size:0 0}", "@page{size:10px 10px;margin:20px}", "@page{size:300px 50px;margin:5px}", "@page{margin:50%}", "@page{size:1px}", "@page{size:500px 500px;padding:10px;border:2px solid}",
	"@page:first{margin:30px}", "@page:left{margin-left:40px}", "@page:right{margin-right:40px}", "@page:blank{background:red}", "@page named{size:150px 150px}", "@page other:first{margin:1px}", "@page:nth(2){size:80px 80px}", "@page:nth(2n+1){margin:2px}",
	"@page{@top-center{content:counter(page) '/' counter(pages)}}", "@page{@bottom-left{content:string(title)}@bottom-right{content:element(hdr)}}", "@page{@top-left-corner{content:'c';border:1px solid}@left-middle{content:'m';width:200%}}", "@page{@footnote{border-top:1px solid;max-height:20px}}", "@page{bleed:10px;marks:crop cross}",
	"@page{size:100px 60px;margin:5px;@top-center{content:'h';font-size:30px}}",
}

var styleRules = []string{
	"p{margin:0}", "div{display:block}", "*{box-sizing:border-box}", ".a{float:left;width:30px}", ".b{position:absolute;top:0}", ".c{display:inline-block}", "li::marker{color:red;content:'*'}", "p::before{content:'[' counter(c) ']';counter-increment:c}", "p::after{content:' ]';display:block}", "a::after{content:' (' attr(href) ')'}",
	"p::first-line{color:blue}", "p::first-letter{font-size:2em;float:left}", "td{border:1px solid}", "table{border-collapse:collapse}", "h1{break-before:page;string-set:title content()}", "h2{bookmark-level:2}", "a{color:blue;text-decoration:underline}", "body{font:10px/1.2 Ahem}", "body{font-family:DejaVu Sans}", "html{font-size:8px}",
	"@media print{.a{color:red}}", "@media screen{.a{display:none}}", "@font-face{font-family:f1;src:url(missing.ttf)}", "@font-face{font-family:f2;src:local(Ahem)}", "@counter-style cs1{system:cyclic;symbols:'a' 'b'}", "ol{list-style-type:cs1}", "@counter-style cs2{system:additive;additive-symbols:5 v, 1 i;fallback:cs2}", "ul{list-style-type:cs2}",
	"@import url(data:text/css,p%7Bcolor%3Ared%7D);", "@supports (display:grid){p{color:green}}", "@unknown x{y:z}", ":root{--x:3px;--y:var(--x)}", "div{margin:var(--y)}", "span{--loop:var(--loop);width:var(--loop)}", ".a .b > .c + p ~ span{color:red}", ":is(.a, .b):not(.c){color:red}", "li:nth-child(2n+1){color:red}", "div{ & p{color:red} .a{color:blue} }",
	"span{footnote-display:block;float:footnote}", "::footnote-call{color:red}", "::footnote-marker{content:counter(footnote) ') '}", ".b{position:running(hdr)}", "p{orphans:3;widows:3}", "p{hyphens:auto}", "div:empty{display:none}", "img{width:20px;height:20px}", "input{appearance:auto}", "p:first-child::first-letter{color:red}",
	// text cut by a line limit, with author ellipses of one and of several bytes per character
	"p{max-lines:1;block-ellipsis:'……';width:3em}", "div{line-clamp:2 ' (続きを読む)';width:60px}", "p{continue:discard;max-height:1.5em;block-ellipsis:'→→→ more'}", "p{max-lines:2;block-ellipsis:'[...]';font:20px/1 Ahem;width:4em}", "li{line-clamp:1}",
	// page-based counters mixed with counters of the flow (some never declared) in generated content
	"p::before{content:counter(chapter) '.' counter(page) ' '}", "div::after{content:counter(page) '/' counter(pages) ' ' counter(c) counter(x) counter(y)}", "li::before{content:counters(item, '.') ' p' counter(page)}",
	"li{list-style-image:url(missing.png)}", "ol{list-style-image:url(x.png);list-style-position:inside}",
	"table{width:100%}", "td{width:50%}", "th{vertical-align:bottom}", "tr{break-inside:avoid}", "thead{display:table-header-group}", "div{columns:2}", "p{column-span:all}", ".a{display:flex}", ".a>*{flex:1}", ".b{display:grid;grid-template-columns:1fr 1fr}",
}

// Doc is a generated document with its configuration.
type Doc struct {
	HTML    string   `json:"html"`
	UserCSS []string `json:"user_css,omitempty"`
	Hints   bool     `json:"hints,omitempty"`
	Engine  string   `json:"engine,omitempty"`
	Zoom    float32  `json:"zoom,omitempty"`
	// HasStyle: the head of the document starts with a generated <style> element
	HasStyle bool `json:"has_style,omitempty"`
}

// GenDoc generates a full document. rtlOK lets right-to-left text through.
func GenDoc(t *rapid.T, maxDepth int, rtlOK bool) Doc {
	var d Doc
	var head strings.Builder
	nr := rapid.IntRange(0, 5).Draw(t, "nrules")
	var rules []string
	for i := 0; i < nr; i++ {
		switch rapid.IntRange(0, 9).Draw(t, "rsrc") {
		case 0:
			rules = append(rules, Stylesheet(t, rapid.Bool().Draw(t, "rerr")))
		case 1, 2:
			rules = append(rules, rapid.SampledFrom(pageRules).Draw(t, "pr"))
		case 3:
			sel := rapid.SampledFrom([]string{"p", "div", "span", "td", "li", "*", ".a", ".b", "#i0", "body", "html", "table", "img", "p::before", "li::marker", "a"}).Draw(t, "rsel")
			rules = append(rules, sel+"{"+genStyleAttr(t, 4)+"}")
		default:
			rules = append(rules, rapid.SampledFrom(styleRules).Draw(t, "sr"))
		}
	}
	if rapid.IntRange(0, 5).Draw(t, "cstyles") == 0 {
		// generated counter styles (incl. fallback / extends cycles) used by lists and counters
		n := rapid.IntRange(1, 3).Draw(t, "ncs")
		for i := 0; i < n; i++ {
			rules = append(rules, GenCounterStyle(t, []string{"s0", "s1", "s2"}[i]).CSS())
		}
		rules = append(rules, "ol,ul{list-style-type:s0}", "li::before{content:counter(list-item, s1) ' ' counters(c, '.', s0)}",
			"ol{counter-reset:list-item "+rapid.SampledFrom([]string{"0", "-3", "5", "100", "3999"}).Draw(t, "csreset")+"}")
	}
	if len(rules) > 0 {
		d.HasStyle = true
		head.WriteString("<style>" + strings.ReplaceAll(strings.Join(rules, "\n"), "</", "<\\/") + "</style>")
	}
	if rapid.IntRange(0, 3).Draw(t, "title") == 0 {
		head.WriteString("<title>" + rapid.SampledFrom([]string{"T", "", " a  b ", "é"}).Draw(t, "ttl") + "</title>")
	}
	if rapid.IntRange(0, 5).Draw(t, "meta") == 0 {
		head.WriteString(`<meta name="` + rapid.SampledFrom([]string{"author", "description", "keywords", "generator", "dcterms.created", "dcterms.modified", "x"}).Draw(t, "mn") + `" content="` + rapid.SampledFrom([]string{"v", "a, b", "2020-01-01", "x", ""}).Draw(t, "mc") + `">`)
	}
	if rapid.IntRange(0, 9).Draw(t, "base") == 0 {
		head.WriteString(`<base href="http://base.example/dir/">`)
	}
	var body strings.Builder
	budget := rapid.IntRange(1, 25).Draw(t, "budget")
	ids := 0
	n := rapid.IntRange(1, 5).Draw(t, "ntop")
	for i := 0; i < n && budget > 0; i++ {
		body.WriteString(genNode(t, maxDepth, &budget, &ids, rtlOK))
		if rapid.IntRange(0, 3).Draw(t, "toptext") == 0 {
			body.WriteString(rapid.SampledFrom([]string{"top text", " ", "long top level text that wraps around the page width a few times"}).Draw(t, "tt"))
		}
	}
	prologue := rapid.SampledFrom([]string{"<!DOCTYPE html>", "<!DOCTYPE html>", "<!DOCTYPE html>", "", "<!-- c --><!DOCTYPE html>", "<!DOCTYPE html><!-- c -->", "<!-- only comment -->", "text before", "<?xml version='1.0'?>"}).Draw(t, "prologue")
	bodyAttr := ""
	if rapid.IntRange(0, 4).Draw(t, "bodyst") == 0 {
		bodyAttr = ` style="` + genStyleAttr(t, 3) + `"`
	}
	htmlAttr := ""
	if rapid.IntRange(0, 6).Draw(t, "htmlst") == 0 {
		htmlAttr = ` style="` + genStyleAttr(t, 3) + `"`
	}
	shape := rapid.IntRange(0, 9).Draw(t, "shape")
	switch {
	case shape == 0:
		d.HTML = prologue + head.String() + body.String() // no html/body tags
	case shape == 1:
		d.HTML = prologue + "<html" + htmlAttr + ">" + head.String() + body.String() + "</html>"
	default:
		d.HTML = prologue + "<html" + htmlAttr + "><head>" + head.String() + "</head><body" + bodyAttr + ">" + body.String() + "</body></html>"
	}
	if rapid.IntRange(0, 4).Draw(t, "user") == 0 {
		d.UserCSS = []string{rapid.SampledFrom(append(append([]string{}, pageRules...), styleRules...)).Draw(t, "ucss")}
	}
	d.Hints = rapid.IntRange(0, 3).Draw(t, "hints") == 0
	d.Engine = rapid.SampledFrom([]string{"pango", "pango", "pango", "gotext"}).Draw(t, "engine")
	d.Zoom = rapid.SampledFrom([]float32{1, 1, 1, 0.1, 3}).Draw(t, "zoom")
	return d
}
