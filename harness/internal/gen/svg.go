package gen

import (
	"fmt"
	"strings"

	"pgregory.net/rapid"
)

// SVGNumber returns a number in one of the SVG syntaxes (possibly hostile).
func SVGNumber(t *rapid.T, hostile bool) string {
	pool := []string{"0", "1", "2", "10", "-5", "+3", ".5", "5.", "1.5", "-.5", "1e2", "1E2", "1e-1", "1E+1", "100", "50", "0.0", "-0"}
	if hostile {
		pool = append(pool, "1e", "e", "--1", "1..2", ".", "1e400", "-1e400", "NaN", "inf", "0x10", "1,", "", "1e+", "١", "9999999999999999999999")
	}
	return rapid.SampledFrom(pool).Draw(t, "svgnum")
}

func svgSep(t *rapid.T) string {
	return rapid.SampledFrom([]string{" ", ",", " , ", "  ", "\n", "\t", ""}).Draw(t, "svgsep")
}

// SVGPathData returns (possibly malformed) path data.
func SVGPathData(t *rapid.T, hostile bool) string {
	n := rapid.IntRange(0, 8).Draw(t, "ncmd")
	var b strings.Builder
	for i := 0; i < n; i++ {
		cmd := rapid.SampledFrom([]string{"M", "m", "L", "l", "H", "h", "V", "v", "C", "c", "S", "s", "Q", "q", "T", "t", "A", "a", "Z", "z"}).Draw(t, "cmd")
		if hostile && rapid.IntRange(0, 15).Draw(t, "bad") == 0 {
			cmd = rapid.SampledFrom([]string{"X", "e", "E", "#", "MM", "é", "-", "1"}).Draw(t, "badcmd")
		}
		b.WriteString(cmd)
		argc := map[string]int{"M": 2, "L": 2, "H": 1, "V": 1, "C": 6, "S": 4, "Q": 4, "T": 2, "A": 7, "Z": 0}[strings.ToUpper(cmd)]
		reps := rapid.IntRange(1, 2).Draw(t, "reps")
		if hostile {
			argc += rapid.IntRange(-1, 1).Draw(t, "argdelta")
		}
		for r := 0; r < reps; r++ {
			for a := 0; a < argc; a++ {
				if strings.ToUpper(cmd) == "A" && (a == 3 || a == 4) && !hostile {
					b.WriteString(rapid.SampledFrom([]string{"0", "1"}).Draw(t, "flag"))
					b.WriteString(svgSep(t))
					continue
				}
				b.WriteString(svgSep(t))
				b.WriteString(SVGNumber(t, hostile))
			}
		}
		b.WriteString(rapid.SampledFrom([]string{"", " ", ","}).Draw(t, "cs"))
	}
	return b.String()
}

func SVGTransform(t *rapid.T, hostile bool) string {
	n := rapid.IntRange(0, 3).Draw(t, "ntr")
	var parts []string
	for i := 0; i < n; i++ {
		fn := rapid.SampledFrom([]string{"translate", "scale", "rotate", "skewX", "skewY", "matrix"}).Draw(t, "trfn")
		if hostile && rapid.IntRange(0, 8).Draw(t, "badfn") == 0 {
			fn = rapid.SampledFrom([]string{"foo", "", "rotate(", "TRANSLATE", "skew"}).Draw(t, "badtrfn")
		}
		argc := map[string]int{"translate": 2, "scale": 2, "rotate": 1, "skewX": 1, "skewY": 1, "matrix": 6}[fn]
		if fn == "rotate" && rapid.Bool().Draw(t, "rot3") {
			argc = 3
		}
		if hostile {
			argc = rapid.IntRange(0, 7).Draw(t, "trargc")
		}
		var args []string
		for a := 0; a < argc; a++ {
			args = append(args, SVGNumber(t, hostile))
		}
		cl := ")"
		if hostile && rapid.IntRange(0, 10).Draw(t, "noclose") == 0 {
			cl = ""
		}
		parts = append(parts, fn+"("+strings.Join(args, svgSep(t)+" ")+cl)
	}
	return strings.Join(parts, rapid.SampledFrom([]string{" ", ",", ", ", ""}).Draw(t, "trsep"))
}

func svgLength(t *rapid.T, hostile bool) string {
	u := rapid.SampledFrom([]string{"", "", "px", "%", "em", "pt", "mm", "cm", "in", "ex", "ch", "foo"}).Draw(t, "lu")
	return SVGNumber(t, hostile) + u
}

func svgPaint(t *rapid.T) string {
	return rapid.SampledFrom([]string{"red", "none", "#f00", "rgb(1,2,3)", "url(#g1)", "url(#p1)", "url(#missing)", "url(#g1) blue", "currentColor", "inherit", "url(", "context-fill", ""}).Draw(t, "paint")
}

// SVGAttrs returns a random attribute string for an element.
func SVGAttrs(t *rapid.T, hostile bool) string {
	n := rapid.IntRange(0, 5).Draw(t, "nattr")
	var b strings.Builder
	for i := 0; i < n; i++ {
		k := rapid.SampledFrom([]string{"x", "y", "width", "height", "cx", "cy", "r", "rx", "ry", "x1", "y1", "x2", "y2", "fill", "stroke", "stroke-width", "stroke-dasharray", "stroke-dashoffset",
			"opacity", "fill-opacity", "stroke-opacity", "transform", "style", "points", "d", "viewBox", "preserveAspectRatio", "font-size", "clip-path", "mask", "filter", "marker-start", "marker-mid", "marker-end", "marker",
			"href", "xlink:href", "display", "visibility", "fill-rule", "stroke-linecap", "stroke-linejoin", "stroke-miterlimit", "text-anchor", "dx", "dy", "rotate", "textLength", "lengthAdjust", "gradientUnits", "gradientTransform",
			"patternUnits", "patternTransform", "patternContentUnits", "offset", "stop-color", "stop-opacity", "spreadMethod", "fx", "fy", "fr", "orient", "markerWidth", "markerHeight", "markerUnits", "refX", "refY", "overflow", "image-rendering", "dominant-baseline", "letter-spacing"}).Draw(t, "ak")
		var v string
		switch k {
		case "fill", "stroke", "stop-color":
			v = svgPaint(t)
		case "transform", "gradientTransform", "patternTransform":
			v = SVGTransform(t, hostile)
		case "points":
			m := rapid.IntRange(0, 7).Draw(t, "npts")
			var ps []string
			for j := 0; j < m; j++ {
				ps = append(ps, SVGNumber(t, hostile))
			}
			v = strings.Join(ps, svgSep(t)+" ")
		case "d":
			v = SVGPathData(t, hostile)
		case "viewBox":
			m := 4
			if hostile {
				m = rapid.IntRange(0, 5).Draw(t, "nvb")
			}
			var ps []string
			for j := 0; j < m; j++ {
				ps = append(ps, SVGNumber(t, hostile))
			}
			v = strings.Join(ps, rapid.SampledFrom([]string{" ", ",", ", "}).Draw(t, "vbsep"))
		case "preserveAspectRatio":
			v = rapid.SampledFrom([]string{"xMidYMid", "xMinYMin meet", "xMaxYMax slice", "none", "xMidYMin", "xMinYMid slice", "x", "", "xMid", "slice", "defer xMidYMid", "xMidYMid meet extra", "XMIDYMID"}).Draw(t, "par")
		case "stroke-dasharray":
			m := rapid.IntRange(0, 4).Draw(t, "nda")
			var ps []string
			for j := 0; j < m; j++ {
				ps = append(ps, svgLength(t, hostile))
			}
			v = strings.Join(ps, rapid.SampledFrom([]string{" ", ",", ", "}).Draw(t, "dasep"))
			if m == 0 {
				v = "none"
			}
		case "style":
			v = DeclarationList(t, hostile)
		case "clip-path", "mask", "filter", "marker", "marker-start", "marker-mid", "marker-end":
			v = rapid.SampledFrom([]string{"url(#c1)", "url(#m1)", "url(#f1)", "url(#mk1)", "url(#missing)", "none", "url(", "url()", "#c1"}).Draw(t, "ref")
		case "href", "xlink:href":
			v = rapid.SampledFrom([]string{"#s1", "#g1", "#p1", "#u1", "#u2", "#missing", "#", "", "http://x/y.svg#a", "data:image/png;base64,AAAA", "#svgroot"}).Draw(t, "href")
		case "opacity", "fill-opacity", "stroke-opacity", "stop-opacity", "offset":
			v = rapid.SampledFrom([]string{"0", "1", "0.5", "50%", "-1", "2", "abc", "", "1e400"}).Draw(t, "op")
		case "display", "visibility", "fill-rule", "stroke-linecap", "stroke-linejoin", "text-anchor", "gradientUnits", "patternUnits", "patternContentUnits", "spreadMethod", "markerUnits", "overflow", "lengthAdjust", "image-rendering", "dominant-baseline":
			v = rapid.SampledFrom([]string{"none", "inline", "hidden", "evenodd", "nonzero", "round", "square", "bevel", "middle", "end", "userSpaceOnUse", "objectBoundingBox", "reflect", "repeat", "pad", "strokeWidth", "visible", "auto", "spacing", "spacingAndGlyphs", "pixelated", "central", "bogus", ""}).Draw(t, "kwv")
		case "orient":
			v = rapid.SampledFrom([]string{"auto", "auto-start-reverse", "45", "45deg", "1rad", "abc", ""}).Draw(t, "orient")
		default:
			v = svgLength(t, hostile)
			if (k == "dx" || k == "dy" || k == "x" || k == "y" || k == "rotate") && rapid.IntRange(0, 3).Draw(t, "multi") == 0 {
				v += " " + svgLength(t, hostile) + "," + svgLength(t, hostile)
			}
		}
		fmt.Fprintf(&b, " %s=\"%s\"", k, strings.ReplaceAll(strings.ReplaceAll(v, "&", "&amp;"), "\"", "&quot;"))
	}
	return b.String()
}

var svgGeometry = map[string][]string{
	"rect": {"x", "y", "width", "height"}, "circle": {"cx", "cy", "r"}, "ellipse": {"cx", "cy", "rx", "ry"}, "line": {"x1", "y1", "x2", "y2"},
}

var svgShapes = []string{"rect", "circle", "ellipse", "line", "polyline", "polygon", "path", "g", "use", "text", "tspan", "image", "a", "svg", "switch", "symbol", "foo"}

func svgElement(t *rapid.T, depth int, hostile bool) string {
	tag := rapid.SampledFrom(svgShapes).Draw(t, "tag")
	attrs := SVGAttrs(t, hostile)
	// the geometry attributes of the basic shapes, with numbers of either sign (two times in three)
	if geo := svgGeometry[tag]; geo != nil && rapid.IntRange(0, 2).Draw(t, "geo") != 0 {
		for _, k := range geo {
			attrs = " " + k + `="` + SVGNumber(t, hostile) + `"` + attrs
		}
	}
	id := ""
	if rapid.IntRange(0, 3).Draw(t, "hasid") == 0 {
		id = fmt.Sprintf(" id=\"%s\"", rapid.SampledFrom([]string{"s1", "u1", "u2", "a", "b"}).Draw(t, "id"))
	}
	inner := ""
	switch tag {
	case "g", "a", "svg", "switch", "symbol", "text", "tspan", "foo":
		if depth > 0 {
			n := rapid.IntRange(0, 3).Draw(t, "nch")
			for i := 0; i < n; i++ {
				inner += svgElement(t, depth-1, hostile)
			}
		}
		if tag == "text" || tag == "tspan" {
			inner = rapid.SampledFrom([]string{"hello", "a b", "", " x ", "éa"}).Draw(t, "txt") + inner
		}
	}
	return "<" + tag + id + attrs + ">" + inner + "</" + tag + ">"
}

// SVGDefs returns a <defs> section with gradients, patterns, markers, clip paths, masks, filters
// and reference graphs that may contain cycles and missing ids.
func SVGDefs(t *rapid.T, hostile bool) string {
	ref := func(name string) string {
		return rapid.SampledFrom([]string{"", "", " href=\"#g1\"", " href=\"#g2\"", " href=\"#p1\"", " xlink:href=\"#g2\"", " href=\"#missing\"", " href=\"#" + name + "\""}).Draw(t, "gref")
	}
	var b strings.Builder
	b.WriteString("<defs>")
	if rapid.Bool().Draw(t, "g1") {
		fmt.Fprintf(&b, "<linearGradient id=\"g1\"%s%s><stop offset=\"0\" stop-color=\"red\"/><stop%s/></linearGradient>", ref("g1"), SVGAttrs(t, hostile), SVGAttrs(t, hostile))
	}
	if rapid.Bool().Draw(t, "g2") {
		fmt.Fprintf(&b, "<radialGradient id=\"g2\"%s%s><stop offset=\"50%%\" stop-color=\"blue\"/></radialGradient>", ref("g2"), SVGAttrs(t, hostile))
	}
	if rapid.Bool().Draw(t, "p1") {
		fmt.Fprintf(&b, "<pattern id=\"p1\"%s width=\"10\" height=\"10\"%s>%s</pattern>", ref("p1"), SVGAttrs(t, hostile), svgElement(t, 1, hostile))
	}
	if rapid.Bool().Draw(t, "c1") {
		fmt.Fprintf(&b, "<clipPath id=\"c1\"%s>%s</clipPath>", SVGAttrs(t, hostile), svgElement(t, 1, hostile))
	}
	if rapid.Bool().Draw(t, "m1") {
		fmt.Fprintf(&b, "<mask id=\"m1\"%s>%s</mask>", SVGAttrs(t, hostile), svgElement(t, 1, hostile))
	}
	if rapid.Bool().Draw(t, "mk1") {
		fmt.Fprintf(&b, "<marker id=\"mk1\"%s>%s</marker>", SVGAttrs(t, hostile), svgElement(t, 1, hostile))
	}
	if rapid.Bool().Draw(t, "f1") {
		fmt.Fprintf(&b, "<filter id=\"f1\"%s><feOffset dx=\"%s\" dy=\"1\"/><feBlend mode=\"%s\"/></filter>", SVGAttrs(t, hostile), SVGNumber(t, hostile), rapid.SampledFrom([]string{"multiply", "normal", "bogus"}).Draw(t, "blend"))
	}
	if rapid.Bool().Draw(t, "uses") {
		// use cycles
		fmt.Fprintf(&b, "<g id=\"u1\"><use href=\"#u2\"/></g><g id=\"u2\"><use href=\"%s\"/></g>", rapid.SampledFrom([]string{"#u1", "#u2", "#s1", "#missing", "#svgroot"}).Draw(t, "cyc"))
	}
	if rapid.IntRange(0, 3).Draw(t, "styl") == 0 {
		b.WriteString("<style>" + Stylesheet(t, hostile) + "</style>")
	}
	b.WriteString("</defs>")
	return b.String()
}

// SVGDocument returns a complete SVG document.
func SVGDocument(t *rapid.T, hostile bool) string {
	var b strings.Builder
	b.WriteString("<svg id=\"svgroot\" xmlns=\"http://www.w3.org/2000/svg\" xmlns:xlink=\"http://www.w3.org/1999/xlink\"")
	b.WriteString(SVGAttrs(t, hostile))
	b.WriteString(">")
	if rapid.IntRange(0, 2).Draw(t, "defs") > 0 {
		b.WriteString(SVGDefs(t, hostile))
	}
	n := rapid.IntRange(0, 4).Draw(t, "nel")
	for i := 0; i < n; i++ {
		b.WriteString(svgElement(t, 2, hostile))
	}
	b.WriteString("</svg>")
	return b.String()
}
