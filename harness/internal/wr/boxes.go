package wr

import (
	"github.com/benoitkugler/webrender/css/counters"
	pr "github.com/benoitkugler/webrender/css/properties"
	bo "github.com/benoitkugler/webrender/html/boxes"
	"github.com/benoitkugler/webrender/html/tree"
	"github.com/benoitkugler/webrender/images"
	"github.com/benoitkugler/webrender/text"
	"github.com/benoitkugler/webrender/text/hyphen"
)

// TextCtx is a minimal text.TextLayoutContext.
type TextCtx struct {
	fc    text.FontConfiguration
	hyph  map[text.HyphenDictKey]hyphen.Hyphener
	strut map[text.StrutLayoutKey][2]pr.Float
}

func (c *TextCtx) Fonts() text.FontConfiguration                          { return c.fc }
func (c *TextCtx) HyphenCache() map[text.HyphenDictKey]hyphen.Hyphener    { return c.hyph }
func (c *TextCtx) StrutLayoutsCache() map[text.StrutLayoutKey][2]pr.Float { return c.strut }

func NewTextCtx(engine string) *TextCtx {
	return NewTextCtxFC(SharedFC(engine))
}

func NewTextCtxFC(fc text.FontConfiguration) *TextCtx {
	return &TextCtx{fc: fc, hyph: map[text.HyphenDictKey]hyphen.Hyphener{}, strut: map[text.StrutLayoutKey][2]pr.Float{}}
}

// Styles computes all styles of a document the way the box tests of the repository do.
func Styles(h *tree.HTML, user []tree.CSS, hints bool, fc text.FontConfiguration, cs counters.CounterStyle, pageRules *[]tree.PageRule, tc *tree.TargetCollector, withText bool) *tree.StyleFor {
	var ctx text.TextLayoutContext
	if withText {
		ctx = NewTextCtxFC(fc)
	}
	return tree.GetAllComputedStyles(h, user, hints, fc, cs, pageRules, tc, false, ctx)
}

// BuildBoxes runs NewHTML's result through GetAllComputedStyles and BuildFormattingStructure
// (the pipeline documented by html/boxes/boxes_test.go), without layout.
func BuildBoxes(h *tree.HTML, user []tree.CSS, hints bool, fc text.FontConfiguration) bo.BlockLevelBoxITF {
	b, _ := BuildBoxesStyle(h, user, hints, fc)
	return b
}

func BuildBoxesStyle(h *tree.HTML, user []tree.CSS, hints bool, fc text.FontConfiguration) (bo.BlockLevelBoxITF, *tree.StyleFor) {
	b, st, _ := BuildBoxesAll(h, user, hints, fc)
	return b, st
}

// BuildBoxesAll also returns the footnote boxes, which box building keeps out of the tree.
func BuildBoxesAll(h *tree.HTML, user []tree.CSS, hints bool, fc text.FontConfiguration) (bo.BlockLevelBoxITF, *tree.StyleFor, []bo.Box) {
	cs := make(counters.CounterStyle)
	tc := tree.NewTargetCollector()
	style := Styles(h, user, hints, fc, cs, nil, &tc, true)
	cache := images.NewCache()
	imgFetcher := func(url string, forcedMimeType string, orientation pr.SBoolFloat) images.Image {
		return images.GetImageFromUri(cache, h.UrlFetcher, false, url, forcedMimeType, orientation)
	}
	footnotes := new([]bo.Box)
	root := bo.BuildFormattingStructure(h.Root, style, bo.URLResolver{Fetch: h.UrlFetcher, FetchImage: imgFetcher}, h.BaseUrl, &tc, cs, footnotes)
	return root, style, *footnotes
}

// WalkBoxes visits b and its descendants in document order; f returns false to skip the children.
func WalkBoxes(b bo.Box, f func(bo.Box) bool) {
	if b == nil {
		return
	}
	if !f(b) {
		return
	}
	for _, c := range b.Box().Children {
		WalkBoxes(c, f)
	}
}
