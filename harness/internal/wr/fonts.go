// Package wr wraps the webrender pipeline for the verification harness:
// font configurations built from files on disk, render helpers and a
// recording / protocol-checking backend.
package wr

import (
	"fmt"
	"os"
	"path/filepath"
	"runtime"
	"sync"

	fc "github.com/benoitkugler/textprocessing/fontconfig"
	"github.com/benoitkugler/textprocessing/pango/fcfonts"
	"github.com/benoitkugler/webrender/text"
	"github.com/go-text/typesetting/fontscan"
)

var (
	fontDirOnce sync.Once
	fontDir     string
)

// FontDir returns the directory holding the harness fonts (committed copies).
func FontDir() string {
	fontDirOnce.Do(func() {
		if d := os.Getenv("VERIF_FONTS"); d != "" {
			fontDir = d
			return
		}
		_, file, _, _ := runtime.Caller(0)
		fontDir = filepath.Join(filepath.Dir(file), "..", "..", "testdata", "fonts")
	})
	return fontDir
}

var fontFiles = []string{"AHEM____.TTF", "weasyprint.otf", "DejaVuSans.ttf"}

var (
	fsOnce sync.Once
	fsVal  fc.Fontset
	fsErr  error
)

func fontset() (fc.Fontset, error) {
	fsOnce.Do(func() {
		for _, f := range fontFiles {
			p := filepath.Join(FontDir(), f)
			var err error
			fsVal, err = scanInto(fsVal, p)
			if err != nil {
				fsErr = fmt.Errorf("scan %s: %w", p, err)
				return
			}
		}
	})
	return fsVal, fsErr
}

func scanInto(fs fc.Fontset, path string) (fc.Fontset, error) {
	got, err := fc.Standard.ScanFontFile(path)
	if err != nil {
		return fs, err
	}
	return append(fs, got...), nil
}

// NewPango returns a fresh pango-style font configuration (own font map).
func NewPango() (*text.FontConfigurationPango, error) {
	fs, err := fontset()
	if err != nil {
		return nil, err
	}
	cp := make(fc.Fontset, len(fs))
	copy(cp, fs)
	return text.NewFontConfigurationPango(fcfonts.NewFontMap(fc.Standard.Copy(), cp)), nil
}

// NewGotext returns a fresh go-text font configuration.
func NewGotext() (*text.FontConfigurationGotext, error) {
	fm := fontscan.NewFontMap(nil)
	for _, f := range fontFiles {
		p := filepath.Join(FontDir(), f)
		fd, err := os.Open(p)
		if err != nil {
			return nil, err
		}
		err = fm.AddFont(fd, p, "")
		if err != nil {
			return nil, err
		}
	}
	return text.NewFontConfigurationGotext(fm), nil
}
