package wr

import (
	"errors"
	"strings"

	"github.com/benoitkugler/webrender/backend"
	pr "github.com/benoitkugler/webrender/css/properties"
	"github.com/benoitkugler/webrender/images"
	"github.com/benoitkugler/webrender/svg"
	"github.com/benoitkugler/webrender/utils"
)

// Fetcher is the URL fetcher used by every check: data: URIs go through the
// repository's default fetcher, everything else fails at once (the sandbox has no
// network and the checks must not depend on the file system).
func Fetcher(url string) (utils.RemoteRessource, error) {
	if strings.HasPrefix(strings.ToLower(url), "data:") {
		return utils.DefaultUrlFetcher(url)
	}
	return utils.RemoteRessource{}, errors.New("verif: resource not available offline: " + url)
}

// ParseSVG parses an SVG document with the loaders wired the way images.NewSVGImage wires them.
func ParseSVG(src, baseURL string) (*svg.SVGImage, error) {
	cache := images.NewCache()
	loader := func(url string) (backend.Image, error) {
		img := images.GetImageFromUri(cache, Fetcher, false, url, "", pr.SBoolFloat{})
		if img == nil {
			return nil, errors.New("verif: image not available")
		}
		return img, nil
	}
	return svg.Parse(strings.NewReader(src), baseURL, loader, Fetcher)
}
