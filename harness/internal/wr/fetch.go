package wr

import (
	"bytes"
	"errors"
	"os"
	"path/filepath"
	"strings"

	"github.com/benoitkugler/webrender/backend"
	pr "github.com/benoitkugler/webrender/css/properties"
	"github.com/benoitkugler/webrender/images"
	"github.com/benoitkugler/webrender/svg"
	"github.com/benoitkugler/webrender/utils"
)

// Fetcher is the URL fetcher used by every check: data: URIs go through the
// repository's default fetcher, everything else fails at once (the sandbox has no
// network and the checks must not depend on the file system).
func Fetcher(url string) (utils.RemoteRessource, error) {
	if strings.HasPrefix(strings.ToLower(url), "data:") {
		return utils.DefaultUrlFetcher(url)
	}
	// verif-font:<file> serves one of the committed harness fonts (for @font-face rules)
	if name, ok := strings.CutPrefix(url, "verif-font:"); ok && !strings.ContainsAny(name, "/\\") {
		b, err := os.ReadFile(filepath.Join(FontDir(), name))
		if err != nil {
			return utils.RemoteRessource{}, err
		}
		return utils.RemoteRessource{Content: bytes.NewReader(b), MimeType: "font/ttf", RedirectedUrl: url}, nil
	}
	return utils.RemoteRessource{}, errors.New("verif: resource not available offline: " + url)
}

// ParseSVG parses an SVG document with the loaders wired the way images.NewSVGImage wires them.
func ParseSVG(src, baseURL string) (*svg.SVGImage, error) {
	cache := images.NewCache()
	loader := func(url string) (backend.Image, error) {
		img := images.GetImageFromUri(cache, Fetcher, false, url, "", pr.SBoolFloat{})
		if img == nil {
			return nil, errors.New("verif: image not available")
		}
		return img, nil
	}
	return svg.Parse(strings.NewReader(src), baseURL, loader, Fetcher)
}
