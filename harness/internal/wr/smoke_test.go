package wr

import (
	"testing"
)

func TestSmoke(t *testing.T) {
	for _, eng := range []string{"pango", "gotext"} {
		r, err := Render(`<style>@page{size:100px 50px;margin:5px} body{font:10px/1 Ahem;margin:0}</style><p id=a>hello world foo bar baz qux hello world foo bar baz qux</p><span>x</span>`, Opts{Engine: eng})
		if err != nil {
			t.Fatal(err)
		}
		t.Log(eng, len(r.Pages), len(r.Rec.Events), r.Rec.Problems, r.Rec.TextsPerPage())
	}
}
