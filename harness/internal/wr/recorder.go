package wr

import (
	"fmt"
	"math"
	"strings"
	"time"

	"github.com/benoitkugler/webrender/backend"
	"github.com/benoitkugler/webrender/css/parser"
	"github.com/benoitkugler/webrender/matrix"
)

type fl = backend.Fl

// Ev is one recorded backend call.
type Ev struct {
	Canvas int       // id of the canvas (0 = document level)
	Page   int       // page index the canvas belongs to (-1 = document level)
	Depth  int       // OnNewStack nesting depth inside the canvas
	Op     string    // method name
	F      []float32 // numeric arguments, in order
	S      string    // string argument(s)
	Ref    int       // referenced canvas id (groups, patterns, masks)
	Font   backend.Font
	CTM    [6]float32 // current transformation matrix of the canvas at the time of the call (path and text operations)
}

func (e Ev) String() string {
	var b strings.Builder
	fmt.Fprintf(&b, "c%d p%d d%d %s", e.Canvas, e.Page, e.Depth, e.Op)
	for _, f := range e.F {
		fmt.Fprintf(&b, " %08x", math.Float32bits(f))
	}
	if e.S != "" {
		fmt.Fprintf(&b, " %q", e.S)
	}
	if e.Ref != 0 {
		fmt.Fprintf(&b, " ->c%d", e.Ref)
	}
	return b.String()
}

// Recorder implements backend.Document and records every call.
type Recorder struct {
	Events     []Ev
	Problems   []string // protocol violations detected while recording
	NPages     int
	nextCanvas int
	Canvases   []*RCanvas
	Anchors    [][]backend.Anchor
	AnchorsSet int // number of CreateAnchors calls
	Bookmarks  []backend.BookmarkNode
	BookmarksN int
	Meta       map[string][]string
}

func NewRecorder() *Recorder {
	return &Recorder{Meta: map[string][]string{}}
}

func (r *Recorder) problem(format string, args ...interface{}) {
	if len(r.Problems) < 50 {
		r.Problems = append(r.Problems, fmt.Sprintf(format, args...))
	}
}

func (r *Recorder) add(e Ev) {
	for i, f := range e.F {
		if math.IsNaN(float64(f)) || math.IsInf(float64(f), 0) {
			r.problem("nonfinite: %s arg %d = %v (page %d)", e.Op, i, f, e.Page)
		}
	}
	r.Events = append(r.Events, e)
}

// ---- backend.Document

func (r *Recorder) AddPage(left, top, right, bottom fl) backend.Page {
	if r.AnchorsSet > 0 {
		r.problem("protocol: AddPage after CreateAnchors")
	}
	c := r.newCanvas(r.NPages, nil, "page")
	r.add(Ev{Page: r.NPages, Op: "AddPage", F: []float32{left, top, right, bottom}, Ref: c.ID})
	r.NPages++
	return &RPage{RCanvas: c}
}

func (r *Recorder) CreateAnchors(anchors [][]backend.Anchor) {
	r.AnchorsSet++
	r.Anchors = anchors
	if r.AnchorsSet > 1 {
		r.problem("protocol: CreateAnchors called %d times", r.AnchorsSet)
	}
	for i, pa := range anchors {
		for _, a := range pa {
			r.add(Ev{Page: i, Op: "Anchor", F: []float32{a.X, a.Y}, S: a.Name})
		}
	}
	r.add(Ev{Page: -1, Op: "CreateAnchors", F: []float32{float32(len(anchors))}})
}

func (r *Recorder) SetAttachments(as []backend.Attachment) {
	r.add(Ev{Page: -1, Op: "SetAttachments", F: []float32{float32(len(as))}})
}

func (r *Recorder) EmbedFile(fileID string, a backend.Attachment) {
	r.add(Ev{Page: -1, Op: "EmbedFile", S: fileID})
}

func (r *Recorder) meta(k string, v ...string) {
	r.Meta[k] = append([]string{}, v...)
	r.add(Ev{Page: -1, Op: "Set" + k, S: strings.Join(v, "\x1f")})
}
func (r *Recorder) SetTitle(s string)               { r.meta("Title", s) }
func (r *Recorder) SetDescription(s string)         { r.meta("Description", s) }
func (r *Recorder) SetCreator(s string)             { r.meta("Creator", s) }
func (r *Recorder) SetAuthors(s []string)           { r.meta("Authors", s...) }
func (r *Recorder) SetKeywords(s []string)          { r.meta("Keywords", s...) }
func (r *Recorder) SetProducer(s string)            { r.meta("Producer", s) }
func (r *Recorder) SetDateCreation(d time.Time)     { r.meta("DateCreation", d.UTC().String()) }
func (r *Recorder) SetDateModification(d time.Time) { r.meta("DateModification", d.UTC().String()) }

func (r *Recorder) SetBookmarks(root []backend.BookmarkNode) {
	r.BookmarksN++
	r.Bookmarks = root
	var walk func(ns []backend.BookmarkNode, depth int)
	walk = func(ns []backend.BookmarkNode, depth int) {
		for _, n := range ns {
			open := float32(0)
			if n.Open {
				open = 1
			}
			r.add(Ev{Page: n.PageIndex, Depth: depth, Op: "Bookmark", F: []float32{n.X, n.Y, open}, S: n.Label})
			walk(n.Children, depth+1)
		}
	}
	walk(root, 0)
}

// ---- canvases

// RCanvas implements backend.Canvas and backend.GraphicState.
type RCanvas struct {
	R      *Recorder
	ID     int
	PageIx int
	Kind   string // page, group
	Parent *RCanvas

	depth   int
	ctm     []matrix.Transform // stack, top = current
	hasPath bool               // a path is under construction (not part of the q/Q state in PDF)
	hasPt   bool               // current point defined
	bbox    [4]fl
	fonts   map[backend.Font]*backend.FontChars
	used    bool // for groups: drawn via DrawWithOpacity / pattern / mask
}

func (r *Recorder) newCanvas(page int, parent *RCanvas, kind string) *RCanvas {
	r.nextCanvas++
	c := &RCanvas{R: r, ID: r.nextCanvas, PageIx: page, Kind: kind, Parent: parent,
		ctm:   []matrix.Transform{matrix.Identity()},
		fonts: map[backend.Font]*backend.FontChars{}}
	r.Canvases = append(r.Canvases, c)
	return c
}

func (c *RCanvas) ev(op string, f ...float32) {
	m := c.ctm[c.top()]
	c.R.add(Ev{Canvas: c.ID, Page: c.PageIx, Depth: c.depth, Op: op, F: f, CTM: [6]float32{m.A, m.B, m.C, m.D, m.E, m.F}})
}

func (c *RCanvas) top() int { return len(c.ctm) - 1 }

func (c *RCanvas) GetBoundingBox() (left, top, right, bottom fl) {
	return c.bbox[0], c.bbox[1], c.bbox[2], c.bbox[3]
}

func (c *RCanvas) SetBoundingBox(left, top, right, bottom fl) {
	c.bbox = [4]fl{left, top, right, bottom}
	c.ev("SetBoundingBox", left, top, right, bottom)
}

func (c *RCanvas) OnNewStack(f func()) {
	c.ev("Push")
	c.depth++
	c.ctm = append(c.ctm, c.ctm[c.top()])
	defer func() {
		// keep the recorder consistent even when f panics
		c.ctm = c.ctm[:len(c.ctm)-1]
		c.depth--
		c.ev("Pop")
	}()
	f()
}

func (c *RCanvas) State() backend.GraphicState { return c }

func (c *RCanvas) NewGroup(x, y, width, height fl) backend.Canvas {
	g := c.R.newCanvas(c.PageIx, c, "group")
	g.bbox = [4]fl{x, y, x + width, y + height}
	// fonts registered on the parent remain valid on the output
	c.R.add(Ev{Canvas: c.ID, Page: c.PageIx, Depth: c.depth, Op: "NewGroup", F: []float32{x, y, width, height}, Ref: g.ID})
	return g
}

func (c *RCanvas) refOf(cv backend.Canvas) int {
	switch g := cv.(type) {
	case *RCanvas:
		g.used = true
		return g.ID
	case *RPage:
		g.used = true
		return g.ID
	case nil:
		return -1
	}
	c.R.problem("protocol: foreign canvas passed back to the backend (%T)", cv)
	return -1
}

func (c *RCanvas) DrawWithOpacity(opacity fl, group backend.Canvas) {
	c.R.add(Ev{Canvas: c.ID, Page: c.PageIx, Depth: c.depth, Op: "DrawWithOpacity", F: []float32{opacity}, Ref: c.refOf(group)})
	if opacity < 0 || opacity > 1 {
		c.R.problem("range: DrawWithOpacity(%v)", opacity)
	}
}

func (c *RCanvas) Paint(op backend.PaintOp) {
	if !c.hasPath {
		c.R.problem("protocol: Paint(%s) without a path (page %d)", op, c.PageIx)
	}
	c.hasPath = false
	c.hasPt = false
	c.R.add(Ev{Canvas: c.ID, Page: c.PageIx, Depth: c.depth, Op: "Paint", F: []float32{float32(op)}})
}

func (c *RCanvas) Rectangle(x, y, width, height fl) {
	c.hasPath = true
	c.hasPt = true
	c.ev("Rectangle", x, y, width, height)
}

func (c *RCanvas) MoveTo(x, y fl) {
	c.hasPath = true
	c.hasPt = true
	c.ev("MoveTo", x, y)
}

func (c *RCanvas) LineTo(x, y fl) {
	if !c.hasPt {
		c.R.problem("protocol: LineTo without current point (page %d)", c.PageIx)
	}
	c.hasPath = true
	c.ev("LineTo", x, y)
}

func (c *RCanvas) CubicTo(x1, y1, x2, y2, x3, y3 fl) {
	if !c.hasPt {
		c.R.problem("protocol: CubicTo without current point (page %d)", c.PageIx)
	}
	c.hasPath = true
	c.ev("CubicTo", x1, y1, x2, y2, x3, y3)
}

func (c *RCanvas) ClosePath() {
	if !c.hasPt {
		c.R.problem("protocol: ClosePath without current point (page %d)", c.PageIx)
	}
	c.ev("ClosePath")
}

func (c *RCanvas) root() *RCanvas {
	for c.Parent != nil {
		c = c.Parent
	}
	return c
}

func (c *RCanvas) AddFont(font backend.Font, content []byte) *backend.FontChars {
	// fonts are document-level resources in every real backend; register on the
	// page (root canvas) so that groups share them.
	rt := c.root()
	if fcs, ok := rt.fonts[font]; ok {
		return fcs
	}
	fcs := &backend.FontChars{Cmap: map[backend.GID][]rune{}, Extents: map[backend.GID]backend.GlyphExtents{}}
	rt.fonts[font] = fcs
	c.R.add(Ev{Canvas: c.ID, Page: c.PageIx, Depth: c.depth, Op: "AddFont", S: fmt.Sprintf("%v|%d", font.Description().Family, len(content)), Font: font})
	return fcs
}

func (c *RCanvas) DrawText(texts []backend.TextDrawing) {
	for _, t := range texts {
		for _, run := range t.Runs {
			if run.Font == nil {
				c.R.problem("protocol: DrawText run with nil font")
				continue
			}
			if _, ok := c.root().fonts[run.Font]; !ok {
				// also accept fonts registered on any canvas of the same document
				found := false
				for _, cv := range c.R.Canvases {
					if _, ok := cv.fonts[run.Font]; ok {
						found = true
						break
					}
				}
				if !found {
					c.R.problem("protocol: DrawText with a font never passed to AddFont (page %d)", c.PageIx)
				}
			}
			for _, g := range run.Glyphs {
				for _, v := range []fl{g.Offset, g.Rise, g.XAdvance} {
					if math.IsNaN(float64(v)) || math.IsInf(float64(v), 0) {
						c.R.problem("nonfinite: DrawText glyph field %v (page %d)", v, c.PageIx)
					}
				}
			}
		}
		ng := 0
		for _, run := range t.Runs {
			ng += len(run.Glyphs)
		}
		c.R.add(Ev{Canvas: c.ID, Page: c.PageIx, Depth: c.depth, Op: "DrawText",
			F: []float32{t.FontSize, t.ScaleX, t.X, t.Y, t.Angle, float32(ng)}, S: string(t.Text)})
	}
	c.ev("DrawTextEnd", float32(len(texts)))
}

func (c *RCanvas) DrawRasterImage(image backend.RasterImage, width, height fl) {
	c.R.add(Ev{Canvas: c.ID, Page: c.PageIx, Depth: c.depth, Op: "DrawRasterImage", F: []float32{width, height, float32(image.ID)}, S: image.MimeType + "|" + image.Rendering})
}

func (c *RCanvas) DrawGradient(g backend.GradientLayout, width, height fl) {
	f := []float32{width, height, g.ScaleY}
	f = append(f, g.Coords[:]...)
	f = append(f, g.Positions...)
	for _, col := range g.Colors {
		f = append(f, col.R, col.G, col.B, col.A)
	}
	rep := ""
	if g.Reapeating {
		rep = "|repeating"
	}
	c.R.add(Ev{Canvas: c.ID, Page: c.PageIx, Depth: c.depth, Op: "DrawGradient", F: f, S: g.Kind + rep})
}

// ---- GraphicState

func (c *RCanvas) SetAlphaMask(mask backend.Canvas) {
	c.R.add(Ev{Canvas: c.ID, Page: c.PageIx, Depth: c.depth, Op: "SetAlphaMask", Ref: c.refOf(mask)})
}

func (c *RCanvas) Clip(evenOdd bool) {
	if !c.hasPath {
		c.R.problem("protocol: Clip without a path (page %d)", c.PageIx)
	}
	c.hasPath = false
	c.hasPt = false
	eo := float32(0)
	if evenOdd {
		eo = 1
	}
	c.ev("Clip", eo)
}

func b2f(b bool) float32 {
	if b {
		return 1
	}
	return 0
}

func (c *RCanvas) SetAlpha(alpha fl, stroke bool) {
	c.ev("SetAlpha", alpha, b2f(stroke))
	if alpha < 0 || alpha > 1 {
		c.R.problem("range: SetAlpha(%v)", alpha)
	}
}

func (c *RCanvas) SetColorRgba(color parser.RGBA, stroke bool) {
	c.ev("SetColorRgba", color.R, color.G, color.B, color.A, b2f(stroke))
}

func (c *RCanvas) SetColorPattern(pattern backend.Canvas, contentWidth, contentHeight fl, mat matrix.Transform, stroke bool) {
	c.R.add(Ev{Canvas: c.ID, Page: c.PageIx, Depth: c.depth, Op: "SetColorPattern",
		F: []float32{contentWidth, contentHeight, mat.A, mat.B, mat.C, mat.D, mat.E, mat.F, b2f(stroke)}, Ref: c.refOf(pattern)})
}

func (c *RCanvas) SetBlendingMode(mode string) {
	c.R.add(Ev{Canvas: c.ID, Page: c.PageIx, Depth: c.depth, Op: "SetBlendingMode", S: mode})
}

func (c *RCanvas) SetLineWidth(width fl) { c.ev("SetLineWidth", width) }

func (c *RCanvas) SetDash(dashes []fl, offset fl) {
	f := append([]float32{offset}, dashes...)
	c.ev("SetDash", f...)
}

func (c *RCanvas) SetStrokeOptions(o backend.StrokeOptions) {
	c.ev("SetStrokeOptions", float32(o.LineCap), float32(o.LineJoin), o.MiterLimit)
}

func (c *RCanvas) GetTransform() matrix.Transform { return c.ctm[c.top()] }

func (c *RCanvas) Transform(mt matrix.Transform) {
	c.ev("Transform", mt.A, mt.B, mt.C, mt.D, mt.E, mt.F)
	// PDF `cm` semantics: new CTM = mt x CTM (mt applied first)
	c.ctm[c.top()] = matrix.Mul(c.ctm[c.top()], mt)
}

func (c *RCanvas) SetTextPaint(op backend.PaintOp) { c.ev("SetTextPaint", float32(op)) }

// ---- pages

type RPage struct {
	*RCanvas
}

func (p *RPage) AddInternalLink(xMin, yMin, xMax, yMax fl, anchorName string) {
	p.R.add(Ev{Canvas: p.ID, Page: p.PageIx, Op: "AddInternalLink", F: []float32{xMin, yMin, xMax, yMax}, S: anchorName})
}

func (p *RPage) AddExternalLink(xMin, yMin, xMax, yMax fl, url string) {
	p.R.add(Ev{Canvas: p.ID, Page: p.PageIx, Op: "AddExternalLink", F: []float32{xMin, yMin, xMax, yMax}, S: url})
}

func (p *RPage) AddFileAnnotation(xMin, yMin, xMax, yMax fl, fileID string) {
	p.R.add(Ev{Canvas: p.ID, Page: p.PageIx, Op: "AddFileAnnotation", F: []float32{xMin, yMin, xMax, yMax}, S: fileID})
}

func (p *RPage) SetMediaBox(left, top, right, bottom fl) {
	p.ev("SetMediaBox", left, top, right, bottom)
}
func (p *RPage) SetTrimBox(left, top, right, bottom fl) { p.ev("SetTrimBox", left, top, right, bottom) }
func (p *RPage) SetBleedBox(left, top, right, bottom fl) {
	p.ev("SetBleedBox", left, top, right, bottom)
}

// Trace returns the canonical serialisation of all events.
func (r *Recorder) Trace() string {
	var b strings.Builder
	for _, e := range r.Events {
		b.WriteString(e.String())
		b.WriteByte('\n')
	}
	return b.String()
}

// TextsPerPage returns the DrawText strings per page, in call order.
func (r *Recorder) TextsPerPage() [][]string {
	out := make([][]string, r.NPages)
	for _, e := range r.Events {
		if e.Op == "DrawText" && e.Page >= 0 && e.Page < r.NPages {
			out[e.Page] = append(out[e.Page], e.S)
		}
	}
	return out
}
