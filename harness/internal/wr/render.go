package wr

import (
	"bytes"
	"io"
	"sync"

	bo "github.com/benoitkugler/webrender/html/boxes"
	"github.com/benoitkugler/webrender/html/document"
	"github.com/benoitkugler/webrender/html/tree"
	"github.com/benoitkugler/webrender/logger"
	"github.com/benoitkugler/webrender/text"
	"github.com/benoitkugler/webrender/utils"
)

// Opts selects a rendering configuration.
type Opts struct {
	Engine  string   `json:"engine,omitempty"` // "pango" (default) or "gotext"
	Hints   bool     `json:"hints,omitempty"`  // presentational hints
	UserCSS []string `json:"user_css,omitempty"`
	Zoom    float32  `json:"zoom,omitempty"` // 0 = 1
	TestUA  bool     `json:"test_ua,omitempty"`
	UACSS   string   `json:"ua_css,omitempty"` // replaces the UA sheet when non-empty
	BaseURL string   `json:"base_url,omitempty"`
	Media   string   `json:"media,omitempty"` // media type the document is rendered for ("" = print)
}

// Rendered is the outcome of the full pipeline.
type Rendered struct {
	HTML  *tree.HTML
	Doc   document.Document
	Pages []*bo.PageBox
	Rec   *Recorder
	Log   string
}

var logMu sync.Mutex

// CaptureLog redirects the warning logger to a buffer during f.
// Not safe for concurrent renders (the logger is process-global); callers that
// render concurrently must use SilenceLog once instead.
func CaptureLog(f func()) string {
	logMu.Lock()
	defer logMu.Unlock()
	var buf bytes.Buffer
	logger.WarningLogger.SetOutput(&buf)
	logger.ProgressLogger.SetOutput(io.Discard)
	defer logger.WarningLogger.SetOutput(io.Discard)
	f()
	return buf.String()
}

func SilenceLog() {
	logger.WarningLogger.SetOutput(io.Discard)
	logger.ProgressLogger.SetOutput(io.Discard)
}

func init() { SilenceLog() }

var (
	pangoOnce sync.Once
	pangoFC   *text.FontConfigurationPango
	gotextFC  *text.FontConfigurationGotext
	gtOnce    sync.Once
)

// SharedFC returns a process-wide font configuration for the engine.
func SharedFC(engine string) text.FontConfiguration {
	if engine == "gotext" {
		gtOnce.Do(func() {
			var err error
			gotextFC, err = NewGotext()
			if err != nil {
				panic("verif infra: " + err.Error())
			}
		})
		return gotextFC
	}
	pangoOnce.Do(func() {
		var err error
		pangoFC, err = NewPango()
		if err != nil {
			panic("verif infra: " + err.Error())
		}
	})
	return pangoFC
}

// FreshFC returns a new font configuration for the engine.
func FreshFC(engine string) text.FontConfiguration {
	if engine == "gotext" {
		f, err := NewGotext()
		if err != nil {
			panic("verif infra: " + err.Error())
		}
		return f
	}
	f, err := NewPango()
	if err != nil {
		panic("verif infra: " + err.Error())
	}
	return f
}

// ParseHTML builds the tree.HTML for a source text.
func ParseHTML(src string, o Opts) (*tree.HTML, error) {
	base := o.BaseURL
	if base == "" {
		base = "file:///verif-nonexistent/"
	}
	h, err := tree.NewHTML(utils.InputString(src), base, Fetcher, o.Media)
	if err != nil {
		return nil, err
	}
	if o.TestUA {
		h.UAStyleSheet = tree.TestUAStylesheet
	}
	if o.UACSS != "" {
		ua, err := tree.NewCSSDefault(utils.InputString(o.UACSS))
		if err != nil {
			return nil, err
		}
		h.UAStyleSheet = ua
	}
	return h, nil
}

func UserSheets(o Opts) ([]tree.CSS, error) {
	var out []tree.CSS
	for _, s := range o.UserCSS {
		c, err := tree.NewCSSDefault(utils.InputString(s))
		if err != nil {
			return nil, err
		}
		out = append(out, c)
	}
	return out, nil
}

// RenderWith runs NewHTML -> Render -> Write(recorder) with the given font configuration.
// A non-nil error means the input was rejected by NewHTML / NewCSS (not a failure).
func RenderWith(src string, o Opts, fc text.FontConfiguration) (*Rendered, error) {
	h, err := ParseHTML(src, o)
	if err != nil {
		return nil, err
	}
	css, err := UserSheets(o)
	if err != nil {
		return nil, err
	}
	doc := document.Render(h, css, o.Hints, fc)
	out := &Rendered{HTML: h, Doc: doc}
	for _, p := range doc.Pages {
		out.Pages = append(out.Pages, p.VerifPageBox())
	}
	out.Rec = NewRecorder()
	zoom := o.Zoom
	if zoom == 0 {
		zoom = 1
	}
	doc.Write(out.Rec, zoom, nil)
	return out, nil
}

// Render uses the shared font configuration of the engine.
func Render(src string, o Opts) (*Rendered, error) {
	return RenderWith(src, o, SharedFC(o.Engine))
}
