// Package tok defines a neutral representation of CSS component values, used
// to compare the tokens produced by css/parser with the reference tokenizer
// (internal/ref/csssyntax) and across a serialize/re-tokenize round trip.
package tok

import (
	"fmt"
	"math"
	"strings"

	"github.com/benoitkugler/webrender/css/parser"
)

type Tok struct {
	Kind  string  `json:"k"`           // ident, at-keyword, hash, string, url, number, percentage, dimension, unicode-range, whitespace, comment, literal, error, (), [], {}, function
	Value string  `json:"v,omitempty"` // unescaped value / literal text / function name / error kind
	Repr  string  `json:"r,omitempty"` // numeric representation
	Num   float32 `json:"n,omitempty"`
	Int   bool    `json:"i,omitempty"`
	Unit  string  `json:"u,omitempty"`
	IsID  bool    `json:"id,omitempty"`  // hash type flag
	Err   bool    `json:"err,omitempty"` // unterminated string/url
	Start uint32  `json:"s,omitempty"`
	End   uint32  `json:"e,omitempty"`
	Args  []Tok   `json:"a,omitempty"`
	Line  int     `json:"-"`
	Col   int     `json:"-"`
}

func (t Tok) String() string {
	var b strings.Builder
	b.WriteString(t.Kind)
	switch t.Kind {
	case "number", "percentage", "dimension":
		fmt.Fprintf(&b, "(%q=%v int=%v", t.Repr, t.Num, t.Int)
		if t.Kind == "dimension" {
			fmt.Fprintf(&b, " unit=%q", t.Unit)
		}
		b.WriteString(")")
	case "unicode-range":
		fmt.Fprintf(&b, "(%X-%X)", t.Start, t.End)
	case "(", "[", "{", "function":
		fmt.Fprintf(&b, "%q[", t.Value)
		for i, a := range t.Args {
			if i > 0 {
				b.WriteString(" ")
			}
			b.WriteString(a.String())
		}
		b.WriteString("]")
	default:
		fmt.Fprintf(&b, "(%q", t.Value)
		if t.IsID {
			b.WriteString(" id")
		}
		if t.Err {
			b.WriteString(" err")
		}
		b.WriteString(")")
	}
	return b.String()
}

func ListString(l []Tok) string {
	var parts []string
	for _, t := range l {
		parts = append(parts, t.String())
	}
	return strings.Join(parts, " ")
}

// FromParser converts the implementation's tokens.
func FromParser(l []parser.Token) []Tok {
	out := make([]Tok, 0, len(l))
	for _, t := range l {
		out = append(out, From(t))
	}
	return out
}

func From(t parser.Token) Tok {
	p := t.Pos()
	o := Tok{Line: p.Line, Col: p.Column}
	switch v := t.(type) {
	case parser.Literal:
		o.Kind, o.Value = "literal", v.Value
	case parser.ParseError:
		o.Kind, o.Value = "error", string(parser.VerifParseErrorKind(v))
	case parser.Comment:
		o.Kind, o.Value = "comment", v.Value
	case parser.Whitespace:
		o.Kind, o.Value = "whitespace", v.Value
	case parser.Ident:
		o.Kind, o.Value = "ident", v.Value
	case parser.AtKeyword:
		o.Kind, o.Value = "at-keyword", v.Value
	case parser.Hash:
		o.Kind, o.Value, o.IsID = "hash", v.Value, parser.VerifHashIsID(v)
	case parser.String:
		o.Kind, o.Value, o.Err = "string", v.Value, parser.VerifStringHasError(v)
	case parser.URL:
		o.Kind, o.Value, o.Err = "url", v.Value, parser.VerifURLHasError(v)
	case parser.UnicodeRange:
		o.Kind, o.Start, o.End = "unicode-range", v.Start, v.End
	case parser.Number:
		o.Kind, o.Repr, o.Num, o.Int = "number", v.Value, v.ValueF, v.IsInt()
	case parser.Percentage:
		o.Kind, o.Repr, o.Num, o.Int = "percentage", v.Value, v.ValueF, v.IsInt()
	case parser.Dimension:
		o.Kind, o.Repr, o.Num, o.Int, o.Unit = "dimension", v.Value, v.ValueF, v.IsInt(), v.Unit
	case parser.ParenthesesBlock:
		o.Kind, o.Args = "(", FromParser(v.Arguments)
	case parser.SquareBracketsBlock:
		o.Kind, o.Args = "[", FromParser(v.Arguments)
	case parser.CurlyBracketsBlock:
		o.Kind, o.Args = "{", FromParser(v.Arguments)
	case parser.FunctionBlock:
		o.Kind, o.Value, o.Args = "function", v.Name, FromParser(v.Arguments)
	default:
		o.Kind = fmt.Sprintf("unknown:%T", t)
	}
	return o
}

// HasError reports whether the list contains an error token or an error-flagged string/url.
func HasError(l []Tok) bool {
	for _, t := range l {
		if t.Kind == "error" || t.Err {
			return true
		}
		if HasError(t.Args) {
			return true
		}
	}
	return false
}

// Normalize drops comments and merges runs of adjacent white space into one
// value-less token (recursively). Used by the round-trip relation, which
// ignores comments and cannot preserve the split of adjacent white space.
func Normalize(l []Tok) []Tok {
	out := make([]Tok, 0, len(l))
	for _, t := range l {
		if t.Kind == "comment" {
			continue
		}
		if t.Kind == "whitespace" {
			if len(out) > 0 && out[len(out)-1].Kind == "whitespace" {
				continue
			}
			t.Value = ""
		}
		t.Args = Normalize(t.Args)
		t.Line, t.Col = 0, 0
		out = append(out, t)
	}
	return out
}

func numEq(a, b float32) bool {
	if math.IsNaN(float64(a)) && math.IsNaN(float64(b)) {
		return true
	}
	return a == b
}

// Diff returns "" when the lists are equal on every compared field, else a description
// of the first difference (path + both tokens). pos selects source position comparison.
func Diff(a, b []Tok, pos bool) string {
	return diff(a, b, pos, "")
}

func diff(a, b []Tok, pos bool, path string) string {
	n := len(a)
	if len(b) < n {
		n = len(b)
	}
	for i := 0; i < n; i++ {
		x, y := a[i], b[i]
		p := fmt.Sprintf("%s[%d]", path, i)
		if x.Kind != y.Kind || x.Value != y.Value || x.Repr != y.Repr || !numEq(x.Num, y.Num) || x.Int != y.Int || x.Unit != y.Unit ||
			x.IsID != y.IsID || x.Err != y.Err || x.Start != y.Start || x.End != y.End {
			return fmt.Sprintf("at %s: %s  vs  %s", p, x.String(), y.String())
		}
		if pos && (x.Line != y.Line || x.Col != y.Col) {
			return fmt.Sprintf("at %s: position of %s: %d:%d vs %d:%d", p, x.String(), x.Line, x.Col, y.Line, y.Col)
		}
		if d := diff(x.Args, y.Args, pos, p); d != "" {
			return d
		}
	}
	if len(a) != len(b) {
		var extra Tok
		if len(a) > n {
			extra = a[n]
		} else {
			extra = b[n]
		}
		return fmt.Sprintf("at %s: length %d vs %d (first extra: %s)", path, len(a), len(b), extra.String())
	}
	return ""
}

// Class is a coarse classification of a difference (for signatures).
func Class(a, b []Tok) string {
	n := len(a)
	if len(b) < n {
		n = len(b)
	}
	for i := 0; i < n; i++ {
		x, y := a[i], b[i]
		if x.Kind != y.Kind {
			return x.Kind + "->" + y.Kind
		}
		if x.Value != y.Value {
			return x.Kind + ".value"
		}
		if x.Repr != y.Repr {
			return x.Kind + ".repr"
		}
		if !numEq(x.Num, y.Num) {
			return x.Kind + ".num"
		}
		if x.Int != y.Int {
			return x.Kind + ".int"
		}
		if x.Unit != y.Unit {
			return x.Kind + ".unit"
		}
		if x.IsID != y.IsID {
			return x.Kind + ".idflag"
		}
		if x.Err != y.Err {
			return x.Kind + ".errflag"
		}
		if x.Start != y.Start || x.End != y.End {
			return x.Kind + ".range"
		}
		if c := Class(x.Args, y.Args); c != "" {
			return c
		}
	}
	if len(a) != len(b) {
		if len(a) > n {
			return "missing:" + a[n].Kind
		}
		return "extra:" + b[n].Kind
	}
	return ""
}
