// Package selgen holds the selector AST, its generator and printer, a DOM
// generator, and an independent reference evaluator written from Selectors
// Level 4 (matching and specificity). It is the oracle of property C05 and the
// selector source of C03.
package selgen

import (
	"fmt"
	"strings"

	"golang.org/x/net/html"
	"pgregory.net/rapid"
)

type Simple struct {
	Kind   string    `json:"k"` // type universal class id attr nth only root empty not is has
	Name   string    `json:"n,omitempty"`
	Op     string    `json:"op,omitempty"` // attr: "" = ~= |= ^= $= *=
	Val    string    `json:"v,omitempty"`
	Flag   bool      `json:"i,omitempty"` // attr i flag
	A      int       `json:"a,omitempty"`
	B      int       `json:"b,omitempty"`
	Last   bool      `json:"last,omitempty"`
	OfType bool      `json:"oftype,omitempty"`
	Args   []Complex `json:"args,omitempty"`
	Spell  string    `json:"spell,omitempty"` // printing choice for nth: "an+b", "odd", "even", "first", "last", ...
}

type Compound struct {
	Simples []Simple `json:"s"`
}

type Complex struct {
	Compounds []Compound `json:"c"`
	Combs     []string   `json:"comb,omitempty"` // " ", ">", "+", "~"
}

type Selector struct {
	Complex
	PseudoElement string `json:"pe,omitempty"`
}

type Group []Selector

// ---- generator

var (
	Tags    = []string{"div", "span", "p", "a", "b", "x-foo", "x-bar", "section"}
	Classes = []string{"ka", "kb", "kc", "Ka", "k-a", "1a", "-", "é"}
	IDs     = []string{"ia", "ib", "ic", "1b"}
	AttrKs  = []string{"title", "lang", "data-x", "class", "id"}
	AttrVs  = []string{"", "en", "en-US", "EN", "fr", "ab", "b", "a b", "ab cd", " ", "a-b", "ka", "ka kb", "\u212a", "k", "x", "en-", "x\"y", "a\\b", "it's", "\u00a0",
		// pairs of ASCII characters that are 0x20 apart without being the two cases of a letter
		"[x]", "{x}", "a^b", "a~b", "EN@", "en`", "a_b", "a\x7fb", "@", "`"}
)

func genSimple(t *rapid.T, depth int) Simple {
	k := rapid.IntRange(0, 11).Draw(t, "sk")
	switch k {
	case 0, 1:
		return Simple{Kind: "class", Name: rapid.SampledFrom(Classes).Draw(t, "cls")}
	case 2:
		return Simple{Kind: "id", Name: rapid.SampledFrom(IDs).Draw(t, "id")}
	case 3, 4:
		s := Simple{Kind: "attr", Name: rapid.SampledFrom(AttrKs).Draw(t, "ak")}
		s.Op = rapid.SampledFrom([]string{"", "=", "~=", "|=", "^=", "$=", "*="}).Draw(t, "aop")
		if s.Op != "" {
			s.Val = rapid.SampledFrom(AttrVs).Draw(t, "av")
			s.Flag = rapid.IntRange(0, 3).Draw(t, "iflag") == 0
		}
		return s
	case 5, 6:
		s := Simple{Kind: "nth"}
		s.Last = rapid.Bool().Draw(t, "last")
		s.OfType = rapid.Bool().Draw(t, "oftype")
		switch rapid.IntRange(0, 5).Draw(t, "nthform") {
		case 0:
			s.A, s.B, s.Spell = 2, 1, "odd"
		case 1:
			s.A, s.B, s.Spell = 2, 0, "even"
		case 2:
			s.A, s.B, s.Spell = 0, 1, "first"
		default:
			s.A = rapid.IntRange(-4, 4).Draw(t, "a")
			s.B = rapid.IntRange(-4, 4).Draw(t, "b")
			s.Spell = "an+b"
		}
		return s
	case 7:
		return Simple{Kind: "only", OfType: rapid.Bool().Draw(t, "onlytype")}
	case 8:
		return Simple{Kind: rapid.SampledFrom([]string{"root", "empty", "empty"}).Draw(t, "rk")}
	default:
		if depth <= 0 {
			return Simple{Kind: "class", Name: rapid.SampledFrom(Classes).Draw(t, "cls2")}
		}
		s := Simple{Kind: rapid.SampledFrom([]string{"not", "is", "has"}).Draw(t, "fk")}
		n := rapid.IntRange(1, 2).Draw(t, "nargs")
		for i := 0; i < n; i++ {
			maxc := 2
			s.Args = append(s.Args, genComplex(t, depth-1, maxc))
		}
		return s
	}
}

func genCompound(t *rapid.T, depth int) Compound {
	var c Compound
	switch rapid.IntRange(0, 3).Draw(t, "head") {
	case 0:
		c.Simples = append(c.Simples, Simple{Kind: "type", Name: rapid.SampledFrom(Tags).Draw(t, "tag")})
	case 1:
		if rapid.Bool().Draw(t, "univ") {
			c.Simples = append(c.Simples, Simple{Kind: "universal"})
		} else {
			c.Simples = append(c.Simples, Simple{Kind: "type", Name: rapid.SampledFrom(Tags).Draw(t, "tag2")})
		}
	}
	n := rapid.IntRange(0, 2).Draw(t, "nsimple")
	if len(c.Simples) == 0 && n == 0 {
		n = 1
	}
	for i := 0; i < n; i++ {
		c.Simples = append(c.Simples, genSimple(t, depth))
	}
	return c
}

func genComplex(t *rapid.T, depth, maxCompounds int) Complex {
	n := rapid.IntRange(1, maxCompounds).Draw(t, "ncomp")
	var c Complex
	for i := 0; i < n; i++ {
		if i > 0 {
			c.Combs = append(c.Combs, rapid.SampledFrom([]string{" ", ">", "+", "~"}).Draw(t, "comb"))
		}
		c.Compounds = append(c.Compounds, genCompound(t, depth))
	}
	return c
}

func GenGroup(t *rapid.T, depth int) Group {
	n := rapid.IntRange(1, 2).Draw(t, "ngroup")
	var g Group
	for i := 0; i < n; i++ {
		s := Selector{Complex: genComplex(t, depth, 3)}
		if rapid.IntRange(0, 5).Draw(t, "pe") == 0 {
			s.PseudoElement = rapid.SampledFrom([]string{"before", "after", "marker", "first-line", "first-letter"}).Draw(t, "pename")
		}
		g = append(g, s)
	}
	return g
}

// ---- printer (with spelling variants drawn from t; pass nil for the canonical spelling)

type Printer struct{ T *rapid.T }

func (p Printer) pick(label string, opts ...string) string {
	if p.T == nil {
		return opts[0]
	}
	return rapid.SampledFrom(opts).Draw(p.T, label)
}

func (p Printer) flipCase(s string) string {
	if p.T == nil || !rapid.Bool().Draw(p.T, "flip") {
		return s
	}
	return strings.ToUpper(s)
}

func isIdentRune(r rune, first bool) bool {
	if r >= 'a' && r <= 'z' || r >= 'A' && r <= 'Z' || r == '_' || r >= 0x80 {
		return true
	}
	if !first && (r >= '0' && r <= '9' || r == '-') {
		return true
	}
	return false
}

// Ident prints an identifier, escaping what must be escaped (and sometimes more).
func (p Printer) Ident(s string) string {
	var b strings.Builder
	for i, r := range s {
		esc := false
		switch {
		case i == 0 && r == '-' && len(s) > 1:
			// leading hyphen is fine when followed by an ident start
			rs := []rune(s)
			if !isIdentRune(rs[1], true) && rs[1] != '-' {
				esc = true
			}
		case !isIdentRune(r, i == 0):
			esc = true
		}
		if !esc && p.T != nil && rapid.IntRange(0, 9).Draw(p.T, "esc") == 0 {
			esc = true
		}
		if esc {
			if r >= '0' && r <= '9' || r >= 'a' && r <= 'f' || r >= 'A' && r <= 'F' || r < 0x20 || p.pick("escform", "simple", "hex") == "hex" {
				fmt.Fprintf(&b, "\\%x ", r)
			} else {
				b.WriteString("\\" + string(r))
			}
		} else {
			b.WriteRune(r)
		}
	}
	return b.String()
}

func (p Printer) attrValue(v string) string {
	identOK := v != ""
	for i, r := range v {
		if !isIdentRune(r, i == 0) {
			identOK = false
		}
	}
	form := "dq"
	if identOK {
		form = p.pick("avform", "ident", "dq", "sq")
	} else {
		form = p.pick("avform2", "dq", "sq")
	}
	switch form {
	case "ident":
		return v
	case "sq":
		return "'" + strings.ReplaceAll(strings.ReplaceAll(v, "\\", "\\\\"), "'", "\\'") + "'"
	}
	return "\"" + strings.ReplaceAll(strings.ReplaceAll(v, "\\", "\\\\"), "\"", "\\\"") + "\""
}

func (p Printer) nth(s Simple) string {
	switch s.Spell {
	case "odd":
		return p.flipCase("odd")
	case "even":
		return p.flipCase("even")
	}
	a, b := s.A, s.B
	ws := p.pick("nthws", "", "", " ")
	if a == 0 {
		return ws + fmt.Sprintf("%d", b) + ws
	}
	var sa string
	switch a {
	case 1:
		sa = p.pick("a1", "n", "1n", "+n")
	case -1:
		sa = p.pick("am1", "-n", "-1n")
	default:
		sa = fmt.Sprintf("%dn", a)
	}
	switch {
	case b == 0:
		return ws + sa + p.pick("b0", "", "+0", "-0") + ws
	case b > 0:
		return ws + sa + p.pick("bsep", "+", " + ") + fmt.Sprintf("%d", b) + ws
	default:
		return ws + sa + p.pick("bsepn", "-", " - ") + fmt.Sprintf("%d", -b) + ws
	}
}

func (p Printer) Simple(s Simple) string {
	switch s.Kind {
	case "type":
		return p.flipCase(s.Name)
	case "universal":
		return "*"
	case "class":
		return "." + p.Ident(s.Name)
	case "id":
		return "#" + p.Ident(s.Name)
	case "attr":
		ws := p.pick("aws", "", "", " ")
		out := "[" + ws + p.flipCase(s.Name) + ws
		if s.Op != "" {
			out += s.Op + ws + p.attrValue(s.Val)
			if s.Flag {
				out += " " + p.pick("iflag", "i", "I")
			}
			out += ws
		}
		return out + "]"
	case "nth":
		if s.Spell == "first" {
			name := "first"
			if s.Last {
				name = "last"
			}
			if s.OfType {
				return ":" + name + "-of-type"
			}
			return ":" + p.flipCase(name+"-child")
		}
		name := "nth-"
		if s.Last {
			name += "last-"
		}
		if s.OfType {
			name += "of-type"
		} else {
			name += "child"
		}
		return ":" + name + "(" + p.nth(s) + ")"
	case "only":
		if s.OfType {
			return ":only-of-type"
		}
		return ":only-child"
	case "root":
		return ":root"
	case "empty":
		return ":empty"
	case "not", "is", "has":
		var args []string
		for _, a := range s.Args {
			args = append(args, p.Complex(a))
		}
		ws := p.pick("fws", "", "", " ")
		return ":" + s.Kind + "(" + ws + strings.Join(args, p.pick("argsep", ",", ", ", " , ")) + ws + ")"
	}
	return "?"
}

func (p Printer) Compound(c Compound) string {
	var b strings.Builder
	for _, s := range c.Simples {
		b.WriteString(p.Simple(s))
	}
	return b.String()
}

func (p Printer) Complex(c Complex) string {
	var b strings.Builder
	for i, cp := range c.Compounds {
		if i > 0 {
			switch c.Combs[i-1] {
			case " ":
				b.WriteString(p.pick("descws", " ", "  ", "\t", "\n"))
			default:
				b.WriteString(p.pick("combws", "", " ", " ") + c.Combs[i-1] + p.pick("combws2", "", " "))
			}
		}
		b.WriteString(p.Compound(cp))
	}
	return b.String()
}

func (p Printer) Selector(s Selector) string {
	out := p.Complex(s.Complex)
	if s.PseudoElement != "" {
		out += p.pick("pecolon", "::", "::", ":") + s.PseudoElement
	}
	return out
}

func (p Printer) Group(g Group) string {
	var parts []string
	for _, s := range g {
		parts = append(parts, p.Selector(s))
	}
	return strings.Join(parts, p.pick("gsep", ",", ", ", " , ", ",\n"))
}

// ---- DOM generator

type Elem struct {
	Tag      string            `json:"t"`
	Attrs    map[string]string `json:"at,omitempty"`
	Children []Elem            `json:"ch,omitempty"`
	Text     string            `json:"x,omitempty"` // text placed before the children
	Comment  bool              `json:"cm,omitempty"`
}

func genElem(t *rapid.T, depth int, budget *int) Elem {
	*budget--
	e := Elem{Tag: rapid.SampledFrom(Tags).Draw(t, "etag")}
	if rapid.Bool().Draw(t, "hascls") {
		n := rapid.IntRange(1, 2).Draw(t, "ncls")
		var cs []string
		for i := 0; i < n; i++ {
			cs = append(cs, rapid.SampledFrom(Classes).Draw(t, "ecls"))
		}
		// (the last five are no white space for a class list: the names they join are one class)
		e.Attrs = map[string]string{"class": strings.Join(cs, rapid.SampledFrom([]string{" ", " ", "  ", "\t", "\n", "\f", "\u00a0", "\v", "\u0085", "\u3000", "\u2003"}).Draw(t, "clssep"))}
	}
	if rapid.IntRange(0, 2).Draw(t, "hasid") == 0 {
		if e.Attrs == nil {
			e.Attrs = map[string]string{}
		}
		e.Attrs["id"] = rapid.SampledFrom(IDs).Draw(t, "eid")
	}
	if rapid.IntRange(0, 1).Draw(t, "hasattr") == 0 {
		if e.Attrs == nil {
			e.Attrs = map[string]string{}
		}
		e.Attrs[rapid.SampledFrom([]string{"title", "lang", "data-x"}).Draw(t, "eak")] = rapid.SampledFrom(AttrVs).Draw(t, "eav")
	}
	e.Text = rapid.SampledFrom([]string{"", "", "", " ", "\n\t", "\u00a0", "\u2003", "x", " y "}).Draw(t, "etext")
	e.Comment = rapid.IntRange(0, 5).Draw(t, "ecomment") == 0
	if depth > 0 {
		n := rapid.IntRange(0, 4).Draw(t, "nkids")
		for i := 0; i < n && *budget > 0; i++ {
			e.Children = append(e.Children, genElem(t, depth-1, budget))
		}
	}
	return e
}

// GenDOM generates a body content of at most maxElems elements.
func GenDOM(t *rapid.T, maxElems int) []Elem {
	budget := maxElems
	n := rapid.IntRange(1, 3).Draw(t, "ntop")
	var out []Elem
	for i := 0; i < n && budget > 0; i++ {
		out = append(out, genElem(t, 3, &budget))
	}
	return out
}

func (e Elem) HTML(b *strings.Builder) {
	b.WriteString("<" + e.Tag)
	// deterministic attribute order
	for _, k := range []string{"id", "class", "title", "lang", "data-x"} {
		if v, ok := e.Attrs[k]; ok {
			fmt.Fprintf(b, " %s=\"%s\"", k, html.EscapeString(v))
		}
	}
	b.WriteString(">")
	if e.Comment {
		b.WriteString("<!-- c -->")
	}
	b.WriteString(html.EscapeString(e.Text))
	for _, c := range e.Children {
		c.HTML(b)
	}
	b.WriteString("</" + e.Tag + ">")
}

func DocHTML(body []Elem) string {
	var b strings.Builder
	b.WriteString("<!DOCTYPE html><html><head><title>t</title></head><body>")
	for _, e := range body {
		e.HTML(&b)
	}
	b.WriteString("</body></html>")
	return b.String()
}
