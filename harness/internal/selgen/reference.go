package selgen

import (
	"strings"

	"golang.org/x/net/html"
)

// Reference evaluator, written from Selectors Level 4 for HTML documents in
// no-quirks mode. It never calls the package under test.

func asciiLower(s string) string {
	b := []byte(s)
	for i, c := range b {
		if c >= 'A' && c <= 'Z' {
			b[i] = c + 32
		}
	}
	return string(b)
}

func attrOf(n *html.Node, name string) (string, bool) {
	name = asciiLower(name)
	for _, a := range n.Attr {
		if a.Namespace == "" && a.Key == name {
			return a.Val, true
		}
	}
	return "", false
}

func isHTMLSpace(c byte) bool {
	return c == ' ' || c == '\t' || c == '\n' || c == '\r' || c == '\f'
}

func splitSpaces(s string) []string {
	return strings.FieldsFunc(s, func(r rune) bool { return r < 0x80 && isHTMLSpace(byte(r)) })
}

func elemSiblings(n *html.Node) []*html.Node {
	var out []*html.Node
	if n.Parent == nil {
		return []*html.Node{n}
	}
	for c := n.Parent.FirstChild; c != nil; c = c.NextSibling {
		if c.Type == html.ElementNode {
			out = append(out, c)
		}
	}
	return out
}

func sameType(a, b *html.Node) bool { return a.Data == b.Data && a.Namespace == b.Namespace }

func matchNth(a, b, index int) bool {
	// exists n >= 0 with a*n + b == index
	if a == 0 {
		return index == b
	}
	d := index - b
	return d%a == 0 && d/a >= 0
}

func MatchSimple(s Simple, n *html.Node) bool {
	switch s.Kind {
	case "type":
		return n.Data == asciiLower(s.Name)
	case "universal":
		return true
	case "class":
		v, ok := attrOf(n, "class")
		if !ok {
			return false
		}
		for _, c := range splitSpaces(v) {
			if c == s.Name {
				return true
			}
		}
		return false
	case "id":
		v, ok := attrOf(n, "id")
		return ok && v == s.Name
	case "attr":
		v, ok := attrOf(n, s.Name)
		if !ok {
			return false
		}
		want := s.Val
		if s.Flag {
			v, want = asciiLower(v), asciiLower(want)
		}
		switch s.Op {
		case "":
			return true
		case "=":
			return v == want
		case "~=":
			if want == "" || strings.IndexFunc(want, func(r rune) bool { return r < 0x80 && isHTMLSpace(byte(r)) }) >= 0 {
				return false
			}
			for _, w := range splitSpaces(v) {
				if w == want {
					return true
				}
			}
			return false
		case "|=":
			return v == want || strings.HasPrefix(v, want+"-")
		case "^=":
			return want != "" && strings.HasPrefix(v, want)
		case "$=":
			return want != "" && strings.HasSuffix(v, want)
		case "*=":
			return want != "" && strings.Contains(v, want)
		}
		return false
	case "nth":
		sibs := elemSiblings(n)
		var of []*html.Node
		for _, x := range sibs {
			if !s.OfType || sameType(x, n) {
				of = append(of, x)
			}
		}
		idx := 0
		for i, x := range of {
			if x == n {
				idx = i + 1
				if s.Last {
					idx = len(of) - i
				}
			}
		}
		return matchNth(s.A, s.B, idx)
	case "only":
		cnt := 0
		for _, x := range elemSiblings(n) {
			if !s.OfType || sameType(x, n) {
				cnt++
			}
		}
		return cnt == 1
	case "root":
		return n.Parent != nil && n.Parent.Type == html.DocumentNode
	case "empty":
		for c := n.FirstChild; c != nil; c = c.NextSibling {
			switch c.Type {
			case html.ElementNode:
				return false
			case html.TextNode:
				for i := 0; i < len(c.Data); i++ {
					if !isHTMLSpace(c.Data[i]) {
						return false
					}
				}
			}
		}
		return true
	case "not":
		for _, a := range s.Args {
			if MatchComplex(a, n, nil) {
				return false
			}
		}
		return true
	case "is":
		for _, a := range s.Args {
			if MatchComplex(a, n, nil) {
				return true
			}
		}
		return false
	case "has":
		// relative selectors with an implied descendant combinator, anchored at n
		var walk func(x *html.Node) bool
		walk = func(x *html.Node) bool {
			for c := x.FirstChild; c != nil; c = c.NextSibling {
				if c.Type != html.ElementNode {
					continue
				}
				for _, a := range s.Args {
					if MatchComplex(a, c, n) {
						return true
					}
				}
				if walk(c) {
					return true
				}
			}
			return false
		}
		return walk(n)
	}
	return false
}

func MatchCompound(c Compound, n *html.Node) bool {
	if n.Type != html.ElementNode {
		return false
	}
	for _, s := range c.Simples {
		if !MatchSimple(s, n) {
			return false
		}
	}
	return true
}

func isDescendantOf(n, anc *html.Node) bool {
	for p := n.Parent; p != nil; p = p.Parent {
		if p == anc {
			return true
		}
	}
	return false
}

// MatchComplex matches right-to-left. scope, when non-nil, restricts every compound
// to (strict) descendants of scope (relative selector inside :has()).
func MatchComplex(c Complex, n *html.Node, scope *html.Node) bool {
	return matchFrom(c, len(c.Compounds)-1, n, scope)
}

func matchFrom(c Complex, i int, n *html.Node, scope *html.Node) bool {
	if n == nil || n.Type != html.ElementNode {
		return false
	}
	if scope != nil && !isDescendantOf(n, scope) {
		return false
	}
	if !MatchCompound(c.Compounds[i], n) {
		return false
	}
	if i == 0 {
		return true
	}
	switch c.Combs[i-1] {
	case " ":
		for p := n.Parent; p != nil; p = p.Parent {
			if matchFrom(c, i-1, p, scope) {
				return true
			}
		}
	case ">":
		return matchFrom(c, i-1, n.Parent, scope)
	case "+":
		for s := n.PrevSibling; s != nil; s = s.PrevSibling {
			if s.Type == html.ElementNode {
				return matchFrom(c, i-1, s, scope)
			}
		}
	case "~":
		for s := n.PrevSibling; s != nil; s = s.PrevSibling {
			if s.Type == html.ElementNode && matchFrom(c, i-1, s, scope) {
				return true
			}
		}
	}
	return false
}

// HasScopeSensitive reports whether the selector holds a :has() whose argument has a
// combinator (the only place where anchoring at the scope element matters).
func HasScopeSensitive(c Complex) bool {
	for _, cp := range c.Compounds {
		for _, s := range cp.Simples {
			for _, a := range s.Args {
				if s.Kind == "has" && len(a.Compounds) > 1 {
					return true
				}
				if HasScopeSensitive(a) {
					return true
				}
			}
		}
	}
	return false
}

// ---- specificity

type Spec [3]int

func less(a, b Spec) bool {
	for i := 0; i < 3; i++ {
		if a[i] != b[i] {
			return a[i] < b[i]
		}
	}
	return false
}

func SpecSimple(s Simple) Spec {
	switch s.Kind {
	case "type":
		return Spec{0, 0, 1}
	case "universal":
		return Spec{}
	case "id":
		return Spec{1, 0, 0}
	case "class", "attr", "nth", "only", "root", "empty":
		return Spec{0, 1, 0}
	case "not", "is", "has":
		var best Spec
		for _, a := range s.Args {
			if sp := SpecComplex(a); less(best, sp) {
				best = sp
			}
		}
		return best
	}
	return Spec{}
}

func SpecComplex(c Complex) Spec {
	var out Spec
	for _, cp := range c.Compounds {
		for _, s := range cp.Simples {
			sp := SpecSimple(s)
			for i := range out {
				out[i] += sp[i]
			}
		}
	}
	return out
}

func SpecSelector(s Selector) Spec {
	out := SpecComplex(s.Complex)
	if s.PseudoElement != "" {
		out[2]++
	}
	return out
}

// Elements returns all element nodes of the tree in document order.
func Elements(root *html.Node) []*html.Node {
	var out []*html.Node
	var walk func(n *html.Node)
	walk = func(n *html.Node) {
		if n.Type == html.ElementNode {
			out = append(out, n)
		}
		for c := n.FirstChild; c != nil; c = c.NextSibling {
			walk(c)
		}
	}
	walk(root)
	return out
}
