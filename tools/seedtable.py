#!/usr/bin/env python3
"""Development aid: rewrite the seeded-change table of DESIGN.md (between the SEEDTABLE markers)
from seeded/*/meta.json."""
import json, os, re
rows = []
for sid in sorted(os.listdir('/verif/seeded')):
    mp = '/verif/seeded/%s/meta.json' % sid
    if not os.path.exists(mp):
        continue
    m = json.load(open(mp))
    change = (m.get('change') or '').replace('|', '/').replace('\n', ' ')
    first = change[:230] + ('...' if len(change) > 230 else '')
    r = m['run_against_check']
    if r['caught']:
        res = 'caught: ' + ', '.join('`%s`' % s for s in r['violation_signatures'][:2])
    else:
        res = '**not caught** (exit %s): see note' % r['exit_code']
    rows.append('| %s | %s | %s |' % (sid, first, res))
table = ['| seed | the change (beginning of the author\'s description; full text in seeded/<id>/meta.json) | quick check of its property |', '|------|------|------|'] + rows
p = '/verif/DESIGN.md'
s = open(p).read()
a, b = s.index('<!-- SEEDTABLE -->'), s.index('<!-- /SEEDTABLE -->')
s = s[:a] + '<!-- SEEDTABLE -->\n' + '\n'.join(table) + '\n' + s[b:]
open(p, 'w').write(s)
print(len(rows), 'rows')
