#!/usr/bin/env python3-vt
"""Validate MANIFEST.json and every evidence file against the schemas."""
import json, sys, glob, jsonschema
ok = True
try:
    jsonschema.validate(json.load(open('/verif/MANIFEST.json')), json.load(open('/root/.vp/MANIFEST.schema.json')))
    print("MANIFEST ok")
except Exception as e:
    ok = False; print("MANIFEST INVALID", str(e)[:300])
es = json.load(open('/root/.vp/EVIDENCE.schema.json'))
for f in sorted(glob.glob('/verif/evidence/*.json')):
    try:
        ev = json.load(open(f)); jsonschema.validate(ev, es)
        c = ev['coverage']
        print(f.split('/')[-1], ev['tier'], 'evals', c['evaluations'], 'nt', c['distinct_nontrivial'], 'viol', ev.get('violations'), 'wall %.0fs' % ev['wall_s'])
    except Exception as e:
        ok = False; print(f, "INVALID", str(e)[:300])
sys.exit(0 if ok else 1)
