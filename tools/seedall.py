#!/usr/bin/env python3
"""Development aid: run every stored seeded change against its check (quick tier) and write seeded/<id>/meta.json.
usage: tools/seedall.py [ids...]"""
import json, os, subprocess, sys, re, time
ids = sys.argv[1:] or sorted(d for d in os.listdir('/verif/seeded') if os.path.isdir('/verif/seeded/' + d))
for sid in ids:
    d = '/verif/seeded/' + sid
    prop = sid.split('-')[0]
    agent = {}
    if os.path.exists(d + '/meta.agent.json'):
        agent = json.load(open(d + '/meta.agent.json'))
    t0 = time.time()
    p = subprocess.run(['/verif/tools/seedtest.sh', d + '/patch.diff', prop], capture_output=True, text=True)
    out = p.stdout + p.stderr
    m = re.search(r'seedtest exit=(\d+)', out)
    rc = int(m.group(1)) if m else -1
    sigs = re.findall(r'^violation signature: (\S+)', out, re.M)
    summary = [l for l in out.splitlines() if l.startswith(prop + ' quick')]
    meta = {
        "property": prop,
        "change": agent.get("summary", ""),
        "needs_to_manifest": agent.get("needs_to_manifest", ""),
        "files_changed": agent.get("files_changed", []),
        "verified_in_fresh_worktree": "tools/verify_seed.sh: builds; the 263 pinned tests pass with the change; the demonstration (demo_test.go.txt) fails with the change and passes without it",
        "run_against_check": {
            "command": "git -C /repo apply seeded/%s/patch.diff && ./check %s quick ; git -C /repo checkout -- ." % (sid, prop),
            "exit_code": rc,
            "caught": rc == 1,
            "violation_signatures": sigs[:6],
            "check_summary": summary[:1],
            "wall_s": round(time.time() - t0, 1),
        },
    }
    if os.path.exists(d + '/note.txt'):
        meta["note"] = open(d + '/note.txt').read().strip()
    json.dump(meta, open(d + '/meta.json', 'w'), indent=1)
    print(sid, 'exit', rc, sigs[:2])
st = subprocess.run(['git', '-C', '/repo', 'status', '--porcelain'], capture_output=True, text=True).stdout
print('repo status:', repr(st))
