#!/bin/sh
# Run every registered quick check at the default seed (refreshes evidence/); prints one line per check.
cd /verif
for id in $(python3 -c "import json;print(' '.join(c['property_id'] for c in json.load(open('MANIFEST.json'))['checks']))"); do
  out=$(./check $id quick 2>&1); rc=$?
  echo "$out" | grep -E "^$id quick|^VIOLATION|INCONCLUSIVE" | cut -c1-200
  echo "  exit=$rc"
done
