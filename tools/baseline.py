#!/usr/bin/env python3
"""Run the repository's pinned suite (hooks off) and compare with /root/.vp/BASELINE.json."""
import json, subprocess, sys, os
repo = sys.argv[1] if len(sys.argv) > 1 else "/repo"
env = dict(os.environ, GOFLAGS="-mod=mod", GOPROXY="off", GOSUMDB="off", GOTOOLCHAIN="local")
p = subprocess.run(["go", "test", "-json", "-vet=off", "-count=1", "-timeout", "25m", "./..."], cwd=repo, env=env, capture_output=True, text=True)
passed = set()
for line in p.stdout.splitlines():
    try:
        e = json.loads(line)
    except Exception:
        continue
    if e.get("Action") == "pass" and e.get("Test"):
        passed.add(e["Package"] + "::" + e["Test"])
base = json.load(open("/root/.vp/BASELINE.json"))["stable_pass"]
missing = [t for t in base if t not in passed]
print("baseline tests: %d, passing now: %d, missing: %d" % (len(base), len(base) - len(missing), len(missing)))
for m in missing:
    print("  MISSING", m)
subprocess.run(["git", "-C", repo, "status", "--short"])
sys.exit(1 if missing else 0)
