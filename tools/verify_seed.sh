#!/bin/sh
# usage: tools/verify_seed.sh <agent-worktree> <name>
# Re-verifies a seeded change in a fresh scratch worktree of /repo's HEAD:
#  suite passes with the change, demo fails with it, demo passes without it.
# On success stores it as /verif/seeded/<name>/ .
set -u
WT=$1; NAME=$2
export GOFLAGS=-mod=mod GOPROXY=off GOSUMDB=off GOTOOLCHAIN=local
S=/tmp/seedverify-$$
git -C /repo worktree add -q --detach $S HEAD || exit 2
cleanup() { git -C /repo worktree remove --force $S; }
trap cleanup EXIT
DEMO_DIR=verifdemo
if [ -d "$WT/verifdemo" ]; then mkdir -p $S/verifdemo && cp $WT/verifdemo/*.go $S/verifdemo/; else
  # demo lives inside a package: first line of SEED/demo_test.go names the location
  LOC=$(head -3 $WT/SEED/demo_test.go | grep -o '[a-z/]*/[a-z_]*_test\.go' | head -1)
  [ -z "$LOC" ] && { echo "cannot locate demo"; exit 2; }
  cp $WT/$LOC $S/$LOC; DEMO_DIR=$(dirname $LOC)
fi
echo "== demo WITHOUT change (must pass)"
(cd $S && go test -count=1 ./$DEMO_DIR/ 2>&1 | tail -3) ; (cd $S && go test -count=1 ./$DEMO_DIR/ >/dev/null 2>&1); R0=$?
(cd $S && git apply --3way $WT/SEED/patch.diff 2>/dev/null || git apply $WT/SEED/patch.diff) || { echo "patch does not apply on HEAD"; exit 2; }
echo "== build + suite WITH change (must pass)"
(cd $S && go build ./... ) || { echo "does not build"; exit 1; }
mv $S/$DEMO_DIR /tmp/seedverify-demo-$$ 2>/dev/null; 
if [ "$DEMO_DIR" = verifdemo ]; then /verif/tools/baseline.py $S | head -5; R1=$?; /verif/tools/baseline.py $S >/dev/null 2>&1; R1=$?; mv /tmp/seedverify-demo-$$ $S/$DEMO_DIR; else mv /tmp/seedverify-demo-$$ $S/$DEMO_DIR; mv $S/$LOC /tmp/seedverify-demo-$$.go; /verif/tools/baseline.py $S >/dev/null 2>&1; R1=$?; mv /tmp/seedverify-demo-$$.go $S/$LOC; fi
echo "suite rc=$R1"
echo "== demo WITH change (must fail)"
(cd $S && go test -count=1 ./$DEMO_DIR/ 2>&1 | tail -6); (cd $S && go test -count=1 ./$DEMO_DIR/ >/dev/null 2>&1); R2=$?
echo "without=$R0 suite=$R1 with=$R2"
if [ $R0 -eq 0 ] && [ $R1 -eq 0 ] && [ $R2 -ne 0 ]; then
  D=/verif/seeded/$NAME; mkdir -p $D
  (cd $S && git diff HEAD -- . ':!verifdemo' ':!*_demo_test.go') > $D/patch.diff
  cp $WT/SEED/demo_test.go $D/demo_test.go.txt
  cp $WT/SEED/meta.json $D/meta.agent.json
  echo "KEPT $D"
else
  echo "REJECTED"
  exit 1
fi
