#!/bin/sh
# usage: tools/seedtest.sh <patch.diff> <Cxx> [tier]   -- apply a seeded change to /repo, run the check, undo it.
set -u
PATCH=$1; PROP=$2; TIER=${3:-quick}
if [ -n "$(git -C /repo status --porcelain)" ]; then echo "/repo is dirty, refusing"; exit 2; fi
git -C /repo apply "$PATCH" 2>/dev/null || git -C /repo apply --3way "$PATCH" 2>/dev/null || { echo "patch does not apply"; git -C /repo reset -q --hard HEAD; exit 2; }
git -C /repo reset -q
cd /verif && ./check "$PROP" "$TIER"; RC=$?
git -C /repo checkout -- .
git -C /repo status --porcelain
echo "seedtest exit=$RC"
exit $RC
