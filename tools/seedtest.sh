#!/bin/sh
# usage: tools/seedtest.sh <patch.diff> <Cxx> [tier]
# Development aid: run a check against a scratch worktree of /repo's HEAD with a seeded change applied
# (/repo itself is left alone, so other runs are not disturbed). Same result as
#   git -C /repo apply <patch> && ./check <Cxx> <tier> ; git -C /repo checkout -- .
set -u
PATCH=$1; PROP=$2; TIER=${3:-quick}
S=/tmp/seedrun-$$
git -C /repo worktree add -q --detach $S HEAD || exit 2
trap 'git -C /repo worktree remove --force $S' EXIT
(cd $S && (git apply "$PATCH" 2>/dev/null || git apply --3way "$PATCH" 2>/dev/null)) || { echo "patch does not apply"; exit 2; }
cd /verif && VERIF_REPO=$S ./check "$PROP" "$TIER"; RC=$?
echo "seedtest exit=$RC"
exit $RC
