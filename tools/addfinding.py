#!/usr/bin/env python3
"""Development aid (never run by a check): record the crash site of a saved replay file as a
known finding: copy the case to regress/<id>.json and append the ledger line.
usage: tools/addfinding.py <replay.json> [<text>]"""
import json, re, sys, shutil
path = sys.argv[1]
d = json.load(open(path))
prop, sig = d["property"], d["signature"]
ledger = open("/verif/known-findings.txt").read()
ids = [int(m) for m in re.findall(r"id=%s-F(\d+)" % prop, ledger)]
fid = "%s-F%02d" % (prop, max(ids + [0]) + 1)
glob = re.sub(r"\[[^\]]*\]", "*", sig)
glob = re.sub(r"\d+", "*", glob) if "out_of_range" in glob else glob
glob = re.sub(r"\*+(_\*)*", "*", glob)
for line in ledger.splitlines():
    m = re.search(r"sig=(\S+)", line)
    if m and m.group(1) == glob:
        print("already listed:", line[:120]); sys.exit(1)
first = d["message"].strip().splitlines()[0] if d["message"].strip() else sig
site = sig.split(":")[1] if sig.count(":") >= 2 else sig
text = sys.argv[2] if len(sys.argv) > 2 else "%s panics while rendering: %s" % (site, first)
d["signature"] = sig
json.dump(d, open("/verif/regress/%s.json" % fid, "w"), indent=1)
with open("/verif/known-findings.txt", "a") as f:
    f.write("finding: property=%s id=%s sig=%s witness=regress/%s.json :: %s\n" % (prop, fid, glob, fid, text))
print(fid, glob)
