#!/bin/sh
# Development aid: run the repository's layout / drawing / text tests (which the pinned baseline cannot
# run: they need a font cache) on a scratch copy of /repo's working tree, with a font cache generated there.
set -u
export GOFLAGS=-mod=mod GOPROXY=off GOSUMDB=off GOTOOLCHAIN=local
S=/tmp/wt-lt-copy
SRC=${1:-/repo}; mkdir -p $S && rsync -a --delete --exclude .git $SRC/ $S/ || exit 2
mkdir -p $S/cmd_scan && cat > $S/cmd_scan/main.go <<'EOG'
package main

import (
	"fmt"

	fc "github.com/benoitkugler/textprocessing/fontconfig"
)

func main() {
	fs, err := fc.ScanAndCache("text/testdata/cache.fc")
	fmt.Println(len(fs), err)
}
EOG
cd $S && go run ./cmd_scan >/dev/null 2>&1
go test -count=1 -vet=off -json ./html/layout/ ./html/document/ ./text/ 2>&1 | python3 -c "
import sys,json
p=f=0; fails=[]
for l in sys.stdin:
    try: e=json.loads(l)
    except Exception: continue
    if e.get('Test') and e.get('Action')=='pass': p+=1
    if e.get('Test') and e.get('Action')=='fail': f+=1; fails.append(e['Package'].split('/')[-1]+'::'+e['Test'])
print('layout/document/text tests: pass',p,'fail',f)
for x in sorted(fails): print('  FAIL',x)
"
